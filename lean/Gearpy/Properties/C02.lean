import Gearpy.Proofs.Solver
import Gearpy.Properties.C01
import Mathlib.Tactic.FieldSimp
/-!
# C02 — torque propagation and balance along the chain at every instant

For every configuration, **every load function** `load : position → speed → time → torque`,
every motor characteristic, every controller and every list of schedule operations, each
recorded instant satisfies:
* the motor's driving torque is its characteristic at the recorded motor speed and duty cycle;
* each following element's driving torque is its driver's times efficiency times ratio;
* the last element's load torque is `load` at that element's recorded position and speed and at
  that instant's time;
* each upstream load torque is its follower's divided by efficiency and ratio
  (`LoadOK`; `load_mul` gives the division-free form under `η, r ≠ 0` — the code raises
  `ZeroDivisionError` at `η = 0`, Lean's `x / 0 = 0` is never relied upon);
* net torque = driving − load, element by element;
* `stage_power` / `chain_power`: with C01, the driving power leaving a stage is the power entering it times the
  stage's efficiency, and end to end the product of the efficiencies — at every recorded instant of every history.
-/

namespace Gearpy.C02
open Gearpy

/-- C02 on every record of every history -/
theorem C02 (c : Cfg) (ops : List Op) (p v : Q) (s' : St)
    (he : exec c ops (St.init p v) = .ok s') :
    ∀ r ∈ s'.recs,
      r.dtorque.head? = some (c.motorTorque (r.speed.headD 0) r.pwm) ∧
      DriveOK c.links r.dtorque ∧
      r.ltorque.getLast? = some (c.load (lastD r.pos) (lastD r.speed) r.time) ∧
      LoadOK c.links r.ltorque ∧
      r.torque = List.zipWith (· - ·) r.dtorque r.ltorque := by
  intro r hr
  have h := all_records_ok c ops _ s' (init_inv c p v) he r hr
  exact ⟨h.drive0, h.drive, h.loadLast, h.load, h.net⟩

/-- the recorded current is the motor's current law at the recorded duty cycle and driving torque -/
theorem C02_current (c : Cfg) (ops : List Op) (p v : Q) (s' : St)
    (he : exec c ops (St.init p v) = .ok s') :
    ∀ r ∈ s'.recs, r.current = c.motorCurrent r.pwm (r.dtorque.headD 0) := by
  intro r hr
  exact (all_records_ok c ops _ s' (init_inv c p v) he r hr).cur

/-- index form of the driving-torque law -/
theorem drive_get {ls : List Link} {ds : List Q} (h : DriveOK ls ds) :
    ds.length = ls.length + 1 ∧ ∀ i (hi : i < ls.length) (hj : i + 1 < ds.length),
      ds[i+1] = ds[i]'(by omega) * ls[i].eff * ls[i].ratio := by
  induction ls generalizing ds with
  | nil => match ds, h with | [_], _ => simp
  | cons l ls ih =>
    match ds, h with
    | a :: b :: ds', h =>
      obtain ⟨h1, h2⟩ := h
      obtain ⟨hl, hg⟩ := ih h2
      refine ⟨by simp at hl ⊢; omega, ?_⟩
      intro i hi hj
      cases i with
      | zero => simpa using h1
      | succ k =>
        have := hg k (by simpa using hi) (by simpa using hj)
        simp only [List.getElem_cons_succ]
        exact this

/-- index form of the load-torque law, division-free under non-zero efficiency and ratio -/
theorem load_mul {ls : List Link} {xs : List Q} (h : LoadOK ls xs)
    (hnz : ∀ l ∈ ls, l.eff ≠ 0 ∧ l.ratio ≠ 0) :
    xs.length = ls.length + 1 ∧ ∀ i (hi : i < ls.length) (hj : i + 1 < xs.length),
      xs[i]'(by omega) * ls[i].eff * ls[i].ratio = xs[i+1] := by
  induction ls generalizing xs with
  | nil => match xs, h with | [_], _ => simp
  | cons l ls ih =>
    match xs, h with
    | a :: b :: xs', h =>
      obtain ⟨h1, h2⟩ := h
      obtain ⟨hl, hg⟩ := ih h2 (fun l' hl' => hnz l' (List.mem_cons_of_mem _ hl'))
      refine ⟨by simp at hl ⊢; omega, ?_⟩
      intro i hi hj
      cases i with
      | zero =>
        obtain ⟨he, hr⟩ := hnz l (by simp)
        simp only [List.getElem_cons_zero, List.getElem_cons_succ]
        rw [h1]; field_simp
      | succ k =>
        have := hg k (by simpa using hi) (by simpa using hj)
        simp only [List.getElem_cons_succ]
        exact this

/-- net torque element by element -/
theorem net_get (r : Rec) (h : r.torque = List.zipWith (· - ·) r.dtorque r.ltorque) (i : Nat)
    (h1 : i < r.dtorque.length) (h2 : i < r.ltorque.length) :
    r.torque[i]? = some (r.dtorque[i] - r.ltorque[i]) := by
  rw [h]; simp [List.getElem?_zipWith, List.getElem?_eq_getElem h1, List.getElem?_eq_getElem h2]

/-- C02 along schedules whose configuration changes between runs (`execSeg`): every surviving record
    obeys the torque laws of the configuration of one of the segments — the one in force when it was
    recorded (its motor law, its links, its load function) -/
theorem C02_segments (sl : Bool) (all : List Cfg) (segs : List (Cfg × List Op)) (p v : Q) (s' : St)
    (hall : ∀ seg ∈ segs, seg.1 ∈ all ∧ seg.1.sl = sl) (he : execSeg segs (St.init p v) = .ok s') :
    ∀ r ∈ s'.recs, ∃ c ∈ all,
      r.dtorque.head? = some (c.motorTorque (r.speed.headD 0) r.pwm) ∧ DriveOK c.links r.dtorque ∧
      r.ltorque.getLast? = some (c.load (lastD r.pos) (lastD r.speed) r.time) ∧ LoadOK c.links r.ltorque ∧
      r.torque = List.zipWith (· - ·) r.dtorque r.ltorque := by
  intro r hr
  have hinv := execSeg_records sl all segs (St.init p v) s' hall
    ⟨by intro r hr; simp [St.init] at hr, by intro h; simp [St.init] at h⟩ he
  obtain ⟨c, hc, hok⟩ := hinv.1 r hr
  exact ⟨c, hc, hok.drive0, hok.drive, hok.loadLast, hok.load, hok.net⟩

/-! ### non-vacuity -/
def exCfg : Cfg :=
  { J0 := 1, links := [⟨2, 9/10, 1/2, true⟩, ⟨3, 4/5, 1/4, true⟩], sl := false, tolW := 0, tolT := 0,
    motorTorque := fun w D => (1 - w / 100) * 2 * D, motorCurrent := fun _ _ => none,
    load := fun p v t => 1/10 + p / 100 + v / 50 + t / 7, control := none }
example : (match exec exCfg [.run (1/4) 3 none] (St.init 0 1) with
    | .ok s => s.recs.map (·.ltorque.length) | .error _ => []) = [3, 3, 3, 3] := by decide +kernel

/-! ### power balance (C01 and C02 together) -/
/-- **Power balance of every stage** (C01 and C02 together): the driving power leaving stage `i` is the driving power
    entering it times the stage's efficiency — `d_{i+1}·ω_{i+1} = η_{i+1}·(d_i·ω_i)` — at every recorded instant of
    every history, whatever the ratio.  A torque law with the ratio on the wrong side, or a speed law with the inverse
    ratio, breaks this identity even where each looks plausible alone. -/
theorem stage_power (c : Cfg) (ops : List Op) (p v : Q) (s' : St)
    (he : exec c ops (St.init p v) = .ok s') :
    ∀ r ∈ s'.recs, ∀ i (hi : i < c.links.length) (hd : i + 1 < r.dtorque.length) (hw : i + 1 < r.speed.length),
      r.dtorque[i+1] * r.speed[i+1] = c.links[i].eff * (r.dtorque[i]'(by omega) * r.speed[i]'(by omega)) := by
  intro r hr i hi hd hw
  have h := all_records_ok c ops _ s' (init_inv c p v) he r hr
  have h1 := (drive_get h.drive).2 i hi hd
  have h2 := (C01.coupled_get h.speed).2 i (by simpa using hi) hw
  simp only [List.getElem_map] at h2
  rw [h1, h2]; ring

/-- end to end: the driving power at the last element is the motor's driving power times the product of the
    efficiencies of the stages in between (stated for the first `k` stages) -/
theorem chain_power (c : Cfg) (ops : List Op) (p v : Q) (s' : St)
    (he : exec c ops (St.init p v) = .ok s') :
    ∀ r ∈ s'.recs, ∀ k (hk : k ≤ c.links.length) (hd : k < r.dtorque.length) (hw : k < r.speed.length),
      r.dtorque[k] * r.speed[k] =
        ((c.links.take k).map (·.eff)).prod * (r.dtorque[0]'(by omega) * r.speed[0]'(by omega)) := by
  intro r hr k
  induction k with
  | zero => intro _ _ _; simp
  | succ k ih =>
    intro hk hd hw
    have hs := stage_power c ops p v s' he r hr k (by omega) hd hw
    have := ih (by omega) (by omega) (by omega)
    rw [hs, this, List.take_add_one]
    simp only [List.getElem?_eq_getElem (show k < c.links.length by omega), Option.toList_some, List.map_append,
      List.map_cons, List.map_nil, List.prod_append, List.prod_cons, List.prod_nil]
    ring

/-- non-vacuity: in the example run the power at the last element is `9/10 · 4/5` of the motor's at every instant -/
example : (match exec exCfg [.run (1/4) 3 none] (St.init 0 1) with
    | .ok s => s.recs.all (fun (r : Rec) =>
        decide ((r.dtorque.getD 2 0) * (r.speed.getD 2 0) = 9/10 * (4/5) * ((r.dtorque.getD 0 0) * (r.speed.getD 0 0))
          ∧ r.speed.getD 0 0 ≠ 0 ∧ r.dtorque.getD 0 0 ≠ 0))
    | .error _ => false) = true := by decide +kernel

end Gearpy.C02
