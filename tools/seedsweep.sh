#!/bin/bash
# every kept seed against the first check listed in its meta.json: prints the ones that are NOT reported
cd /verif
for d in seeded/*/; do
  id=$(basename $d)
  [ -f $d/patch.diff ] || continue
  chk=$(python3 -c "
import json,sys
m=json.load(open('$d/meta.json'))
d=m.get('detected_by') or []
print(d[0] if d else '')")
  [ -z "$chk" ] && { echo "$id: (no check listed)"; continue; }
  out=$(tools/seedtest.sh /verif/$d/patch.diff $chk 2>&1)
  if echo "$out" | grep -q "^VIOLATION property=$chk"; then
    if echo "$out" | grep -q "no-failing-input-found"; then echo "$id: $chk VIOLATION without failing input"; fi
  else
    echo "$id: $chk NOT REPORTED: $(echo "$out" | tail -1 | cut -c1-120)"
  fi
done
echo sweep-done
