"""Shared machinery of the checks: paths, build + audit of the Lean side, the driver pipe,
the reporter that turns outcomes into the exit code / VIOLATION / KNOWN-FINDING protocol,
and the evidence writer.  See DESIGN.md section 4."""
import fcntl
import hashlib
import json
import os
import random
import re
import subprocess
import sys
import time
from fractions import Fraction

HERE = os.path.dirname(os.path.abspath(__file__))
VERIF = os.path.dirname(HERE)
LEAN = os.path.join(VERIF, 'lean')
BUILD = os.path.join(VERIF, 'build')
REPO = os.environ.get('GEARPY_REPO', '/repo')
DRIVER = os.path.join(LEAN, '.lake', 'build', 'bin', 'driver')
PY = '/venv/bin/python'
ALLOWED_AXIOMS = {'propext', 'Classical.choice', 'Quot.sound'}
FORBIDDEN = re.compile(r'\bsorry\b|\badmit\b|^\s*axiom\s|native_decide|bv_decide|implemented_by|\bunsafe\s|maxHeartbeats\s+0')

sys.set_int_max_str_digits(0)


def R(x):
    """exact rational of a Python number as `num/den`"""
    if isinstance(x, Fraction):
        n, d = x.numerator, x.denominator
    elif isinstance(x, int):
        n, d = x, 1
    else:
        n, d = float(x).as_integer_ratio()
    return f'{n}/{d}' if d != 1 else f'{n}'


def parse_num(s):
    """a driver number: `num/den`, or a decimal approximation `<int>e<exp>`"""
    if '/' in s:
        return float(Fraction(s))
    return float(s)


def close(a, b, rel=1e-9, floor=0.0):
    return abs(a - b) <= rel * max(abs(a), abs(b), floor) or abs(a - b) <= 1e-300


class Lock:
    def __init__(self, name='lake'):
        os.makedirs(BUILD, exist_ok=True)
        self.path = os.path.join(BUILD, f'.{name}.lock')

    def __enter__(self):
        self.f = open(self.path, 'w')
        fcntl.flock(self.f, fcntl.LOCK_EX)
        return self

    def __exit__(self, *a):
        fcntl.flock(self.f, fcntl.LOCK_UN)
        self.f.close()


def run_extract():
    """tie (a): regenerate Generated/Tables.lean from the working tree"""
    p = subprocess.run([PY, os.path.join(HERE, 'extract.py')], capture_output=True, text=True,
                       env={**os.environ, 'GEARPY_REPO': REPO})
    return p.returncode == 0, (p.stdout + p.stderr)[-4000:]


def lake_build(targets, timeout=1500):
    p = subprocess.run(['lake', 'build'] + list(targets), cwd=LEAN, capture_output=True, text=True, timeout=timeout)
    return p.returncode == 0, (p.stdout + p.stderr)


def strip_comments(text):
    text = re.sub(r'/-.*?-/', ' ', text, flags=re.S)
    return '\n'.join(line.split('--')[0] for line in text.split('\n'))


def source_scan():
    """reject sorry / admit / axiom / native_decide / … anywhere in the Lean sources (comments excluded)"""
    hits = []
    for root, _, files in os.walk(LEAN):
        if '.lake' in root:
            continue
        for fn in files:
            if fn.endswith('.lean'):
                p = os.path.join(root, fn)
                for i, line in enumerate(strip_comments(open(p).read()).split('\n'), 1):
                    if FORBIDDEN.search(line):
                        hits.append(f'{os.path.relpath(p, LEAN)}:{i}: {line.strip()[:120]}')
    return hits


def property_theorems(pid):
    """(namespace, [theorem names]) declared in Gearpy/Properties/<pid>.lean"""
    path = os.path.join(LEAN, 'Gearpy', 'Properties', f'{pid}.lean')
    text = strip_comments(open(path).read())
    ns = re.search(r'^namespace\s+(\S+)', text, flags=re.M)
    ns = ns.group(1) if ns else ''
    names = re.findall(r'^(?:private\s+|protected\s+)?theorem\s+([^\s:({\[]+)', text, flags=re.M)
    return ns, names


def audit(pid):
    """`#print axioms` for every theorem of the property file; returns dict"""
    ns, names = property_theorems(pid)
    os.makedirs(BUILD, exist_ok=True)
    path = os.path.join(BUILD, f'audit_{pid}_{os.getpid()}.lean')
    with open(path, 'w') as f:
        f.write(f'import Gearpy.Properties.{pid}\n')
        for n in names:
            f.write(f'#print axioms {ns}.{n}\n')
    try:
        p = subprocess.run(['lake', 'env', 'lean', path], cwd=LEAN, capture_output=True, text=True, timeout=900)
    finally:
        try:
            os.remove(path)
        except OSError:
            pass
    out = p.stdout + p.stderr
    res = {}
    for n in names:
        full = f'{ns}.{n}'
        m = re.search(r"'" + re.escape(full) + r"' depends on axioms: \[(.*?)\]", out, flags=re.S)
        if m:
            res[n] = [a.strip() for a in m.group(1).replace('\n', ' ').split(',') if a.strip()]
        elif re.search(r"'" + re.escape(full) + r"' does not depend on any axioms", out):
            res[n] = []
        else:
            res[n] = None  # not found: the theorem does not exist / file broken
    return {'namespace': ns, 'theorems': names, 'axioms': res, 'ok': p.returncode == 0, 'log': out[-3000:]}


class Driver:
    """batch pipe to the compiled Lean driver: same request lines in, one response line each"""

    def __init__(self):
        self.available = os.path.exists(DRIVER)
        self.lines = 0

    def ask(self, lines, timeout=1200):
        if not lines:
            return []
        if not self.available:
            raise RuntimeError('driver not built')
        for ln in lines:
            assert '\n' not in ln
        p = subprocess.run([DRIVER], input='\n'.join(lines) + '\n', capture_output=True, text=True, timeout=timeout)
        out = p.stdout.split('\n')
        if out and out[-1] == '':
            out.pop()
        if len(out) != len(lines):
            raise RuntimeError(f'driver returned {len(out)} lines for {len(lines)} requests: {p.stderr[-500:]}')
        self.lines += len(lines)
        return out


def load_known():
    p = os.path.join(VERIF, 'known_findings.json')
    if not os.path.exists(p):
        return {'findings': [], 'fixed': []}
    return json.load(open(p))


class Ctx:
    """what a harness sees"""

    def __init__(self, pid, tier, seed, replay=None):
        self.pid = pid
        self.tier = tier
        self.seed = seed
        self.rng = random.Random(f'{pid}-{seed}')
        self.driver = Driver()
        self.t0 = time.time()
        self.evaluations = 0
        self.nontrivial = set()
        self.samples = []
        self.dist = {}
        self.violations = []      # oracle failures on the implementation: (case, detail)
        self.mismatches = []      # model vs implementation disagreements: (case, impl, model)
        self.known_hits = {}      # finding id -> [cases]
        self.notes = []
        self.known = [f for f in load_known()['findings'] if f['property'] == pid]
        self.replay = replay
        self.model_ok = True

    def budget(self, quick, thorough):
        return thorough if self.tier == 'thorough' else quick

    def count(self, key, n=1):
        self.dist[key] = self.dist.get(key, 0) + n

    def case_done(self, case, nontrivial=True):
        """one evaluated case; `nontrivial` by the harness's stated rule"""
        self.evaluations += 1
        if nontrivial:
            self.nontrivial.add(hashlib.sha1(json.dumps(case, sort_keys=True, default=str).encode()).hexdigest())
        if len(self.samples) < 5 or (self.evaluations % 997 == 0 and len(self.samples) < 12):
            self.samples.append(case)

    def violation(self, case, detail):
        self.violations.append((case, detail))

    def mismatch(self, case, impl, model):
        self.mismatches.append((case, impl, model))

    def known_finding(self, fid, case):
        self.known_hits.setdefault(fid, []).append(case)

    def note(self, s):
        if len(self.notes) < 50:
            self.notes.append(s)


def write_replay(pid, payload):
    d = os.path.join(VERIF, 'replays')
    os.makedirs(d, exist_ok=True)
    blob = json.dumps(payload, sort_keys=True, default=str, indent=1)
    h = hashlib.sha1(blob.encode()).hexdigest()[:12]
    path = os.path.join(d, f'{pid}-{h}.json')
    with open(path, 'w') as f:
        f.write(blob)
    return os.path.relpath(path, VERIF)


def write_evidence(pid, ev):
    d = os.path.join(VERIF, 'evidence')
    os.makedirs(d, exist_ok=True)
    path = os.path.join(d, f'{pid}.json')
    tmp = path + f'.tmp{os.getpid()}'
    with open(tmp, 'w') as f:
        json.dump(ev, f, indent=1, default=str)
    os.replace(tmp, path)
