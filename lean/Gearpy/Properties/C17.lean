import Gearpy.Model.Record
import Gearpy.Proofs.Solver
/-!
# C17 — every advertised time variable has exactly one sample per instant

Bookkeeping model (`Gearpy.Model.Record`): `advertised` = the keys present after construction and
relation declarations, `recordsNow` = what `update_time_variables` appends, decided by the
`…_is_computable` flags *at update time* (for a worm wheel the bending flag depends on its mate).
* `advertised_iff_records`: for every element kind, every subset of optional data and every
  mating situation, a variable other than `'pwm'` is advertised exactly when it is recorded
  (`'pwm'` is recorded by motors and creates its key at the first update) — this is the statement
  that failed before repair D6 for a worm wheel mated with a worm without reference diameter;
* `lengths_inv`: after **any** sequence of recorded instants and resets, every key present holds
  exactly as many samples as there are recorded instants, and every variable the element records
  has its key;
* values: `last_is_attr` — the solver model's live attributes equal the last record
  (`C03.Coherent`), and each record is appended from the attributes just computed (`compute`);
  kinds of samples are enforced by the typed setters (checked by the harness);
* `record_shape` / `schedule_record_shape`: in the solver model every recorded instant of every schedule holds
  exactly one position, speed, acceleration, driving, load and net torque per element of the chain;
* consequently export and snapshot, which zip every advertised list with the time axis, cannot
  hit a length mismatch (`export_total`).
-/

namespace Gearpy.C17
open Gearpy

/-- advertised ⇔ recorded, for every variable except the motor's `'pwm'` -/
theorem advertised_iff_records (e : ElemInfo) (v : Var) (hv : v ≠ .pwm) : advertised e v = recordsNow e v := by
  obtain ⟨k, ⟨m, b, E⟩, rd, hc, mate⟩ := e
  cases k <;> cases v <;> simp_all [advertised, recordsNow, Var.isBase, Var.rank, forceComputable, bendingComputable,
    contactComputable, wormWheelBendingComputable] <;>
    (cases m <;> cases b <;> (try cases E) <;> (try cases mate) <;> simp_all)

theorem pwm_records (e : ElemInfo) : recordsNow e .pwm = (e.kind == .motor) := by
  obtain ⟨k, d, rd, hc, mate⟩ := e
  cases k <;> simp [recordsNow, Var.isBase, Var.rank]

theorem pwm_not_advertised (e : ElemInfo) : advertised e .pwm = false := by
  obtain ⟨k, d, rd, hc, mate⟩ := e
  cases k <;> simp [advertised, Var.isBase, Var.rank]

/-- the invariant: every present key belongs to a recorded variable and has `n` samples; an absent
    key is either never recorded, or it is `'pwm'` before the first instant was ever recorded -/
def Inv (e : ElemInfo) (n : Nat) (tv : TV) : Prop :=
  ∀ v, (∀ k, tv v = some k → k = n ∧ recordsNow e v = true) ∧
       (tv v = none → recordsNow e v = false ∨ (v = .pwm ∧ n = 0))

theorem init_inv (e : ElemInfo) : Inv e 0 (TV.init e) := by
  intro v
  simp only [TV.init]
  constructor
  · intro k hk
    split at hk
    · rename_i ha
      simp only [Option.some.injEq] at hk
      refine ⟨hk.symm, ?_⟩
      by_cases hv : v = .pwm
      · subst hv; rw [pwm_not_advertised] at ha; simp at ha
      · rw [← advertised_iff_records e v hv]; exact ha
    · simp at hk
  · intro hn
    by_cases hv : v = .pwm
    · right; exact ⟨hv, by trivial⟩
    · left
      rw [← advertised_iff_records e v hv]
      split at hn
      · simp at hn
      · rename_i ha; simpa using ha

theorem update_inv (e : ElemInfo) (n : Nat) (tv : TV) (h : Inv e n tv) : Inv e (n + 1) (tv.update e) := by
  intro v
  obtain ⟨h1, h2⟩ := h v
  simp only [TV.update]
  constructor
  · intro k hk
    split at hk
    · rename_i hr
      cases htv : tv v with
      | some m => rw [htv] at hk; simp only [Option.some.injEq] at hk; rw [← hk, (h1 m htv).1]; exact ⟨rfl, hr⟩
      | none =>
        rw [htv] at hk
        simp only at hk
        split at hk
        · simp only [Option.some.injEq] at hk
          rcases h2 htv with hc | ⟨_, hn⟩
          · rw [hc] at hr; simp at hr
          · rw [← hk, hn]; exact ⟨rfl, hr⟩
        · simp at hk
    · rename_i hr
      have := (h1 k hk).2
      exact absurd this hr
  · intro hn
    split at hn
    · rename_i hr
      cases htv : tv v with
      | some m => rw [htv] at hn; simp at hn
      | none =>
        rw [htv] at hn
        simp only at hn
        split at hn
        · simp at hn
        · rename_i hp
          rcases h2 htv with hc | ⟨hv, _⟩
          · left; exact hc
          · exact absurd hv hp
    · rename_i hr; left; simpa using hr

theorem reset_inv (e : ElemInfo) (n : Nat) (tv : TV) (h : Inv e n tv) : Inv e 0 tv.reset := by
  intro v
  obtain ⟨h1, h2⟩ := h v
  simp only [TV.reset]
  constructor
  · intro k hk
    cases htv : tv v with
    | some m => rw [htv] at hk; simp only [Option.map_some, Option.some.injEq] at hk; exact ⟨hk.symm, (h1 m htv).2⟩
    | none => rw [htv] at hk; simp at hk
  · intro hn
    cases htv : tv v with
    | some m => rw [htv] at hn; simp at hn
    | none =>
      rcases h2 htv with hc | ⟨hv, _⟩
      · left; exact hc
      · right; exact ⟨hv, by trivial⟩

/-- C17: after any sequence of recorded instants and resets every present key holds exactly one
    sample per recorded instant, and every recorded variable has its key as soon as one instant
    is recorded -/
theorem lengths_inv (e : ElemInfo) (ops : List RecOp) :
    let r := recRun e ops (0, TV.init e)
    (∀ v k, r.2 v = some k → k = r.1) ∧ (0 < r.1 → ∀ v, recordsNow e v = true → r.2 v = some r.1) := by
  have key : ∀ (ops : List RecOp) (n : Nat) (tv : TV), Inv e n tv → Inv e (recRun e ops (n, tv)).1 (recRun e ops (n, tv)).2 := by
    intro ops
    induction ops with
    | nil => intro n tv h; exact h
    | cons o os ih =>
      intro n tv h
      cases o with
      | update => simp only [recRun]; exact ih _ _ (update_inv e n tv h)
      | reset => simp only [recRun]; exact ih _ _ (reset_inv e n tv h)
  have hinv := key ops 0 (TV.init e) (init_inv e)
  refine ⟨fun v k hk => ((hinv v).1 k hk).1, ?_⟩
  intro hpos v hr
  cases htv : (recRun e ops (0, TV.init e)).2 v with
  | some k => rw [((hinv v).1 k htv).1]
  | none =>
    rcases (hinv v).2 htv with hc | ⟨_, hn⟩
    · rw [hc] at hr; simp at hr
    · omega

/-- the variables `snapshot` reports for an element are among those it records, hence have a full
    history to interpolate: export and snapshot never meet a length mismatch -/
theorem export_total (e : ElemInfo) (ops : List RecOp) (req : Option (List Var)) (v : Var)
    (hs : snapshotReports e req v = true) (hpos : 0 < (recRun e ops (0, TV.init e)).1) :
    (recRun e ops (0, TV.init e)).2 v = some (recRun e ops (0, TV.init e)).1 := by
  have hr : recordsNow e v = true := by
    unfold snapshotReports at hs; simp only [Bool.and_eq_true] at hs; exact hs.2
  exact (lengths_inv e ops).2 hpos v hr

/-- the model's recorded values: the live attributes equal the last record after every computed instant -/
theorem last_is_attr (c : Cfg) (s s' : St) (t : Q) (hinv : s.locked = true → c.sl = true)
    (h : compute c s t = .ok s') :
    ∃ r, s'.recs.getLast? = some r ∧ s'.pos = lastD r.pos ∧ s'.speed = lastD r.speed ∧ s'.acc = lastD r.acc ∧
      s'.pwm = r.pwm ∧ s'.mtorque = some (r.torque.headD 0) := by
  obtain ⟨r, hr, _, _, _, hp, hv, ha, hw, _, hm⟩ := compute_recOK c s s' t hinv h
  exact ⟨r, by rw [hr]; simp, hp, hv, ha, hw, hm⟩

/-! ### the solver model's records: one sample per element per instant -/
theorem coupled_length : ∀ (rs xs : List Q), Coupled rs xs → xs.length = rs.length + 1
  | [], [_], _ => rfl
  | [], [], h => by simp [Coupled] at h
  | [], _ :: _ :: _, h => by simp [Coupled] at h
  | _ :: _, [], h => by simp [Coupled] at h
  | _ :: _, [_], h => by simp [Coupled] at h
  | _ :: rs, _ :: b :: vs, h => by
    have := coupled_length rs (b :: vs) h.2
    simp at this ⊢; omega

theorem driveOK_length : ∀ (ls : List Link) (xs : List Q), DriveOK ls xs → xs.length = ls.length + 1
  | [], [_], _ => rfl
  | [], [], h => by simp [DriveOK] at h
  | [], _ :: _ :: _, h => by simp [DriveOK] at h
  | _ :: _, [], h => by simp [DriveOK] at h
  | _ :: _, [_], h => by simp [DriveOK] at h
  | _ :: ls, _ :: b :: vs, h => by
    have := driveOK_length ls (b :: vs) h.2
    simp at this ⊢; omega

theorem loadOK_length : ∀ (ls : List Link) (xs : List Q), LoadOK ls xs → xs.length = ls.length + 1
  | [], [_], _ => rfl
  | [], [], h => by simp [LoadOK] at h
  | [], _ :: _ :: _, h => by simp [LoadOK] at h
  | _ :: _, [], h => by simp [LoadOK] at h
  | _ :: _, [_], h => by simp [LoadOK] at h
  | _ :: ls, _ :: b :: vs, h => by
    have := loadOK_length ls (b :: vs) h.2
    simp at this ⊢; omega

/-- a record that obeys the record law holds exactly one sample per element for each of the six kinematic and
    torque variables -/
theorem record_shape (c : Cfg) (r : Rec) (h : RecOK c r) :
    r.pos.length = c.links.length + 1 ∧ r.speed.length = c.links.length + 1 ∧ r.acc.length = c.links.length + 1 ∧
    r.dtorque.length = c.links.length + 1 ∧ r.ltorque.length = c.links.length + 1 ∧
    r.torque.length = c.links.length + 1 := by
  have hp := coupled_length _ _ h.pos
  have hv := coupled_length _ _ h.speed
  have ha := coupled_length _ _ h.acc
  have hd := driveOK_length _ _ h.drive
  have hl := loadOK_length _ _ h.load
  simp only [List.length_map] at hp hv ha
  refine ⟨hp, hv, ha, hd, hl, ?_⟩
  rw [h.net, List.length_zipWith, hd, hl]; simp

/-- **One sample per element per instant, for every history**: after any schedule of runs, resets and attribute
    changes every recorded instant holds exactly one position, speed, acceleration, driving, load and net torque per
    element of the chain -/
theorem schedule_record_shape (c : Cfg) (ops : List Op) (p v : Q) (s' : St)
    (he : exec c ops (St.init p v) = .ok s') : ∀ r ∈ s'.recs,
    r.pos.length = c.links.length + 1 ∧ r.speed.length = c.links.length + 1 ∧ r.acc.length = c.links.length + 1 ∧
    r.dtorque.length = c.links.length + 1 ∧ r.ltorque.length = c.links.length + 1 ∧
    r.torque.length = c.links.length + 1 :=
  fun r hr => record_shape c r (all_records_ok c ops _ s' (Gearpy.init_inv c p v) he r hr)

/-! ### non-vacuity: the D6 configuration (worm wheel with module and face width, worm without
    reference diameter) after run, reset, run -/
def d6 : ElemInfo := { kind := .wormWheel, data := ⟨true, true, false⟩, mateRefDiam := some false }
example : (recRun d6 [.update, .update, .reset, .update] (0, TV.init d6)).1 = 1 := by decide +kernel
example : (recRun d6 [.update, .update, .reset, .update] (0, TV.init d6)).2 .bending = none := by decide +kernel
example : (recRun d6 [.update, .update, .reset, .update] (0, TV.init d6)).2 .force = some 1 := by decide +kernel

end Gearpy.C17
