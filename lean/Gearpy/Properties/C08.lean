import Gearpy.Model.Motor
import Gearpy.Proofs.Units
import Mathlib.Tactic.Positivity
/-!
# C08 — DC motor torque and current follow the documented characteristic

For every motor with `0 < ω₀`, `0 < T_max`, `0 ≤ i₀ < i_max` (`MotorP.Good`, exactly what the
constructor accepts), every speed `ω` of either sign and every duty cycle `D`:
* `torque_no_data`: without current data, `T = T_max (1 − ω/ω₀)` for every `D`;
* `torque_deadzone`: `|D| ≤ i₀/i_max ⇒ T = 0` exactly; `current_deadzone`: there `i = D·i_max`;
* `torque_pos_closed` / `torque_neg_closed`: outside, `T = T_max(D)(1 − ω/(D ω₀))` with
  `T_max(D) = T_max (D i_max ∓ i₀)/(i_max − i₀)`;
* `current_pos_closed` / `current_neg_closed`: `i = (D i_max ∓ i₀)·T/T_max(D) ± i₀` evaluated on the
  motor's own torque, in closed form;
* `standstill_full`, `noload_full`: at `D = 1`, `T(0) = T_max`, `i = i_max`; `T(ω₀) = 0`, `i = i₀`;
* `torque_boundary`, `current_boundary`: explicit identities whose right-hand sides vanish as
  `D → i₀/i_max` when `i₀ > 0` — continuity across the dead-zone boundary without limits (with
  `i₀ = 0` there is no dead zone and the documented law itself jumps at `D = 0` unless `ω = 0`);
* `torque_odd`, `current_odd`: reversing `D` and `ω` reverses torque and current exactly;
* `current_total`: the current law never divides by zero for `|D| > i₀/i_max` in exact arithmetic;
  in floating point `D·i_max − i₀` can round to 0 one ulp outside the dead zone — the code then
  returns `±i₀` (repair D9), which is what the model's `tm = 0` branch mirrors.
-/

namespace Gearpy.C08
open Gearpy

structure _root_.Gearpy.MotorP.Good (m : MotorP) (i0 imax : Q) : Prop where
  hc : m.cur = some (i0, imax)
  w0 : 0 < m.w0
  tmax : 0 < m.tmax
  hi0 : 0 ≤ i0
  lt : i0 < imax

variable {m : MotorP} {i0 imax : Q}

theorem torque_no_data (m : MotorP) (h : m.cur = none) (w D : Q) : torque m w D = m.tmax * (1 - w / m.w0) := by
  unfold torque; rw [h]; ring

theorem torque_deadzone (g : m.Good i0 imax) (w D : Q) (hD : qabs D ≤ i0 / imax) : torque m w D = 0 := by
  unfold torque; rw [g.hc]; simp [hD]

theorem torque_pos_closed (g : m.Good i0 imax) (w D : Q) (hD : i0 / imax < D) :
    torque m w D = m.tmax * ((D * imax - i0) / (imax - i0)) * (1 - w / (D * m.w0)) := by
  have himax : 0 < imax := lt_of_le_of_lt g.hi0 g.lt
  have hD0 : 0 < D := lt_of_le_of_lt (div_nonneg g.hi0 himax.le) hD
  unfold torque tmaxPos; rw [g.hc]
  have : ¬ qabs D ≤ i0 / imax := by rw [qabs_le]; intro h; linarith [h.2]
  simp only [this, if_false, hD, if_true]; ring

theorem torque_neg_closed (g : m.Good i0 imax) (w D : Q) (hD : D < -(i0 / imax)) :
    torque m w D = m.tmax * ((D * imax + i0) / (imax - i0)) * (1 - w / (D * m.w0)) := by
  have himax : 0 < imax := lt_of_le_of_lt g.hi0 g.lt
  have hp : 0 ≤ i0 / imax := div_nonneg g.hi0 himax.le
  unfold torque tmaxNeg; rw [g.hc]
  have h1 : ¬ qabs D ≤ i0 / imax := by rw [qabs_le]; intro h; linarith [h.1]
  have h2 : ¬ i0 / imax < D := by linarith
  simp only [h1, h2, if_false]; ring

theorem standstill_full (g : m.Good i0 imax) (h1 : i0 / imax < 1) : torque m 0 1 = m.tmax := by
  rw [torque_pos_closed g 0 1 h1]
  have : imax - i0 ≠ 0 := by linarith [g.lt]
  field_simp
  simp

theorem noload_full (g : m.Good i0 imax) (h1 : i0 / imax < 1) : torque m m.w0 1 = 0 := by
  rw [torque_pos_closed g m.w0 1 h1]
  have : m.w0 ≠ 0 := ne_of_gt g.w0
  field_simp; ring

/-- `i₀/i_max < 1` for every accepted motor, so `D = 1` is outside the dead zone -/
theorem pmin_lt_one (g : m.Good i0 imax) : i0 / imax < 1 := by
  have himax : 0 < imax := lt_of_le_of_lt g.hi0 g.lt
  rw [div_lt_one himax]; exact g.lt

/-- continuity of the torque at the dead-zone boundary as an explicit identity -/
theorem torque_boundary (g : m.Good i0 imax) (w D : Q) (hD : i0 / imax < D) :
    torque m w D = m.tmax * (D - i0 / imax) * imax / (imax - i0) * (1 - w / (D * m.w0)) := by
  have himax : 0 < imax := lt_of_le_of_lt g.hi0 g.lt
  rw [torque_pos_closed g w D hD]
  have : imax - i0 ≠ 0 := by linarith [g.lt]
  field_simp

theorem torque_odd (g : m.Good i0 imax) (w D : Q) : torque m (-w) (-D) = - torque m w D := by
  have himax : 0 < imax := lt_of_le_of_lt g.hi0 g.lt
  have hp : 0 ≤ i0 / imax := div_nonneg g.hi0 himax.le
  unfold torque tmaxPos tmaxNeg; rw [g.hc]; simp only
  by_cases h1 : qabs D ≤ i0 / imax
  · have : qabs (-D) ≤ i0 / imax := by rw [qabs_le] at *; constructor <;> linarith [h1.1, h1.2]
    simp [h1, this]
  · have h1' : ¬ qabs (-D) ≤ i0 / imax := by
      rw [qabs_le] at *; intro h; exact h1 ⟨by linarith [h.2], by linarith [h.1]⟩
    simp only [h1, h1', if_false]
    rw [qabs_le, not_and_or] at h1
    by_cases h2 : i0 / imax < D
    · have h3 : ¬ i0 / imax < -D := by linarith
      have hD0 : D ≠ 0 := by intro h; rw [h] at h2; linarith
      have hw : m.w0 ≠ 0 := ne_of_gt g.w0
      simp only [h2, h3, if_true, if_false]
      field_simp; ring
    · have h3 : i0 / imax < -D := by
        rcases h1 with h | h
        · linarith
        · exact absurd (lt_of_not_ge h) h2
      have hD0 : D ≠ 0 := by intro h; rw [h] at h3; linarith
      have hw : m.w0 ≠ 0 := ne_of_gt g.w0
      simp only [h2, h3, if_true, if_false]
      field_simp; ring

/-- outside the dead zone the reduced maximum torque is not zero (exact arithmetic) -/
theorem tmaxPos_ne_zero (g : m.Good i0 imax) (D : Q) (hD : i0 / imax < D) : tmaxPos m i0 imax D ≠ 0 := by
  have himax : 0 < imax := lt_of_le_of_lt g.hi0 g.lt
  have hd : 0 < D * imax - i0 := by
    have := (div_lt_iff₀ himax).mp hD; linarith
  have hden : 0 < imax - i0 := by linarith [g.lt]
  unfold tmaxPos
  have := g.tmax; positivity

theorem tmaxNeg_ne_zero (g : m.Good i0 imax) (D : Q) (hD : D < -(i0 / imax)) : tmaxNeg m i0 imax D ≠ 0 := by
  have himax : 0 < imax := lt_of_le_of_lt g.hi0 g.lt
  have hd : D * imax + i0 < 0 := by
    have : D * imax < -(i0 / imax) * imax := mul_lt_mul_of_pos_right hD himax
    have e : -(i0 / imax) * imax = -i0 := by field_simp
    linarith
  have hden : 0 < imax - i0 := by linarith [g.lt]
  unfold tmaxNeg
  have h1 : (D * imax + i0) / (imax - i0) < 0 := div_neg_of_neg_of_pos hd hden
  have := g.tmax
  exact ne_of_lt (mul_neg_of_pos_of_neg this h1)

/-- current law outside the dead zone, positive side, on the motor's own torque -/
theorem current_pos_closed (g : m.Good i0 imax) (w D : Q) (hD : i0 / imax < D) :
    current m D (torque m w D) = some ((D * imax - i0) * (1 - w / (D * m.w0)) + i0) := by
  have htm := tmaxPos_ne_zero g D hD
  rw [torque_pos_closed g w D hD]
  unfold current; rw [g.hc]
  have : ¬ qabs D ≤ i0 / imax := by rw [qabs_le]; intro h; linarith [h.2]
  simp only [this, if_false, hD, if_true, htm]
  congr 1
  unfold tmaxPos at htm ⊢
  have ht : m.tmax ≠ 0 := ne_of_gt g.tmax
  have hden : imax - i0 ≠ 0 := by linarith [g.lt]
  have hnum : D * imax - i0 ≠ 0 := by
    intro h; apply htm; rw [h]; simp
  field_simp

/-- current law outside the dead zone, negative side -/
theorem current_neg_closed (g : m.Good i0 imax) (w D : Q) (hD : D < -(i0 / imax)) :
    current m D (torque m w D) = some ((D * imax + i0) * (1 - w / (D * m.w0)) - i0) := by
  have himax : 0 < imax := lt_of_le_of_lt g.hi0 g.lt
  have hp : 0 ≤ i0 / imax := div_nonneg g.hi0 himax.le
  have htm := tmaxNeg_ne_zero g D hD
  rw [torque_neg_closed g w D hD]
  unfold current; rw [g.hc]
  have h1 : ¬ qabs D ≤ i0 / imax := by rw [qabs_le]; intro h; linarith [h.1]
  have h2 : ¬ i0 / imax < D := by linarith
  simp only [h1, h2, if_false, htm]
  congr 1
  unfold tmaxNeg at htm ⊢
  have ht : m.tmax ≠ 0 := ne_of_gt g.tmax
  have hden : imax - i0 ≠ 0 := by linarith [g.lt]
  have hnum : D * imax + i0 ≠ 0 := by
    intro h; apply htm; rw [h]; simp
  field_simp

theorem current_deadzone (g : m.Good i0 imax) (D T : Q) (hD : qabs D ≤ i0 / imax) :
    current m D T = some (D * imax) := by
  have himax : 0 < imax := lt_of_le_of_lt g.hi0 g.lt
  unfold current; rw [g.hc]; simp only [hD, if_true]
  by_cases h0 : i0 / imax = 0
  · simp only [h0, if_true]
    rw [h0, qabs_le] at hD
    have : D = 0 := le_antisymm hD.2 (by linarith [hD.1])
    simp [this]
  · simp only [h0, if_false]
    have hi0 : i0 ≠ 0 := by intro h; apply h0; simp [h]
    congr 1; field_simp

/-- at D = 1: standstill absorbs `i_max`, the no-load speed absorbs `i₀` -/
theorem standstill_current (g : m.Good i0 imax) : current m 1 (torque m 0 1) = some imax := by
  rw [current_pos_closed g 0 1 (pmin_lt_one g)]; congr 1; simp

theorem noload_current (g : m.Good i0 imax) : current m 1 (torque m m.w0 1) = some i0 := by
  rw [current_pos_closed g m.w0 1 (pmin_lt_one g)]
  have : m.w0 ≠ 0 := ne_of_gt g.w0
  congr 1; field_simp; ring

/-- continuity of the current at the boundary: explicit identity -/
theorem current_boundary (g : m.Good i0 imax) (w D c : Q) (hD : i0 / imax < D)
    (hc : current m D (torque m w D) = some c) : c - D * imax = -(D * imax - i0) * (w / (D * m.w0)) := by
  rw [current_pos_closed g w D hD] at hc
  simp only [Option.some.injEq] at hc
  rw [← hc]; ring

/-- reversing duty cycle and speed reverses the current exactly -/
theorem current_odd (g : m.Good i0 imax) (w D : Q) (hD : i0 / imax < D) (c c' : Q)
    (h1 : current m D (torque m w D) = some c) (h2 : current m (-D) (torque m (-w) (-D)) = some c') : c' = -c := by
  have himax : 0 < imax := lt_of_le_of_lt g.hi0 g.lt
  have hD0 : D ≠ 0 := by
    intro h; rw [h] at hD; have := div_nonneg g.hi0 himax.le; linarith
  have hw : m.w0 ≠ 0 := ne_of_gt g.w0
  rw [current_pos_closed g w D hD] at h1
  rw [current_neg_closed g (-w) (-D) (by linarith)] at h2
  simp only [Option.some.injEq] at h1 h2
  rw [← h1, ← h2]; field_simp; ring

/-- the current law is total: with current data it always yields a value -/
theorem current_total (g : m.Good i0 imax) (D T : Q) : ∃ c, current m D T = some c := by
  unfold current; rw [g.hc]; simp only
  split
  · split <;> exact ⟨_, rfl⟩
  · split
    · split <;> exact ⟨_, rfl⟩
    · split <;> exact ⟨_, rfl⟩

/-! ### non-vacuity -/
def exM : MotorP := ⟨100, 2, some (1/10, 2)⟩
theorem exM_good : exM.Good (1/10) 2 := ⟨rfl, by decide +kernel, by decide +kernel, by decide +kernel, by decide +kernel⟩
example : torque exM 0 1 = 2 := standstill_full exM_good (pmin_lt_one exM_good)
example : torque exM 30 (1/20) = 0 := torque_deadzone exM_good 30 (1/20) (by decide +kernel)

end Gearpy.C08
