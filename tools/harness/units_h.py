"""Correspondence + oracles for the quantity layer: C05 (conversion, comparison), C06 (arithmetic),
C19 (sign constraints, constructor validation)."""
import itertools
import json
import math
import operator
import random
import os
from fractions import Fraction as F

from common import R, parse_num, close, BUILD
from harness.si_spec import SI, DIM, BASE, SIGN, sign_ok

import gearpy.units as U

KINDS = ['AngularPosition', 'Angle', 'AngularSpeed', 'AngularAcceleration', 'InertiaMoment', 'Torque', 'Time',
         'TimeInterval', 'Length', 'Surface', 'Force', 'Stress', 'Current']
OPS = {'add': operator.add, 'sub': operator.sub, 'mul': operator.mul, 'div': operator.truediv}
CMPS = {'eq': operator.eq, 'ne': operator.ne, 'lt': operator.lt, 'le': operator.le, 'gt': operator.gt, 'ge': operator.ge}


def tables():
    return json.load(open(os.path.join(BUILD, 'tables.json')))


def units_of(k):
    return list(SI[k].keys())


def code_units(k):
    """unit names as the *code* lists them (index = the model's unit id)"""
    return tables()['kinds'][k]['units']


_CU = {}


def uidx(k, u):
    if k not in _CU:
        _CU[k] = code_units(k)
    return _CU[k].index(u)


def uname(k, i):
    if k not in _CU:
        _CU[k] = code_units(k)
    return _CU[k][i]


def base(k):
    return BASE.get(k, k)


def si(k, v, u):
    return F(v) * SI[k][u]


def desc(x):
    """driver token of an operand case `[kind, value, unit]` / `['num', value]`"""
    if x[0] == 'num':
        return f'num:{R(x[1])}'
    return f'{x[0]}:{R(x[1])}:{uidx(x[0], x[2])}'


def build(x):
    if x[0] == 'num':
        return x[1]
    if len(x) > 3 and x[3] is not None:
        # operand obtained by converting another representation *in place*: afterwards the object must
        # behave exactly like one constructed with (value, unit)
        q = getattr(U, x[0])(x[3][0], x[3][1])
        q.to(x[2], inplace=True)
    else:
        q = getattr(U, x[0])(x[1], x[2])
    if len(x) > 4 and x[4] is not None:
        # someone took a converted copy of the operand and re-labelled *their copy* in place: the operand itself,
        # and any later conversion of it, must be unaffected (a copying conversion returns an independent object)
        try:
            c = q.to(x[4][0])
            c.to(x[4][1], inplace=True)
        except Exception:  # noqa: BLE001
            pass
    return q


def with_alias(rng, x, p=0.15):
    if x[0] == 'num' or rng.random() > p or not sign_ok(x[0], x[1]):
        return x
    us = units_of(x[0])
    return list(x[:3]) + [x[3] if len(x) > 3 else None, [rng.choice(us), rng.choice(us)]]


def via_inplace(rng, x):
    """re-create operand `x` = [kind, value, unit] through an in-place conversion from another unit;
    the case keeps the value the object really holds afterwards"""
    if x[0] == 'num' or rng.random() > 0.25:
        return x
    k = x[0]
    u0 = rng.choice(units_of(k))
    if u0 == x[2]:
        return x
    v0 = float(F(x[1]) * SI[k][x[2]] / SI[k][u0])
    if not sign_ok(k, v0):
        return x
    try:
        q = getattr(U, k)(v0, u0)
        q.to(x[2], inplace=True)
    except Exception:  # noqa: BLE001
        return x
    if not sign_ok(k, q.value):
        return x
    return [k, q.value, x[2], [v0, u0]]


def gen_value(rng, kind=None, decades=6):
    """a finite magnitude; respects the kind's sign constraint most of the time"""
    r = rng.random()
    if r < 0.04:
        v = 0.0
    elif r < 0.10:
        v = float(rng.choice([1, -1, 2, -2, 3, 10]))
    elif r < 0.2:
        v = rng.choice([0.5, -0.5, 0.25, 1.5, -7.5, 3.25, 12.0])
    else:
        v = rng.choice([-1, 1]) * rng.uniform(1, 10) * 10.0 ** rng.randint(-decades, decades)
        if rng.random() < 0.3:
            v = float(round(v, 3)) if abs(v) > 1e-3 else v
    if kind in SIGN and rng.random() < 0.85:
        v = abs(v)
        if v == 0 and SIGN[kind] == 'pos':
            v = 1.0
    return v


def impl_outcome(fn):
    """canonical outcome of an implementation call"""
    try:
        r = fn()
    except Exception as ex:  # noqa: BLE001 - the class is the observable
        return ('err', type(ex).__name__)
    if isinstance(r, U.UnitBase):
        return ('ok', type(r).__name__, r.value, r.unit)
    if r is None:
        return ('none',)
    if isinstance(r, bool):
        return ('bool', r)
    return ('ok', 'num', r, None)


def model_outcome(line):
    w = line.split()
    if w[0] == 'err':
        return ('err', w[1])
    if w[0] == 'ok':
        parts = w[1].split(':')
        if parts[0] == 'num':
            return ('ok', 'num', parse_num(parts[1]), None)
        if len(parts) == 3:
            return ('ok', parts[0], parse_num(parts[1]), uname(parts[0], int(parts[2])))
        return ('bool', parts[0] == '1')
    return ('bad', line)


def same_outcome(a, b, rel=1e-9):
    if a[0] != b[0]:
        return False
    if a[0] == 'err':
        return a[1] == b[1]
    if a[0] == 'bool':
        return a[1] == b[1]
    if a[0] == 'ok':
        if a[1] != b[1] or a[3] != b[3]:
            return False
        x, y = float(a[2]), float(b[2])
        if math.isinf(x) or math.isnan(x):
            return True  # overflow of the float result: outside the rational model
        return close(x, y, rel)
    return a == b


def cancellation(op, a, b, out, mo):
    """True when a sum/difference is so small against its operands that float rounding, not the
    code, decides its value or sign (outside what the rational model can compare)"""
    if op not in ('add', 'sub') or a[0] == 'num' or b[0] == 'num' or base(a[0]) != base(b[0]):
        return False
    sa, sb = si(*a[:3]), si(*b[:3])
    scale = max(abs(sa), abs(sb))
    vals = []
    for o in (out, mo):
        if o[0] == 'ok' and o[1] != 'num':
            vals.append(abs(si(o[1], o[2], o[3])))
    exact = abs(sa + sb) if op == 'add' else abs(sa - sb)
    near = exact <= F(1, 10 ** 9) * scale
    if len(vals) == 2:
        return abs(vals[0] - vals[1]) <= F(1, 10 ** 9) * scale
    return near


# --------------------------------------------------------------------------------------------
# C06
# --------------------------------------------------------------------------------------------

def spec_kind(op, ka, kb):
    """result kind dictated by dimensional analysis (None = no result allowed)"""
    if op in ('add', 'sub'):
        if ka == 'num' or kb == 'num':
            return None
        if ka == kb:
            return ka
        if base(ka) == base(kb):
            return base(ka)
        return None
    da, db = DIM[ka], DIM[kb]
    d = tuple(x + y for x, y in zip(da, db)) if op == 'mul' else tuple(x - y for x, y in zip(da, db))
    if op == 'mul':
        if kb == 'num':
            return ka
        if ka == 'num':
            return kb
    if op == 'div':
        if kb == 'num':
            return ka
        if ka == 'num':
            return None
        if base(ka) == base(kb):
            return 'num'
    cands = [k for k in KINDS if DIM[k] == d and k not in BASE]
    # only the products/quotients the statement lists
    allowed = {('mul', 'AngularSpeed', 'Time'): 'AngularPosition', ('mul', 'Time', 'AngularSpeed'): 'AngularPosition',
               ('mul', 'AngularAcceleration', 'Time'): 'AngularSpeed', ('mul', 'Time', 'AngularAcceleration'): 'AngularSpeed',
               ('div', 'Torque', 'InertiaMoment'): 'AngularAcceleration', ('div', 'Torque', 'Length'): 'Force',
               ('div', 'Force', 'Surface'): 'Stress', ('mul', 'Length', 'Length'): 'Surface'}
    r = allowed.get((op, base(ka) if ka in BASE and op == 'mul' else ka, base(kb) if kb in BASE and op == 'mul' else kb))
    if r is not None:
        assert r in cands, (op, ka, kb, r, cands)
    return r


def si_of(x):
    return F(x[1]) if x[0] == 'num' else si(x[0], x[1], x[2])      # (a 4th entry, the in-place provenance, is ignored)


def exact_of(op, sa, sb):
    if op == 'add':
        return sa + sb
    if op == 'sub':
        return sa - sb
    if op == 'mul':
        return sa * sb
    return sa / sb if sb != 0 else None


def oracle_bin(ctx, case, out):
    """the property's own predicate on one binary operation; returns None / ('viol', msg) / ('known', id)"""
    op, a, b = case['op'], case['a'], case['b']
    ka, kb = a[0], b[0]
    want = spec_kind(op, ka, kb)
    if out[0] == 'err':
        cls = out[1]
        if cls == 'TypeError':
            return None
        if cls == 'ZeroDivisionError':
            return None if (op == 'div' and F(b[1]) == 0) else ('viol', 'ZeroDivisionError without a zero divisor')
        if cls == 'ValueError':
            # legitimate only if the mathematically right result (or an intermediate of the same
            # kind) violates a sign constraint, or a sign-constrained operand is scaled by a
            # non-positive number
            if want is None:
                return ('viol', 'ValueError on a dimensionally invalid cell (TypeError expected)')
            sa, sb = si_of(a), si_of(b)
            exact = exact_of(op, sa, sb)
            # (the left operand's kind matters only where an intermediate of that kind exists: sums, differences, scaling)
            kinds = ({want, ka} if (op in ('add', 'sub') or kb == 'num' or ka == 'num') else {want}) - {'num'}
            if exact is None or any(not sign_ok(k, exact) for k in kinds) or (kb == 'num' and ka in SIGN and F(b[1]) <= 0) \
                    or (ka == 'num' and kb in SIGN and F(a[1]) <= 0):
                return None
            return ('viol', f'ValueError although the result {float(exact)} is a valid {want}')
        return ('viol', f'unexpected exception {cls}')
    if out[0] == 'none':
        return ('viol', 'operation returned None')
    if out[0] != 'ok':
        return ('viol', f'unexpected outcome {out}')
    kind, val, unit = out[1], out[2], out[3]
    if want is None:
        return ('viol', f'returned a {kind} for a dimensionally invalid cell')
    if kind != want:
        return ('viol', f'returned kind {kind}, dimensional analysis dictates {want}')
    if isinstance(val, float) and (math.isinf(val) or math.isnan(val)):
        return None
    got = F(val) if kind == 'num' else si(kind, val, unit)
    sa, sb = si_of(a), si_of(b)
    exact = exact_of(op, sa, sb)
    if exact is None:
        return ('viol', 'division by a zero quantity returned a value')
    scale = max(abs(sa), abs(sb)) if op in ('add', 'sub') else abs(exact)
    if abs(got - exact) <= F(1, 10 ** 9) * scale or abs(got - exact) < F(1, 10 ** 300):
        return None
    # K2: Angle − AngularPosition and TimeInterval − Time add
    if op == 'sub' and ka in BASE and kb == BASE[ka] and abs(got - (sa + sb)) <= F(1, 10 ** 9) * scale:
        return ('known', 'K2')
    return ('viol', f'SI magnitude {float(got)} but operands give {float(exact)}')


def gen_bin_cases(ctx, per_cell):
    rng = ctx.rng
    cases = []
    ks = KINDS + ['num']
    for ka, kb in itertools.product(ks, ks):
        if ka == 'num' and kb == 'num':
            continue
        for op in OPS:
            try:
                valid = spec_kind(op, ka, kb) is not None
            except Exception:  # noqa: BLE001
                valid = False
            # cells where dimensional analysis defines a result get more unit / magnitude samples than those that must raise
            for _ in range(per_cell * 6 if valid else per_cell):
                def operand(k):
                    if k == 'num':
                        return ['num', gen_value(rng)]
                    x = [k, gen_value(rng, k), rng.choice(units_of(k))]
                    return with_alias(rng, via_inplace(rng, x)) if sign_ok(k, x[1]) else x
                cases.append({'t': 'bin', 'op': op, 'a': operand(ka), 'b': operand(kb)})
            if valid and op == 'div' and ka != 'num' and kb != 'num':
                # quotients of very different magnitudes (1 ms over 1000 hours): a ratio far below 1e-9 is still the ratio
                for _ in range(max(2, per_cell)):
                    ua = min(units_of(ka), key=lambda x: SI[ka][x])
                    ub = max(units_of(kb), key=lambda x: SI[kb][x])
                    va = rng.uniform(1, 10) * 10.0 ** rng.randint(-6, 0)
                    vb = rng.uniform(1, 10) * 10.0 ** rng.randint(0, 6)
                    cases.append({'t': 'bin', 'op': op, 'a': [ka, va, ua], 'b': [kb, vb, ub]})
                    cases.append({'t': 'bin', 'op': op, 'a': [ka, vb, max(units_of(ka), key=lambda x: SI[ka][x])],
                                  'b': [kb, va, min(units_of(kb), key=lambda x: SI[kb][x])]})
            if valid and op in ('add', 'sub') and ka != 'num' and kb != 'num':
                # exactly equal operands (x - x, and the same magnitude written in two units where that is exact)
                for _ in range(per_cell):
                    v = rng.choice([0.0, 1.0, 2.0, 0.5, 720.0, gen_value(rng, ka)])
                    if not (sign_ok(ka, v) and sign_ok(kb, v)):
                        continue
                    u = rng.choice([x for x in units_of(ka) if x in units_of(kb)])
                    cases.append({'t': 'bin', 'op': op, 'a': [ka, v, u], 'b': [kb, v, u]})
                if base(ka) == 'AngularPosition':
                    cases.append({'t': 'bin', 'op': op, 'a': [ka, 2.0, 'rot'], 'b': [kb, 720.0, 'deg']})
                    cases.append({'t': 'bin', 'op': op, 'a': [ka, 90.0, 'deg'], 'b': [kb, 5400.0, 'arcmin']})
            if 'num' in (ka, kb) and op in ('add', 'sub'):
                # a number of exactly zero is still a number: `0 + q`, `q - 0.0` must raise like any other number
                for z in (0, 0.0, -0.0):
                    x = operand(ka if ka != 'num' else kb)
                    if valid_operand(x):
                        cases.append({'t': 'bin', 'op': op, 'a': ['num', z] if ka == 'num' else x, 'b': ['num', z] if kb == 'num' else x})
    return cases


def valid_operand(x):
    if x[0] == 'num':
        return True
    return sign_ok(x[0], x[1])


def eval_bin(ctx, cases):
    """implementation, model, oracle on binary-operation cases"""
    lines, impl = [], []
    keep = []
    for c in cases:
        if not (valid_operand(c['a']) and valid_operand(c['b'])):
            ctx.count('skipped: operand violates its own constraint')
            continue
        a, b = build(c['a']), build(c['b'])
        snap = tuple((x.value, x.unit) if hasattr(x, 'unit') else x for x in (a, b))
        impl.append(impl_outcome(lambda: OPS[c['op']](a, b)))
        c['_pure'] = snap == tuple((x.value, x.unit) if hasattr(x, 'unit') else x for x in (a, b))
        lines.append(f"u bin {c['op']} {desc(c['a'])} {desc(c['b'])}")
        keep.append(c)
    model = ctx.driver.ask(lines) if ctx.driver.available else [None] * len(lines)
    for c, out, ml in zip(keep, impl, model):
        ctx.count(f"op {c['op']}")
        ctx.count('outcome ' + (out[1] if out[0] == 'err' else 'returned'))
        ctx.case_done(c, nontrivial=out[0] == 'ok')
        if not c.pop('_pure', True):
            ctx.violation(c, {'impl': out, 'why': 'a binary operation modified one of its operands'})
            continue
        verdict = oracle_bin(ctx, c, out)
        if verdict and verdict[0] == 'known':
            ctx.known_finding(verdict[1], c)
        elif verdict:
            ctx.violation(c, {'impl': out, 'why': verdict[1]})
        if ml is not None:
            mo = model_outcome(ml)
            if not same_outcome(out, mo):
                if cancellation(c['op'], c['a'], c['b'], out, mo):
                    ctx.count('sum/difference within rounding of its operands (compared relative to the operands)')
                else:
                    ctx.mismatch(c, out, ml)


def eval_laws(ctx, n):
    """(a + b) − b = a and a − b = −(b − a) whenever both sides are defined"""
    rng = ctx.rng
    for _ in range(n):
        k = rng.choice(KINDS)
        k2 = rng.choice([k, k, base(k)] + [x for x in KINDS if base(x) == base(k)])
        a = [k, gen_value(rng, k, 4), rng.choice(units_of(k))]
        b = [k2, gen_value(rng, k2, 4), rng.choice(units_of(k2))]
        if not (valid_operand(a) and valid_operand(b)):
            continue
        a, b = via_inplace(rng, a), via_inplace(rng, b)
        qa, qb = build(a), build(b)
        case = {'t': 'law', 'a': a, 'b': b}
        try:
            s = qa + qb
            r = s - qb
            defined = True
        except Exception:  # noqa: BLE001
            defined = False
        ctx.case_done(case, nontrivial=defined)
        if defined:
            ga, gr = si(*a[:3]), si(type(r).__name__, r.value, r.unit)
            scale = max(abs(ga), abs(si(*b[:3])))
            if abs(ga - gr) > F(1, 10 ** 9) * scale:
                if type(s).__name__ in BASE and b[0] == BASE[type(s).__name__]:
                    ctx.known_finding('K2', case)
                elif a[0] in BASE and b[0] == BASE[a[0]]:
                    # (Angle + AngularPosition) is an AngularPosition; its difference is fine; unreachable
                    ctx.violation(case, {'why': '(a+b)-b != a', 'got': float(gr), 'want': float(ga)})
                else:
                    ctx.violation(case, {'why': '(a+b)-b != a', 'got': float(gr), 'want': float(ga)})
        try:
            d1 = qa - qb
            d2 = -(qb - qa)
        except Exception:  # noqa: BLE001
            continue
        ctx.count('antisymmetry defined')
        g1, g2 = si(type(d1).__name__, d1.value, d1.unit), si(type(d2).__name__, d2.value, d2.unit)
        scale = max(abs(si(*a[:3])), abs(si(*b[:3])))
        if abs(g1 - g2) > F(1, 10 ** 9) * scale:
            if (a[0] in BASE and b[0] == BASE[a[0]]) or (b[0] in BASE and a[0] == BASE[b[0]]):
                ctx.known_finding('K2', case)
            else:
                ctx.violation(case, {'why': 'a-b != -(b-a)', 'lhs': float(g1), 'rhs': float(g2)})


def run_C06(ctx):
    per_cell = ctx.budget(2, 40) * ctx.boost
    eval_bin(ctx, gen_bin_cases(ctx, per_cell))
    if ctx.tier == 'thorough':
        # every unit choice of both operands for every cell (exhaustive over units)
        cases = []
        for ka, kb in itertools.product(KINDS, KINDS):
            for op in OPS:
                if spec_kind(op, ka, kb) is None and ctx.rng.random() < 0.9:
                    continue
                for ua, ub in itertools.product(units_of(ka), units_of(kb)):
                    cases.append({'t': 'bin', 'op': op, 'a': [ka, gen_value(ctx.rng, ka, 3), ua],
                                  'b': [kb, gen_value(ctx.rng, kb, 3), ub]})
        eval_bin(ctx, cases)
    # operands whose magnitudes are Python ints (legal everywhere a float is), over the ordered unit pairs of each kind
    # — sum, difference and same-kind ratio; a generator of its own
    irng = random.Random(f'C06-int-{ctx.seed}')
    cases = []
    for k in KINDS:
        for ua, ub in itertools.product(units_of(k), repeat=2):
            for op in ('add', 'sub', 'div'):
                va, vb = irng.choice([1, 2, 3, 5, 12, 100, 3000]), irng.choice([1, 2, 3, 5, 7, 1000])
                cases.append({'t': 'bin', 'op': op, 'a': [k, va, ua], 'b': [k, vb, ub]})
    eval_bin(ctx, cases)
    eval_laws(ctx, ctx.budget(400, 20000) * ctx.boost)
    ctx.rule = ('every ordered pair of the 13 kinds plus numbers x {+,-,*,/} x random units and magnitudes '
                '(thorough: every unit pair of every dimensionally valid cell), plus Python-int magnitudes over the ordered unit pairs of each kind; non-trivial = the operation returned a value')


def replay_C06(ctx, case):
    if case.get('t') == 'bin':
        eval_bin(ctx, [case])
    else:
        ctx.note('law cases are replayed by re-running the campaign with the same seed')


# --------------------------------------------------------------------------------------------
# C05
# --------------------------------------------------------------------------------------------

def _tol():
    t = tables()['tol']
    return t[0] / t[1]


TOL = 1e-12      # replaced by the value extracted from the code on first use (`abs_rule`)
SWAP = {'eq': 'eq', 'ne': 'ne', 'lt': 'gt', 'gt': 'lt', 'le': 'ge', 'ge': 'le'}


def abs_rule(c, x, y, same_unit):
    """what the code's documented rule (absolute tolerance in the left operand's unit) yields"""
    if same_unit:
        return CMPS[c](x, y)
    global TOL
    TOL = _tol()
    d = x - y
    return {'eq': abs(d) < TOL, 'ne': abs(d) > TOL, 'lt': d < -TOL, 'le': d <= TOL, 'gt': d > TOL, 'ge': d >= -TOL}[c]


def eval_conv(ctx, cases):
    lines, impl, keep = [], [], []
    for c in cases:
        k, v, u, u2 = c['k'], c['v'], c['u'], c['u2']
        if not sign_ok(k, v):
            continue
        q = build([k, v, u])
        copy = impl_outcome(lambda: q.to(u2))
        q2 = build([k, v, u])
        inpl = impl_outcome(lambda: q2.to(u2, inplace=True))
        untouched = (q.value == v and q.unit == u)
        back = impl_outcome(lambda: q.to(u2).to(u))
        # the converted-in-place object must behave like the copy in later arithmetic and comparisons
        after_use = None
        if inpl[0] == 'ok' and copy[0] == 'ok':
            cp = q.to(u2)
            try:
                r1, r2 = q2 + q2, cp + cp
                r3, r4 = q2 * 2, cp * 2
                r5, r6 = q2 / 3, cp / 3
                same = all(type(a) is type(b) and a.value == b.value and a.unit == b.unit for a, b in ((r1, r2), (r3, r4), (r5, r6)))
                same = same and (q2 == cp) and not (q2 != cp) and (q2 <= cp) and (q2 >= cp) and (abs(q2).value == abs(cp).value)
                if v != 0:
                    same = same and (q2 / cp == 1.0)
                after_use = same
            except Exception as ex:  # noqa: BLE001
                after_use = type(ex).__name__
        # a copying conversion returns an independent object: re-labelling the copy in place changes neither the
        # original nor what a later conversion of the original returns
        independent = True
        if copy[0] == 'ok':
            try:
                c1 = q.to(u2)
                c1.to(u, inplace=True)
                c2 = q.to(u2)
                independent = (q.value == v and q.unit == u and c2.value == copy[2] and c2.unit == u2 and c2 is not c1)
            except Exception as ex:  # noqa: BLE001
                independent = type(ex).__name__ == 'ValueError'
        impl.append((copy, inpl, untouched and independent, back, (q2.value, q2.unit), after_use))
        lines.append(f'u to {desc([k, v, u])} {uidx(k, u2)}')
        lines.append(f'u toi {desc([k, v, u])} {uidx(k, u2)}')
        keep.append(c)
    model = ctx.driver.ask(lines) if ctx.driver.available else [None] * len(lines)
    for i, (c, (copy, inpl, untouched, back, after, after_use)) in enumerate(zip(keep, impl)):
        k, v, u, u2 = c['k'], c['v'], c['u'], c['u2']
        ctx.case_done(c, nontrivial=u != u2)
        ctx.count(f'kind {k}')
        exact = si(k, v, u) / SI[k][u2]
        underflow = v != 0 and abs(exact) < F(1, 10 ** 300)
        if underflow:
            ctx.count('underflow range (outside the rational model)')
        if copy[0] == 'ok':
            if copy[1] != k or copy[3] != u2:
                ctx.violation(c, {'why': 'conversion changed kind or produced the wrong unit', 'impl': copy})
            elif not underflow and abs(F(copy[2]) - exact) > F(1, 10 ** 12) * abs(exact):
                ctx.violation(c, {'why': 'converted value is not value * SI(u)/SI(u2)', 'impl': copy, 'want': float(exact)})
            if inpl[0] != 'ok' or (inpl[2], inpl[3]) != (copy[2], copy[3]) or after != (copy[2], copy[3]):
                ctx.violation(c, {'why': 'in-place conversion differs from the copying one', 'copy': copy, 'inplace': inpl, 'after': after})
            if not untouched:
                ctx.violation(c, {'why': 'copying conversion modified the original, or its result is not an independent object'})
            if after_use is not True and after_use is not None and not (isinstance(after_use, str) and after_use == 'ValueError'):
                ctx.violation(c, {'why': 'an object converted in place does not behave like the converted copy in later arithmetic / comparisons', 'detail': after_use})
            if back[0] != 'ok' or (not underflow and not close(float(back[2]), float(v), 1e-12)) or back[3] != u:
                ctx.violation(c, {'why': 'round trip does not return the original value', 'back': back})
        elif copy[0] == 'err' and copy[1] == 'ValueError' and underflow:
            ctx.count('ValueError on underflow to zero')
        else:
            ctx.violation(c, {'why': 'conversion of a valid quantity failed', 'impl': copy})
        if model[2 * i] is not None and not underflow:
            mo = model_outcome(model[2 * i])
            if not same_outcome(copy, mo, 1e-12):
                ctx.mismatch(c, copy, model[2 * i])
            mi = model_outcome(model[2 * i + 1])
            if inpl[0] == 'ok' and not same_outcome(inpl, mi, 1e-12):
                ctx.mismatch(c, inpl, model[2 * i + 1])


def eval_cmp(ctx, cases):
    lines, impl, keep = [], [], []
    for c in cases:
        a, b = c['a'], c['b']
        if not (valid_operand(a) and valid_operand(b)):
            continue
        qa, qb = build(a), build(b)
        snap = (qa.value, qa.unit, qb.value, qb.unit)
        first = impl_outcome(lambda: CMPS[c['c']](qa, qb))
        # a comparison is a pure query: the operands are left as they were and asking again gives the same answer
        again = impl_outcome(lambda: CMPS[c['c']](qa, qb))
        c['_pure'] = (snap == (qa.value, qa.unit, qb.value, qb.unit)) and again == first
        impl.append(first)
        lines.append(f"u cmp {c['c']} {desc(a)} {desc(b)}")
        keep.append(c)
    model = ctx.driver.ask(lines) if ctx.driver.available else [None] * len(lines)
    for c, out, ml in zip(keep, impl, model):
        a, b, op = c['a'], c['b'], c['c']
        ctx.case_done(c, nontrivial=a[2] != b[2])
        sa, sb = si(*a[:3]), si(*b[:3])
        scale = max(abs(sa), abs(sb))
        gap = abs(sa - sb)
        if not c.pop('_pure', True):
            ctx.violation(c, {'why': 'a comparison modified one of its operands, or answered differently when repeated on the same objects'})
            continue
        if out[0] != 'bool':
            ctx.violation(c, {'why': 'comparison of same-family quantities did not return a boolean', 'impl': out})
            continue
        # the property: operands differing by more than rounding are ordered as their magnitudes;
        # operands equal up to rounding compare equal
        if gap > F(1, 10 ** 12) * scale:
            # (conversions round at ~1e-16 relative: a relative gap above 1e-12 is far beyond rounding)
            want = CMPS[op](sa, sb)
            regime = 'distinct'
        elif gap <= F(4, 10 ** 16) * scale:
            want = op in ('eq', 'le', 'ge')
            regime = 'same'
        else:
            regime = 'near'      # within rounding distance of the threshold: excluded
            want = None
        ctx.count(f'cmp regime {regime}')
        if want is not None and out[1] != want:
            # K1: the code uses an absolute tolerance of 1e-12 in the left operand's unit
            # CPython runs the *right* operand's reflected method when its class is a proper subclass of the left's
            la, lb, lop = (b, a, SWAP[op]) if (b[0] in BASE and a[0] not in BASE) else (a, b, op)
            x = float(la[1])
            fb, fa = _fac(lb[0], lb[2]), _fac(la[0], la[2])
            # the converted operand exactly as the code computes it (value * f_from / f_to in doubles)
            y = float(lb[1]) * (fb[0] / fb[1]) / (fa[0] / fa[1])
            if a[2] != b[2] and abs_rule(lop, x, y, False) == out[1]:
                ctx.known_finding('K1', c)
            elif a[2] != b[2] and abs(abs(x - y) - TOL) < 1e-15:
                ctx.count('cmp within an ulp of the absolute tolerance')
            else:
                ctx.violation(c, {'why': f'comparison {op} returned {out[1]}, SI magnitudes {float(sa)} vs {float(sb)}', 'impl': out})
        if ml is not None:
            mo = model_outcome(ml)
            if mo != out:
                # float rounding of the converted operand can flip an exact-arithmetic decision on the tolerance boundary
                # (in the unit of the operand whose method runs: CPython dispatches to the right operand's reflected method
                # when its class is a proper subclass of the left's — `Time == TimeInterval` compares in the interval's unit)
                ra, rb = (b, a) if (b[0] in BASE and a[0] not in BASE) else (a, b)
                x = F(ra[1]); y = F(rb[1]) * F(*_fac(rb[0], rb[2])) / F(*_fac(ra[0], ra[2]))
                d = abs(x - y)
                if a[2] != b[2] and abs(d - F(TOL)) <= F(1, 10 ** 13) * max(abs(x), abs(y), F(TOL)):
                    ctx.count('cmp model/impl differ on the tolerance boundary (rounding)')
                elif a[2] != b[2] and d <= F(4, 10 ** 16) * max(abs(x), abs(y)) and d < F(TOL) * 2:
                    ctx.count('cmp model/impl differ within rounding of equality')
                else:
                    ctx.mismatch(c, out, ml)


_FAC = {}


def _fac(k, u):
    if not _FAC:
        t = tables()
        for kk, d in t['kinds'].items():
            for un, f in zip(d['units'], d['factors']):
                _FAC[(kk, un)] = tuple(f)
    return _FAC[(k, u)]


def run_C05(ctx):
    rng = ctx.rng
    per_pair = ctx.budget(3, 60) * ctx.boost
    conv, cmps = [], []
    for k in KINDS:
        for u, u2 in itertools.product(units_of(k), repeat=2):
            for _ in range(per_pair):
                v = gen_value(rng, k, 15 if rng.random() < 0.5 else 4)
                conv.append({'t': 'conv', 'k': k, 'v': v, 'u': u, 'u2': u2})
            # comparisons: three regimes (moderate magnitudes so that absolute ~ relative tolerance,
            # plus a K1 stream with small / large magnitudes)
            for _ in range(per_pair):
                k2 = rng.choice([x for x in KINDS if base(x) == base(k)])
                big = rng.random() < 0.25
                v = gen_value(rng, k, 12 if big else 1)
                if not sign_ok(k, v):
                    continue
                mode = rng.choice(['same', 'distinct', 'distinct'])
                if mode == 'same':
                    w = float(F(v) * SI[k][u] / SI[k2][u2])
                else:
                    w = float(F(v) * SI[k][u] / SI[k2][u2]) * rng.choice([1 + 1e-6, 1 - 1e-6, 2, 0.5, -1, 1.001, 1 + 3e-9, 1 - 3e-9, 1 + 1e-10, 1 - 1e-10, 1 + 2e-11, 1 - 2e-11])
                    if w == 0:
                        w = 1.0
                if not sign_ok(k2, w):
                    continue
                for op in CMPS:
                    cmps.append({'t': 'cmp', 'c': op, 'a': [k, v, u], 'b': [k2, w, u2]})
                    cmps.append({'t': 'cmp', 'c': op, 'a': [k2, w, u2], 'b': [k, v, u]})
    # magnitudes given as Python ints (legal everywhere a float is): one per ordered unit pair, from a generator of
    # its own so that the streams above stay what they were
    irng = random.Random(f'C05-int-{ctx.seed}')
    for k in KINDS:
        for u, u2 in itertools.product(units_of(k), repeat=2):
            v = irng.choice([1, 1, 2, 3, 5, 7, 12, 100, 1000, 3000, 86400]) * (1 if k in SIGN or irng.random() < 0.7 else -1)
            conv.append({'t': 'conv', 'k': k, 'v': v, 'u': u, 'u2': u2})
    eval_conv(ctx, conv)
    eval_cmp(ctx, cmps)
    ctx.rule = ('all 13 kinds x all ordered unit pairs (exhaustive) x sampled magnitudes over up to 30 decades: '
                'copy / in-place / round-trip conversion (float magnitudes, plus one Python-int magnitude per pair) and the six comparisons in both operand orders; '
                'non-trivial = the two units differ')


def replay_C05(ctx, case):
    if case.get('t') == 'conv':
        eval_conv(ctx, [case])
    elif case.get('t') == 'cmp':
        eval_cmp(ctx, [case])


# --------------------------------------------------------------------------------------------
# C19: straight-line programs over a store of quantities
# --------------------------------------------------------------------------------------------

def inspect_store(ctx, store, step_case):
    for q in store:
        k = type(q).__name__
        v = q.value
        if isinstance(v, float) and (math.isnan(v) or math.isinf(v)):
            continue
        if not sign_ok(k, v):
            return (k, v, q.unit)
    return None


def run_program(ctx, prog_seed, length):
    import random
    rng = random.Random(prog_seed)
    store = []
    descs = []          # parallel: model-side description [kind, value, unit]
    lines, expect = [], []
    steps = []
    for i in range(length):
        opn = rng.choice(['new', 'new', 'add', 'sub', 'mul', 'div', 'abs', 'neg', 'to', 'toi', 'muln', 'divn', 'rmul'])
        if opn == 'new' or len(store) < 2:
            k = rng.choice(KINDS)
            v = gen_value(rng, None, 5)
            u = rng.choice(units_of(k))
            step = {'op': 'new', 'k': k, 'v': v, 'u': u}
            out = impl_outcome(lambda: build([k, v, u]))
            line = f'u mk {k} {R(v)} {uidx(k, u)}'
            res = None
            if out[0] == 'ok':
                res = build([k, v, u])
        else:
            ia = rng.randrange(len(store))
            qa = store[ia]
            da = [type(qa).__name__, qa.value, qa.unit]
            if opn in ('add', 'sub', 'mul', 'div'):
                # prefer a compatible operand half of the time
                cands = [j for j, q in enumerate(store) if base(type(q).__name__) == base(da[0])]
                ib = rng.choice(cands) if cands and rng.random() < 0.6 else rng.randrange(len(store))
                qb = store[ib]
                db = [type(qb).__name__, qb.value, qb.unit]
                step = {'op': opn, 'a': da, 'b': db}
                out = impl_outcome(lambda: OPS[opn](qa, qb))
                line = f'u bin {opn} {desc(da)} {desc(db)}'
                res = None
                if out[0] == 'ok' and out[1] != 'num':
                    res = OPS[opn](qa, qb)
            elif opn in ('muln', 'divn', 'rmul'):
                x = gen_value(rng, None, 3)
                step = {'op': opn, 'a': da, 'x': x}
                if opn == 'muln':
                    fn = lambda: qa * x
                    line = f'u bin mul {desc(da)} num:{R(x)}'
                elif opn == 'rmul':
                    fn = lambda: x * qa
                    line = f'u bin mul num:{R(x)} {desc(da)}'
                else:
                    fn = lambda: qa / x
                    line = f'u bin div {desc(da)} num:{R(x)}'
                out = impl_outcome(fn)
                res = fn() if out[0] == 'ok' else None
            elif opn in ('abs', 'neg'):
                step = {'op': opn, 'a': da}
                fn = (lambda: abs(qa)) if opn == 'abs' else (lambda: -qa)
                out = impl_outcome(fn)
                line = f'u {opn} {desc(da)}'
                res = fn() if out[0] == 'ok' else None
            else:
                u2 = rng.choice(units_of(da[0]))
                step = {'op': opn, 'a': da, 'u2': u2}
                if opn == 'to':
                    out = impl_outcome(lambda: qa.to(u2))
                    line = f'u to {desc(da)} {uidx(da[0], u2)}'
                    res = qa.to(u2) if out[0] == 'ok' else None
                else:
                    out = impl_outcome(lambda: qa.to(u2, inplace=True))
                    line = f'u toi {desc(da)} {uidx(da[0], u2)}'
                    res = None   # mutated in place: already in the store
        steps.append(step)
        lines.append(line)
        expect.append(out)
        if res is not None and isinstance(res, U.UnitBase):
            store.append(res)
            if len(store) > 12:
                store.pop(rng.randrange(len(store)))
        bad = inspect_store(ctx, store, step)
        if bad is not None:
            return steps, lines, expect, (i, bad)
    return steps, lines, expect, None


def run_C19(ctx):
    nprog = ctx.budget(150, 6000) * ctx.boost
    length = 40
    all_lines, all_expect, owners = [], [], []
    for p in range(nprog):
        seed = f'{ctx.seed}-{ctx.pid}-{p}-{ctx.boost}'
        steps, lines, expect, bad = run_program(ctx, seed, length)
        case = {'t': 'prog', 'seed': seed, 'length': length}
        ctx.case_done(case, nontrivial=any(e[0] == 'ok' for e in expect))
        for s, e in zip(steps, expect):
            ctx.count(f"op {s['op']}")
            ctx.count('outcome ' + (e[1] if e[0] == 'err' else 'returned'))
            if e[0] == 'err' and e[1] not in ('ValueError', 'TypeError', 'ZeroDivisionError'):
                ctx.violation({**case, 'step': s}, {'why': f'unexpected exception {e[1]}'})
            if e[0] == 'none':
                ctx.violation({**case, 'step': s}, {'why': 'operation returned None'})
        if bad is not None:
            i, (k, v, u) = bad
            s = steps[i]
            # K4: in-place conversion underflows to zero in floating point
            if s['op'] == 'toi' and v == 0 and F(s['a'][1]) > 0:
                ctx.known_finding('K4', {**case, 'step': s})
            else:
                ctx.violation({**case, 'step_index': i, 'step': s}, {'why': f'live {k} with value {v} {u} violates its sign constraint'})
        all_lines += lines
        all_expect += expect
        owners += [(case, s) for s in steps]
    model = ctx.driver.ask(all_lines) if ctx.driver.available else []
    for (case, s), e, ml in zip(owners, all_expect, model):
        mo = model_outcome(ml)
        if not same_outcome(e, mo, 1e-9):
            vals = [abs(float(x)) for x in (s.get('a', [0, 0])[1], s.get('b', [0, 0])[1] if 'b' in s else 1) if x]
            if e[0] == 'ok' and isinstance(e[2], float) and (e[2] == 0.0 or abs(e[2]) < 1e-290 or abs(e[2]) > 1e290):
                ctx.count('float under/overflow (outside the rational model)')
                continue
            if s['op'] in ('add', 'sub') and 'b' in s and cancellation(s['op'], s['a'], s['b'], e, mo):
                ctx.count('sum/difference within rounding of its operands (compared relative to the operands)')
                continue
            ctx.mismatch({**case, 'step': s}, e, ml)
    tiny_stream(ctx)
    residue_stream(ctx)
    run_ctor_checks(ctx)
    ctx.rule = ('random straight-line programs of 40 steps over {construct,+,-,*,/,abs,neg,to,to-in-place,*number,/number} '
                'on a store of <= 12 live quantities; every live object inspected after every step; '
                'non-trivial = at least one step returned a quantity; plus constructor boundary cases')


def tiny_stream(ctx):
    """values near the bottom of the double range: conversions of sign-constrained quantities must
    yield a valid quantity or raise ValueError (the rational model cannot see underflow)"""
    for k in SIGN:
        for u, u2 in itertools.permutations(units_of(k), 2):
            for v in (1e-320, 5e-324, 1e-310, 3e-308):
                if not sign_ok(k, v):
                    continue
                for inplace in (False, True):
                    case = {'t': 'tiny', 'k': k, 'v': v, 'u': u, 'u2': u2, 'inplace': inplace}
                    check_tiny(ctx, case)


def residue_stream(ctx):
    """tiny negative values and rounding residues: `K(-1e-15, u)` must be rejected, and differences of
    quantities equal up to rounding (`a - a.to(u2)`) must be valid or raise ValueError"""
    rng = ctx.rng
    for k in SIGN:
        for u in units_of(k):
            for v in (-1e-15, -1e-13, -5e-324, -1e-300, -2.220446049250313e-16):
                case = {'t': 'tinyneg', 'k': k, 'v': v, 'u': u}
                out = impl_outcome(lambda: build([k, v, u]))
                ctx.case_done(case, nontrivial=True)
                if out != ('err', 'ValueError'):
                    ctx.violation(case, {'why': f'{k}({v!r}, {u!r}) was not rejected with ValueError', 'impl': out})
    for _ in range(ctx.budget(600, 20000)):
        k = rng.choice(list(SIGN))
        u, u2 = rng.choice(units_of(k)), rng.choice(units_of(k))
        v = abs(gen_value(rng, k, 6)) or 1.0
        case = {'t': 'residue', 'k': k, 'v': v, 'u': u, 'u2': u2}
        check_residue(ctx, case)


def check_residue(ctx, case):
    k, v, u, u2 = case['k'], case['v'], case['u'], case['u2']
    a = build([k, v, u])
    b = a.to(u2)
    ctx.case_done(case, nontrivial=u != u2)
    for fn, what in ((lambda: a - b, 'a - b'), (lambda: b - a, 'b - a'), (lambda: (a + b) - b - a if False else a - b.to(u), 'a - b.to(u)')):
        out = impl_outcome(fn)
        if out[0] == 'ok' and out[1] != 'num':
            if not sign_ok(out[1], out[2]):
                ctx.violation(case, {'why': f'{what} returned the invalid quantity {out[1]}({out[2]!r}, {out[3]!r})'})
                return
        elif out[0] == 'err' and out[1] != 'ValueError':
            ctx.violation(case, {'why': f'{what} raised {out[1]}'})
            return
        elif out[0] == 'none':
            ctx.violation(case, {'why': f'{what} returned None'})
            return


def check_tiny(ctx, case):
    k, v, u, u2, inplace = case['k'], case['v'], case['u'], case['u2'], case['inplace']
    q = build([k, v, u])
    out = impl_outcome(lambda: q.to(u2, inplace=inplace))
    ctx.case_done(case, nontrivial=True)
    ctx.count('tiny-value conversion')
    live = [q]
    if out[0] == 'ok':
        live.append(getattr(U, out[1])(1, out[3]) if False else None)
        if not sign_ok(out[1], out[2]):
            if inplace and out[2] == 0:
                ctx.known_finding('K4', case)
            else:
                ctx.violation(case, {'why': 'conversion returned an invalid quantity', 'impl': out})
            return
    elif out != ('err', 'ValueError'):
        ctx.violation(case, {'why': 'conversion neither returned a valid quantity nor raised ValueError', 'impl': out})
        return
    if not sign_ok(k, q.value):
        if inplace and q.value == 0:
            ctx.known_finding('K4', case)
        else:
            ctx.violation(case, {'why': f'object left with invalid value {q.value}', 'impl': out})


def replay_C19(ctx, case):
    if case.get('t') == 'tiny':
        return check_tiny(ctx, case)
    if case.get('t') == 'residue':
        return check_residue(ctx, case)
    if case.get('t') == 'tinyneg':
        out = impl_outcome(lambda: build([case['k'], case['v'], case['u']]))
        ctx.case_done(case)
        if out != ('err', 'ValueError'):
            ctx.violation(case, {'why': 'tiny negative value was not rejected with ValueError', 'impl': out})
        return
    if case.get('t') == 'prog':
        steps, lines, expect, bad = run_program(ctx, case['seed'], case['length'])
        ctx.case_done(case)
        if bad is not None:
            i, (k, v, u) = bad
            s = steps[i]
            if s['op'] == 'toi' and v == 0 and F(s['a'][1]) > 0:
                ctx.known_finding('K4', {**case, 'step': s})
            else:
                ctx.violation({**case, 'step_index': i, 'step': s}, {'why': f'live {k} with value {v} {u} violates its sign constraint'})
    elif case.get('t') == 'ctor':
        check_ctor_case(ctx, case)


# component constructors -----------------------------------------------------------------------

def check_ctor_case(ctx, case):
    from gearpy.mechanical_objects import DCMotor, SpurGear, HelicalGear, WormGear, WormWheel
    J = U.InertiaMoment(1, 'kgm^2')
    what = case['what']
    x = case['x']
    want_ok = case['ok']
    try:
        if what == 'no_load_speed':
            DCMotor(name='m', inertia_moment=J, no_load_speed=U.AngularSpeed(x, case['u']), maximum_torque=U.Torque(1, 'Nm'))
        elif what == 'maximum_torque':
            DCMotor(name='m', inertia_moment=J, no_load_speed=U.AngularSpeed(1, 'rad/s'), maximum_torque=U.Torque(x, case['u']))
        elif what == 'currents':
            DCMotor(name='m', inertia_moment=J, no_load_speed=U.AngularSpeed(1, 'rad/s'), maximum_torque=U.Torque(1, 'Nm'),
                    no_load_electric_current=U.Current(x[0], case['u'][0]), maximum_electric_current=U.Current(x[1], case['u'][1]))
        elif what == 'lone_current':
            DCMotor(name='m', inertia_moment=J, no_load_speed=U.AngularSpeed(1, 'rad/s'), maximum_torque=U.Torque(1, 'Nm'),
                    **{case['which']: U.Current(x, case['u'])})
        elif what == 'teeth':
            cls = case.get('cls', 'SpurGear')
            if cls == 'SpurGear':
                SpurGear(name='g', n_teeth=x, inertia_moment=J)
            elif cls == 'HelicalGear':
                HelicalGear(name='g', n_teeth=x, inertia_moment=J, helix_angle=U.Angle(20, 'deg'))
            else:
                WormWheel(name='g', n_teeth=x, inertia_moment=J, helix_angle=U.Angle(10, 'deg'), pressure_angle=U.Angle(20, 'deg'))
        elif what == 'modulus':
            SpurGear(name='g', n_teeth=20, inertia_moment=J, module=U.Length(1, 'mm'), face_width=U.Length(5, 'mm'),
                     elastic_modulus=U.Stress(x, case['u']))
        elif what == 'helix':
            HelicalGear(name='g', n_teeth=20, inertia_moment=J, helix_angle=U.Angle(x, case['u']))
        elif what == 'worm_helix':
            cls = WormGear if case['cls'] == 'WormGear' else WormWheel
            kw = dict(n_starts=1) if cls is WormGear else dict(n_teeth=20)
            pa = U.Angle(case['pa'], 'deg')
            if case.get('pau'):
                pa = pa.to(case['pau'])       # the tabulated pressure angle written in another unit
            cls(name='g', inertia_moment=J, helix_angle=U.Angle(x, case['u']), pressure_angle=pa, **kw)
        elif what == 'pwm':
            m = DCMotor(name='m', inertia_moment=J, no_load_speed=U.AngularSpeed(1, 'rad/s'), maximum_torque=U.Torque(1, 'Nm'))
            m.pwm = 0.25
            try:
                m.pwm = x
            except Exception:
                # a rejected duty cycle must not be stored
                if m.pwm != 0.25:
                    ctx.violation(case, {'why': f'the motor holds duty cycle {m.pwm} after the assignment of {x} was rejected'})
                raise
        got = ('ok',)
    except Exception as ex:  # noqa: BLE001
        got = ('err', type(ex).__name__)
    ctx.case_done(case, nontrivial=True)
    ctx.count(f'ctor {what}')
    if want_ok and got[0] != 'ok':
        ctx.violation(case, {'why': 'a physical parameter was rejected', 'impl': got})
    if not want_ok and got[0] != 'err':
        ctx.violation(case, {'why': 'a non-physical parameter was not rejected', 'impl': got})


def run_ctor_checks(ctx):
    rng = ctx.rng
    t = tables()
    worm = [(float(F(*a)), float(F(*b))) for a, b, _ in t['worm']]
    cases = []
    for _ in range(ctx.budget(6, 60)):
        for what, kind in (('no_load_speed', 'AngularSpeed'), ('maximum_torque', 'Torque')):
            u = rng.choice(units_of(kind))
            for x in (0.0, -rng.uniform(0.1, 50), rng.uniform(0.1, 500)):
                cases.append({'t': 'ctor', 'what': what, 'x': x, 'u': u, 'ok': x > 0})
        u = rng.choice(units_of('Stress'))
        for x in (0.0, -rng.uniform(1, 100), rng.uniform(1, 300)):
            cases.append({'t': 'ctor', 'what': 'modulus', 'x': x, 'u': u, 'ok': x > 0})
        # currents: i0 >= 0, imax > 0, i0 < imax (margin well above rounding)
        u0, u1 = rng.choice(units_of('Current')), rng.choice(units_of('Current'))
        imax_si = rng.uniform(0.5, 5)
        for f in (0.0, 0.3, 0.999, 1.0, 1.001, 2.0, -0.1):
            if f == 1.0 and u0 != u1:
                continue      # equal magnitudes in different units: the test i0 >= imax sits on its threshold
            i0_si = imax_si * f
            cases.append({'t': 'ctor', 'what': 'currents', 'x': [float(F(i0_si) / SI['Current'][u0]), float(F(imax_si) / SI['Current'][u1])],
                          'u': [u0, u1], 'ok': 0 <= f < 1})
        cases.append({'t': 'ctor', 'what': 'currents', 'x': [0.1, 0.0], 'u': [u0, u0], 'ok': False})
        # only one of the two currents given: each is still validated on its own (maximum > 0, no-load >= 0)
        for x in (0, 0.0, -0.0, -rng.uniform(0.01, 5), rng.uniform(0.01, 5)):
            cases.append({'t': 'ctor', 'what': 'lone_current', 'which': 'maximum_electric_current', 'x': x, 'u': u1, 'ok': x > 0})
        for x in (-rng.uniform(0.01, 5), rng.uniform(0.01, 5), 0.0):
            cases.append({'t': 'ctor', 'what': 'lone_current', 'which': 'no_load_electric_current', 'x': x, 'u': u0, 'ok': x >= 0})
        cases.append({'t': 'ctor', 'what': 'currents', 'x': [0.1, -1.0], 'u': [u0, u0], 'ok': False})
        # the tabulated minimum is read from the Lewis-factor table file itself, not from the package's constant
        from harness.gears_h import read_csv
        zmin = int(min(r[0] for r in read_csv('lewis_factor_table.csv')))
        for z in (zmin - 1, zmin, zmin + rng.randint(1, 200), rng.randint(-5, zmin - 1), rng.randint(0, zmin - 1)):
            cases.append({'t': 'ctor', 'what': 'teeth', 'cls': rng.choice(['SpurGear', 'HelicalGear', 'WormWheel']), 'x': z, 'ok': z >= zmin})
        u = rng.choice(units_of('Angle'))
        for deg in (0.0, rng.uniform(1, 89), 89.999, 90.0, 90.001, rng.uniform(91, 400)):
            cases.append({'t': 'ctor', 'what': 'helix', 'x': float(F(deg) * SI['Angle']['deg'] / SI['Angle'][u]), 'u': u, 'ok': deg < 90})
        for pa, mx in worm:
            for deg in (rng.uniform(0.5, mx - 0.01), mx - 0.001, mx + 0.001, mx + rng.uniform(0.1, 30)):
                cases.append({'t': 'ctor', 'what': 'worm_helix', 'cls': rng.choice(['WormGear', 'WormWheel']), 'pa': pa,
                              'x': float(F(deg) * SI['Angle']['deg'] / SI['Angle'][u]), 'u': u, 'ok': deg <= mx,
                              'pau': rng.choice([None, None] + [w for w in units_of('Angle') if w != 'deg'])})
        for x in (-1, 1, 0, -1.0000001, 1.0000001, rng.uniform(-1, 1), rng.uniform(1.001, 50), -rng.uniform(1.001, 50)):
            cases.append({'t': 'ctor', 'what': 'pwm', 'x': x, 'ok': -1 <= x <= 1})
    for c in cases:
        check_ctor_case(ctx, c)
