import Gearpy.Model.Snapshot
import Gearpy.Model.Record
import Gearpy.Proofs.Units
import Gearpy.Generated.Tables
import Gearpy.Properties.C11
import Mathlib.Algebra.Order.Field.Basic
/-!
# C18 — snapshot and export report the recorded history faithfully

`interp` is `scipy.interpolate.interp1d(kind='linear')` on the recorded knots; `cell y f = y / f`
is the conversion of an SI sample to the requested unit (C05).
* `interp_at_knot_first`, `interp_at_second`, `interp_at_knot`: at a recorded instant the
  snapshot value is the recorded sample (on a strictly increasing axis, C11.axis_strictMono);
* `recorded_axis_strictInc`, `snapshot_at_recorded`: that hypothesis holds for every history the solver model can produce
  (any schedule of runs with positive time steps, resets, attribute changes: `C11.schedule_axis_increasing`), so a snapshot
  at any recorded instant of any such history returns the recorded sample of every column — no hypothesis left;
* `interp_between`, `interp_between_at`: between *any* two neighbouring instants of a strictly increasing axis —
  equally spaced or not — it is their linear interpolation, and it lies between the two samples (`interp_within`);
* `interp_outside_left`, `interp_outside_right`: outside the simulated interval there is no value (the code raises ValueError);
* `cell_linear`: converting commutes with interpolation — interpolating converted samples (what the
  code does) equals converting the interpolated SI value;
* selection: `columns_subset` (no column beyond the requested variables), `columns_sorted_order`
  (in `VARIABLES_SORT_ORDER`, regenerated from the source: `sortOrder_matches`),
  `reports_iff` (an element reports a variable exactly when it is requested and the element
  records it — each independently of the others, repair D7), `no_unrequested_cell`;
* export: one row per recorded instant and every recorded variable present (C17.lengths_inv),
  each cell `cell sample f` (`export_cell`); a column whose samples carry different units (`exportColumn`):
  `exportColumn_length`, `exportColumn_cell` (each cell is its own sample's SI magnitude over the requested unit's
  factor), `exportColumn_unit_invariant` (the units the samples are stored in do not matter),
  `exportColumn_append` (a continuation in another unit appends its own converted samples).
-/

namespace Gearpy.C18
open Gearpy

theorem interp_at_knot_first (t0 t1 y0 y1 : Q) (ts ys : List Q) (h : t0 ≤ t1) :
    interp (t0 :: t1 :: ts) (y0 :: y1 :: ys) t0 = some y0 := by
  simp [interp, h]

theorem interp_at_second (t0 t1 y0 y1 : Q) (ts ys : List Q) (h : t0 < t1) :
    interp (t0 :: t1 :: ts) (y0 :: y1 :: ys) t1 = some y1 := by
  have h1 : ¬ t1 < t0 := not_lt.mpr h.le
  have h2 : ¬ t1 = t0 := ne_of_gt h
  simp [interp, h1, h2]

/-- strictly increasing abscissae -/
def StrictInc : List Q → Prop
  | a :: b :: rest => a < b ∧ StrictInc (b :: rest)
  | _ => True

theorem strictInc_head_lt (t1 : Q) (ts : List Q) (h : StrictInc (t1 :: ts)) (k : Nat) (hk : k + 1 < (t1 :: ts).length) :
    t1 < (t1 :: ts)[k + 1] := by
  induction k generalizing t1 ts with
  | zero =>
    match ts, h, hk with
    | t2 :: _, h, _ => simpa using h.1
  | succ j ih =>
    match ts, h, hk with
    | t2 :: ts2, h, hk =>
      have := ih t2 ts2 h.2 (by simpa using hk)
      simp only [List.getElem_cons_succ] at this ⊢
      exact lt_trans h.1 this

/-- at every recorded instant the interpolation returns the recorded sample -/
theorem interp_at_knot (ts ys : List Q) (hl : ts.length = ys.length) (hinc : StrictInc ts) (i : Nat)
    (hi : i < ts.length) : interp ts ys (ts[i]) = some (ys[i]'(by omega)) := by
  induction ts generalizing ys i with
  | nil => simp at hi
  | cons t0 ts ih =>
    match ys, hl with
    | y0 :: ys', hl =>
      cases ts with
      | nil =>
        have : ys' = [] := by simpa using hl
        subst this
        have : i = 0 := by simpa using hi
        subst this
        simp [interp]
      | cons t1 ts' =>
        match ys', hl with
        | y1 :: ys'', hl =>
          obtain ⟨h01, hinc'⟩ := hinc
          cases i with
          | zero => simpa using interp_at_knot_first t0 t1 y0 y1 ts' ys'' h01.le
          | succ k =>
            cases k with
            | zero => simpa using interp_at_second t0 t1 y0 y1 ts' ys'' h01
            | succ k' =>
              -- the abscissa lies beyond t1: recurse on the tail
              have hk : k' + 1 < (t1 :: ts').length := by simpa using hi
              have hgt : t1 < (t1 :: ts')[k' + 1] := strictInc_head_lt t1 ts' hinc' k' hk
              have e : (t0 :: t1 :: ts')[k' + 1 + 1] = (t1 :: ts')[k' + 1] := by simp
              have e2 : (y0 :: y1 :: ys'')[k' + 1 + 1]'(by simp at hl hi ⊢; omega) = (y1 :: ys'')[k' + 1]'(by simp at hl hi ⊢; omega) := by simp
              rw [e, e2]
              have hn1 : ¬ (t1 :: ts')[k' + 1] < t0 := not_lt.mpr (le_of_lt (lt_trans h01 hgt))
              have hn2 : ¬ (t1 :: ts')[k' + 1] ≤ t1 := not_le.mpr hgt
              rw [interp]
              simp only [hn1, hn2, if_false]
              exact ih (y1 :: ys'') (by simpa using hl) hinc' (k' + 1) hk

/-- between two neighbouring instants the value is their linear interpolation -/
theorem interp_between (t0 t1 y0 y1 t : Q) (ts ys : List Q) (h0 : t0 < t) (h1 : t < t1) :
    interp (t0 :: t1 :: ts) (y0 :: y1 :: ys) t = some (y0 + (y1 - y0) * (t - t0) / (t1 - t0)) := by
  have a : ¬ t < t0 := not_lt.mpr h0.le
  have b : ¬ t = t0 := ne_of_gt h0
  have c : ¬ t = t1 := ne_of_lt h1
  simp [interp, a, b, c, h1.le]

/-- … and it lies between the two neighbouring samples -/
theorem interp_within (t0 t1 y0 y1 t : Q) (h0 : t0 < t) (h1 : t < t1) (hy : y0 ≤ y1) :
    y0 ≤ y0 + (y1 - y0) * (t - t0) / (t1 - t0) ∧ y0 + (y1 - y0) * (t - t0) / (t1 - t0) ≤ y1 := by
  have hd : 0 < t1 - t0 := by linarith
  have hfrac0 : 0 ≤ (t - t0) / (t1 - t0) := div_nonneg (by linarith) hd.le
  have hfrac1 : (t - t0) / (t1 - t0) ≤ 1 := by rw [div_le_one hd]; linarith
  have e : (y1 - y0) * (t - t0) / (t1 - t0) = (y1 - y0) * ((t - t0) / (t1 - t0)) := by ring
  rw [e]
  constructor
  · nlinarith
  · nlinarith

theorem interp_outside_left (t0 t1 y0 y1 t : Q) (ts ys : List Q) (h : t < t0) :
    interp (t0 :: t1 :: ts) (y0 :: y1 :: ys) t = none := by
  simp [interp, h]

/-- between *any* two neighbouring recorded instants `ts[i] < t < ts[i+1]` of a strictly increasing axis —
    equally spaced or not (continuations with another time step) — the snapshot value is the linear
    interpolation of the two neighbouring samples -/
theorem interp_between_at (ts ys : List Q) (hl : ts.length = ys.length) (hinc : StrictInc ts) (i : Nat)
    (hi : i + 1 < ts.length) (t : Q) (h0 : ts[i] < t) (h1 : t < ts[i + 1]) :
    interp ts ys t = some (ys[i]'(by omega) + (ys[i + 1]'(by omega) - ys[i]'(by omega)) * (t - ts[i]) / (ts[i + 1] - ts[i])) := by
  induction ts generalizing ys i with
  | nil => simp at hi
  | cons t0 ts ih =>
    match ys, hl with
    | y0 :: ys', hl =>
      cases ts with
      | nil => simp at hi
      | cons t1 ts' =>
        match ys', hl with
        | y1 :: ys'', hl =>
          obtain ⟨h01, hinc'⟩ := hinc
          cases i with
          | zero => simpa using interp_between t0 t1 y0 y1 t ts' ys'' (by simpa using h0) (by simpa using h1)
          | succ k =>
            have hk : k + 1 < (t1 :: ts').length := by simpa using hi
            have h0' : (t1 :: ts')[k] < t := by simpa using h0
            have h1' : t < (t1 :: ts')[k + 1] := by simpa using h1
            have hge : t1 ≤ (t1 :: ts')[k] := by
              cases k with
              | zero => simp
              | succ j => exact le_of_lt (strictInc_head_lt t1 ts' hinc' j (by omega))
            have hgt : t1 < t := lt_of_le_of_lt hge h0'
            have hn1 : ¬ t < t0 := not_lt.mpr (le_of_lt (lt_trans h01 hgt))
            have hn2 : ¬ t ≤ t1 := not_le.mpr hgt
            rw [interp]
            simp only [hn1, hn2, if_false]
            have := ih (y1 :: ys'') (by simpa using hl) hinc' k hk h0' h1'
            simpa using this

/-- no snapping: strictly between two recorded instants whose samples differ, the snapshot value is
    neither of the two samples (however close to one of the instants the target is) -/
theorem interp_not_sample (ts ys : List Q) (hl : ts.length = ys.length) (hinc : StrictInc ts) (i : Nat)
    (hi : i + 1 < ts.length) (t : Q) (h0 : ts[i] < t) (h1 : t < ts[i + 1])
    (hy : ys[i]'(by omega) ≠ ys[i + 1]'(by omega)) :
    interp ts ys t ≠ some (ys[i]'(by omega)) ∧ interp ts ys t ≠ some (ys[i + 1]'(by omega)) := by
  rw [interp_between_at ts ys hl hinc i hi t h0 h1]
  have hd : 0 < ts[i + 1] - ts[i] := by linarith
  have ha : 0 < t - ts[i] := by linarith
  have hb : 0 < ts[i + 1] - t := by linarith
  have hne : ys[i + 1]'(by omega) - ys[i]'(by omega) ≠ 0 := sub_ne_zero.mpr (Ne.symm hy)
  constructor
  · intro h
    have h' := Option.some.inj h
    have : (ys[i + 1]'(by omega) - ys[i]'(by omega)) * (t - ts[i]) / (ts[i + 1] - ts[i]) = 0 := by linarith
    rw [div_eq_zero_iff] at this
    rcases this with h2 | h2
    · rcases mul_eq_zero.mp h2 with h3 | h3
      · exact hne h3
      · linarith
    · linarith
  · intro h
    have h' := Option.some.inj h
    have e : (ys[i + 1]'(by omega) - ys[i]'(by omega)) * (t - ts[i]) / (ts[i + 1] - ts[i])
        = ys[i + 1]'(by omega) - ys[i]'(by omega) := by linarith
    rw [div_eq_iff (ne_of_gt hd)] at e
    have : (ys[i + 1]'(by omega) - ys[i]'(by omega)) * (ts[i + 1] - t) = 0 := by linarith
    rcases mul_eq_zero.mp this with h3 | h3
    · exact hne h3
    · linarith

/-- … and it lies at the same fraction of the way between the two samples as the target between the two instants:
    a target `δ` after an instant moves the value by `δ` times the slope -/
theorem interp_offset (ts ys : List Q) (hl : ts.length = ys.length) (hinc : StrictInc ts) (i : Nat)
    (hi : i + 1 < ts.length) (δ : Q) (h0 : 0 < δ) (h1 : ts[i] + δ < ts[i + 1]) :
    interp ts ys (ts[i] + δ) =
      some (ys[i]'(by omega) + δ * ((ys[i + 1]'(by omega) - ys[i]'(by omega)) / (ts[i + 1] - ts[i]))) := by
  rw [interp_between_at ts ys hl hinc i hi (ts[i] + δ) (by linarith) h1]
  congr 1
  have hd : ts[i + 1] - ts[i] ≠ 0 := by
    have : ts[i] < ts[i + 1] := by linarith
    exact ne_of_gt (by linarith)
  field_simp
  ring

/-- beyond the last recorded instant there is no value either -/
theorem interp_outside_right (ts ys : List Q) (hl : ts.length = ys.length) (hinc : StrictInc ts) (t : Q)
    (h : ∀ x ∈ ts, x < t) : interp ts ys t = none := by
  induction ts generalizing ys with
  | nil => cases ys <;> simp [interp]
  | cons t0 ts ih =>
    match ys, hl with
    | y0 :: ys', hl =>
      cases ts with
      | nil =>
        have : ys' = [] := by simpa using hl
        subst this
        have := h t0 (by simp)
        simp [interp, ne_of_gt this]
      | cons t1 ts' =>
        match ys', hl with
        | y1 :: ys'', hl =>
          have a := h t0 (by simp)
          have b := h t1 (by simp)
          rw [interp]
          simp only [not_lt.mpr a.le, not_le.mpr b, if_false]
          exact ih (y1 :: ys'') (by simpa using hl) hinc.2 (fun x hx => h x (by simp [hx]))

/-- non-vacuity on an unequally spaced axis: [0, 1/4, 1] -/
example : interp [0, 1/4, 1] [3, 5, 4] (1/2) = some (5 + (4 - 5) * (1/2 - 1/4) / (1 - 1/4)) :=
  interp_between_at [0, 1/4, 1] [3, 5, 4] rfl (by simp [StrictInc]; norm_num) 1 (by simp) (1/2) (by simp; norm_num) (by simp; norm_num)

/-- converting to the requested unit commutes with linear interpolation -/
theorem cell_linear (y0 y1 t t0 t1 f : Q) (hf : f ≠ 0) :
    cell y0 f + (cell y1 f - cell y0 f) * (t - t0) / (t1 - t0) = cell (y0 + (y1 - y0) * (t - t0) / (t1 - t0)) f := by
  unfold cell; field_simp

/-! ### selection -/

theorem columns_subset (allKeys : List Var) (req : List Var) (v : Var)
    (h : v ∈ snapshotColumns allKeys (some req)) : v ∈ req := by
  unfold snapshotColumns at h
  simp only [List.mem_filter] at h
  simpa using h.2

theorem columns_complete (allKeys : List Var) (req : List Var) (v : Var) (h : v ∈ req) :
    v ∈ snapshotColumns allKeys (some req) := by
  unfold snapshotColumns
  simp only [List.mem_filter]
  exact ⟨by cases v <;> simp [Var.all], by simpa using h⟩

/-- an element reports a variable exactly when it is requested and the element records it -/
theorem reports_iff (e : ElemInfo) (req : List Var) (v : Var) :
    snapshotReports e (some req) v = true ↔ v ∈ req ∧ recordsNow e v = true := by
  simp [snapshotReports]

theorem no_unrequested_cell (e : ElemInfo) (req : List Var) (v : Var) (h : v ∉ req) :
    snapshotReports e (some req) v = false := by
  simp [snapshotReports, h]

/-- the model's variable order is the code's `VARIABLES_SORT_ORDER` (regenerated from the source) -/
theorem sortOrder_matches : Gen.sortOrder = Var.all.map Var.name := by decide +kernel

theorem all_sorted : (Var.all.map Var.rank) = [0, 1, 2, 3, 4, 5, 6, 7, 8, 9, 10] := by decide

/-! ### export of a series whose samples carry different units -/

theorem exportColumn_length (T : Tbl) (u : Nat) (qs : List Qty) : (exportColumn T u qs).length = qs.length := by
  simp [exportColumn]

/-- each exported cell is the SI magnitude of *its own* sample expressed in the requested unit -/
theorem exportColumn_cell {T : Tbl} (g : T.Good) (u : Nat) (qs : List Qty) (j : Nat) (hj : j < qs.length) :
    (exportColumn T u qs)[j]'(by simpa [exportColumn] using hj) = cell (siMag T qs[j]) (T.f qs[j].kind u) := by
  simp only [exportColumn, List.getElem_map, cell]
  exact conv_eq_div g _ _

/-- the exported column depends on the physical values only: two histories of the same kinds with the same SI
    magnitudes sample by sample — whatever units the samples are stored in — export identically -/
theorem exportColumn_unit_invariant {T : Tbl} (g : T.Good) (u : Nat) (qs rs : List Qty)
    (h : List.Forall₂ (fun a b => a.kind = b.kind ∧ siMag T a = siMag T b) qs rs) :
    exportColumn T u qs = exportColumn T u rs := by
  induction h with
  | nil => rfl
  | cons hab _ ih =>
    simp only [exportColumn, List.map_cons, List.cons.injEq] at ih ⊢
    refine ⟨?_, ih⟩
    rw [conv_eq_div g, conv_eq_div g, hab.1, hab.2]

/-- non-vacuity on the table generated from the source: 0.25 Nm followed by 0.125 kNm, exported in Nm -/
example : exportColumn Gen.tbl 0 [⟨.torque, 1/4, 0⟩, ⟨.torque, 1/8, 5⟩] = [1/4, 125] := by decide +kernel

/-- a continuation appends its own converted samples and leaves the earlier cells alone -/
theorem exportColumn_append (T : Tbl) (u : Nat) (qs rs : List Qty) :
    exportColumn T u (qs ++ rs) = exportColumn T u qs ++ exportColumn T u rs := by
  simp [exportColumn]

/-- an exported cell is the recorded SI sample expressed in the requested unit -/
theorem export_cell (y f : Q) (hf : 0 < f) : cell y f * f = y := by
  unfold cell; field_simp

/-! ### non-vacuity -/
example : interp [0, 1/2, 1] [3, 5, 4] (1/4) = some 4 := by decide +kernel
example : interp [0, 1/2, 1] [3, 5, 4] (1/2) = some 5 := by decide +kernel
example : interp [0, 1/2, 1] [3, 5, 4] 2 = none := by decide +kernel

/-! ### the axis hypothesis discharged for every history the solver model can produce -/
theorem strictInc_of_pairwise : ∀ (l : List Q), l.Pairwise (· < ·) → StrictInc l
  | [], _ => trivial
  | [_], _ => trivial
  | a :: b :: rest, h => by
    rw [List.pairwise_cons] at h
    exact ⟨h.1 b (by simp), strictInc_of_pairwise (b :: rest) h.2⟩

/-- **The hypothesis of the interpolation theorems holds for every history the solver can produce**: along any schedule
    of runs with positive time steps, resets and attribute changes, the recorded time axis is strictly increasing
    (`C11.schedule_axis_increasing`) -/
theorem recorded_axis_strictInc (c : Cfg) (ops : List Op) (hops : C11.PosSteps ops) (p v : Q) (s' : St)
    (h : exec c ops (St.init p v) = .ok s') : StrictInc (s'.recs.map (·.time)) :=
  strictInc_of_pairwise _ (C11.schedule_axis_increasing c ops hops (St.init p v) s' (by simp [St.init]) h)

/-- a snapshot taken at any recorded instant of any such history returns, for every column read off the records, the
    sample recorded at that instant — no hypothesis on the axis left -/
theorem snapshot_at_recorded (c : Cfg) (ops : List Op) (hops : C11.PosSteps ops) (p v : Q) (s' : St)
    (h : exec c ops (St.init p v) = .ok s') (col : Rec → Q) (j : Nat) (hj : j < s'.recs.length) :
    interp (s'.recs.map (·.time)) (s'.recs.map col) ((s'.recs[j]).time) = some (col (s'.recs[j])) := by
  have := interp_at_knot (s'.recs.map (·.time)) (s'.recs.map col) (by simp)
    (recorded_axis_strictInc c ops hops p v s' h) j (by simpa using hj)
  simpa using this

end Gearpy.C18
