-- root of the library: every model, proof and property module (built by `lake build Gearpy`)
import Gearpy.Model.Basic
import Gearpy.Model.Units
import Gearpy.Model.Motor
import Gearpy.Model.Solver
import Gearpy.Model.Control
import Gearpy.Model.Grid
import Gearpy.Model.Gears
import Gearpy.Model.Relations
import Gearpy.Model.Record
import Gearpy.Model.Snapshot
import Gearpy.Generated.Tables
import Gearpy.Proofs.Units
import Gearpy.Properties.C06
