import Gearpy.Model.Units
import Gearpy.Model.Gears
/-!
# Gearpy.Model.Relations — `add_gear_mating`, `add_worm_gear_mating`, `add_fixed_joint`
(`gearpy/utils/relations.py`) and `Powertrain.__init__` (`gearpy/powertrain.py`)

Python objects become entries of a heap (`List Elem`), object identity is the index.  A
declaration is *validation* (a pure function that either rejects or yields a list of attribute
writes) followed by the writes, each of which goes through its validating setter and may
itself raise, leaving the earlier writes in place (`writes`).  "A rejected call leaves both
elements unmodified" is therefore a proof obligation, not a consequence of purity.
-/

namespace Gearpy

inductive EK | motor | flywheel | spur | helical | wormGear | wormWheel
  deriving DecidableEq, Repr, Inhabited

structure Elem where
  kind : EK
  name : Nat
  /-- `n_teeth` / `n_starts` -/
  teeth : Nat := 0
  module : Option Qty := none
  helix : Option Qty := none
  pressure : Option Qty := none
  /-- cos(pressure angle), tan(helix angle): computed by the harness with the library's calls -/
  cosA : Q := 1
  tanB : Q := 0
  data : GearData := ⟨false, false, false⟩
  /-- worm gear: reference diameter given -/
  refDiam : Bool := false
  drives : Option Nat := none
  drivenBy : Option Nat := none
  role : Option Role := none
  ratio : Option Q := none
  eff : Q := 1
  selfLocking : Option Bool := none
  /-- worm wheel: `'bending stress'` currently among the advertised time variables -/
  bendingKey : Bool := false
  deriving DecidableEq, Repr, Inhabited

abbrev Heap := List Elem

def isGearBase (k : EK) : Bool := k == .spur || k == .helical || k == .wormWheel
def isWorm (k : EK) : Bool := k == .wormGear || k == .wormWheel
def hasHelix (k : EK) : Bool := k == .helical || k == .wormWheel

def upd (h : Heap) (i : Nat) (f : Elem → Elem) : Heap := h.modify i f

/-- a write through a validating setter -/
inductive W
  | drives (i j : Nat) | drivenBy (i j : Nat) | role (i : Nat) (r : Role)
  | ratio (i : Nat) (x : Q) | eff (i : Nat) (x : Q) | selfLocking (i : Nat) (b : Bool)
  | bendingKey (i : Nat) (b : Bool)
  deriving Repr

def write (h : Heap) : W → Except Err Heap
  | .drives i j => .ok (upd h i fun e => { e with drives := some j })
  | .drivenBy i j => .ok (upd h i fun e => { e with drivenBy := some j })
  | .role i r => .ok (upd h i fun e => { e with role := some r })
  | .ratio i x => if x ≤ 0 then .error .valueE else .ok (upd h i fun e => { e with ratio := some x })
  | .eff i x => if 1 < x ∨ x < 0 then .error .valueE else .ok (upd h i fun e => { e with eff := x })
  | .selfLocking i b => .ok (upd h i fun e => { e with selfLocking := some b })
  | .bendingKey i b => .ok (upd h i fun e => { e with bendingKey := b })

/-- run writes left to right; on the first failure keep what was already written -/
def writes : Heap → List W → Heap × Option Err
  | h, [] => (h, none)
  | h, w :: ws => match write h w with
    | .error e => (h, some e)
    | .ok h' => writes h' ws

def declare (h : Heap) (plan : Except Err (List W)) : Heap × Option Err :=
  match plan with
  | .error e => (h, some e)
  | .ok ws => writes h ws

/-- `a != b` on two optional quantities that are both present (`False` otherwise) -/
def qtyNe (T : Tbl) (a b : Qty) : Bool :=
  match cmp T .ne a (.q b) with
  | .ok r => r
  | .error _ => true

/-- `add_gear_mating`: validation -/
def gearPlan (T : Tbl) (h : Heap) (m s : Nat) (eta : Q) : Except Err (List W) :=
  match h[m]?, h[s]? with
  | some em, some es =>
    if !isGearBase em.kind then .error .typeE
    else if !isGearBase es.kind then .error .typeE
    else if m = s then .error .valueE
    else if 1 < eta ∨ eta < 0 then .error .valueE
    else if (match em.module, es.module with | some a, some b => qtyNe T a b | _, _ => false) then .error .valueE
    else if hasHelix em.kind != hasHelix es.kind then .error .valueE
    else if (match em.helix, es.helix with
              | some a, some b => hasHelix em.kind && hasHelix es.kind && qtyNe T a b | _, _ => false) then .error .valueE
    else .ok [.drives m s, .role m .master, .drivenBy s m, .role s .slave,
              .ratio s ((es.teeth : Q) / em.teeth), .eff s eta]
  | _, _ => .error .typeE

def addGearMating (T : Tbl) (h : Heap) (m s : Nat) (eta : Q) : Heap × Option Err :=
  declare h (gearPlan T h m s eta)

/-- worm mating efficiency -/
def wormEff (masterIsWorm : Bool) (c t f : Q) : Q :=
  if masterIsWorm then (c - f * t) / (c + f / t) else (c - f / t) / (c + f * t)

/-- `add_worm_gear_mating`: validation (everything is computed and checked before any write) -/
def wormPlan (T : Tbl) (h : Heap) (m s : Nat) (f : Q) : Except Err (List W) :=
  match h[m]?, h[s]? with
  | some em, some es =>
    if !(isWorm em.kind) then .error .typeE
    else if !(isWorm es.kind) then .error .typeE
    else if em.kind == es.kind then .error .typeE
    else if 1 < f ∨ f < 0 then .error .valueE
    else if (match em.pressure, es.pressure with | some a, some b => qtyNe T a b | _, _ => false) then .error .valueE
    else if em.tanB = 0 then .error .valueE
    else
      let mw := em.kind == .wormGear
      let ratio : Q := (es.teeth : Q) / em.teeth
      let eta := wormEff mw em.cosA em.tanB f
      if 1 < eta ∨ eta < 0 then .error .valueE
      else
        let worm := if mw then m else s
        let ew := if mw then em else es
        let wheel := if mw then s else m
        let ewh := if mw then es else em
        .ok [.drives m s, .role m .master, .drivenBy s m, .role s .slave,
             .ratio s ratio, .eff s eta, .selfLocking worm (decide (ew.cosA * ew.tanB < f)),
             .bendingKey wheel (wormWheelBendingComputable ewh.data (some ew.refDiam))]
  | _, _ => .error .typeE

def addWormGearMating (T : Tbl) (h : Heap) (m s : Nat) (f : Q) : Heap × Option Err :=
  declare h (wormPlan T h m s f)

/-- `add_fixed_joint`: validation -/
def jointPlan (h : Heap) (m s : Nat) : Except Err (List W) :=
  match h[m]?, h[s]? with
  | some _, some es =>
    if es.kind == .motor then .error .typeE
    else if m = s then .error .valueE
    else .ok [.drives m s, .drivenBy s m, .ratio s 1]
  | _, _ => .error .typeE

def addFixedJoint (h : Heap) (m s : Nat) : Heap × Option Err := declare h (jointPlan h m s)

/-- a declaration call -/
inductive Decl
  | gear (m s : Nat) (eta : Q) | worm (m s : Nat) (f : Q) | joint (m s : Nat)
  deriving Repr

def Decl.run (T : Tbl) (h : Heap) : Decl → Heap × Option Err
  | .gear m s eta => addGearMating T h m s eta
  | .worm m s f => addWormGearMating T h m s f
  | .joint m s => addFixedJoint h m s

/-- a sequence of declaration calls, failing ones included (the script goes on after an exception) -/
def declareAll (T : Tbl) : Heap → List Decl → Heap
  | h, [] => h
  | h, d :: ds => declareAll T (d.run T h).1 ds

/-! ### `Powertrain.__init__` -/

/-- follow `drives` from element `i`; `fuel` bounds the walk (Python loops forever on a cycle) -/
def chainFrom (h : Heap) : Nat → Nat → List Nat
  | 0, _ => []
  | fuel + 1, i => match h[i]? with
    | none => []
    | some e => match e.drives with
      | none => [i]
      | some j => i :: chainFrom h fuel j

structure PT where
  elements : List Nat
  selfLocking : Bool
  deriving DecidableEq, Repr

def hasDupNames (h : Heap) (is : List Nat) : Bool :=
  let names := is.map fun i => h[i]?.map (·.name)
  !(names.eraseDups.length == names.length)

def assemble (h : Heap) (m : Nat) (fuel : Nat) : Except Err PT :=
  match h[m]? with
  | none => .error .typeE
  | some em =>
    if em.kind != .motor then .error .typeE
    else if em.drives.isNone then .error .valueE
    else
      let els := chainFrom h fuel m
      if hasDupNames h els then .error .nameE
      else .ok { elements := els,
                 selfLocking := els.any fun i => match h[i]? with
                   | some e => e.kind == .wormGear && e.selfLocking == some true
                   | none => false }

end Gearpy
