"""C18: Powertrain.snapshot and export_time_variables on simulated powertrains, against linear
interpolation of the recorded SI samples (oracle), the column-selection rule, and the Lean model
(`interp`, `cell`, `snapshotReports`)."""
import csv
import math
import os
import tempfile
from fractions import Fraction as F

from common import R, parse_num
from harness import gen, sim, sim_props
from harness.sim_props import near
from harness.si_spec import SI

import gearpy.units as U

VARS = sim_props.VAR_ORDER
UNIT_ARG = {'angular position': ('angular_position_unit', 'AngularPosition'), 'angular speed': ('angular_speed_unit', 'AngularSpeed'),
            'angular acceleration': ('angular_acceleration_unit', 'AngularAcceleration'), 'torque': ('torque_unit', 'Torque'),
            'driving torque': ('driving_torque_unit', 'Torque'), 'load torque': ('load_torque_unit', 'Torque'),
            'tangential force': ('force_unit', 'Force'), 'bending stress': ('stress_unit', 'Stress'),
            'contact stress': ('stress_unit', 'Stress'), 'electric current': ('current_unit', 'Current')}


def interp_oracle(ts, ys, t):
    for i in range(len(ts) - 1):
        if ts[i] <= t <= ts[i + 1]:
            if t == ts[i]:
                return ys[i]
            if t == ts[i + 1]:
                return ys[i + 1]
            return ys[i] + (ys[i + 1] - ys[i]) * (t - ts[i]) / (ts[i + 1] - ts[i])
    return None


def pick_units(rng):
    units = {}
    for var, (arg, kind) in UNIT_ARG.items():
        if arg not in units:
            units[arg] = rng.choice(list(SI[kind].keys()))
    return units


def eval_snapshot(ctx, case):
    spec = case['spec']
    tr, b = sim.simulate(spec)
    if tr['build_error'] or tr['error'] or len(tr['time']) < 2:
        ctx.count('simulation not usable')
        return
    ctx.case_done(case, nontrivial=True)
    pt = b.pt
    rng = ctx.rng
    ts = tr['time']
    valid = [v for v in VARS if any(v in e for e in tr['els'])]
    lines, owners = [], []
    for q in case['queries']:
        units = q['units']
        # target time
        if q['at'][0] == 'knot':
            j = q['at'][1] % len(ts)
            tq = pt.time[j]
            if q['at'][2] is not None:
                tq = tq.to(q['at'][2])
            t = sim.qsi(tq)
            if abs(t - ts[j]) > 0:
                t_exact_knot = None       # re-expressed in another unit: equal up to rounding only
            else:
                t_exact_knot = j
        else:
            j = q['at'][1] % (len(ts) - 1)
            if q['at'][0] == 'near':
                # a fraction of a microsecond after a recorded instant: still between two instants
                t = ts[j] + q['at'][2]
                if not ts[j] < t < ts[j + 1]:
                    continue
            else:
                t = ts[j] + (ts[j + 1] - ts[j]) * q['at'][2]
            u = q['at'][3]
            tq = U.Time(float(F(t) / SI['Time'][u]), u)
            t = sim.qsi(tq)
            t_exact_knot = None
        if not (ts[0] <= t <= ts[-1]):
            continue
        req = q['vars']
        if req is not None:
            req = [v for v in req if v in valid]
            if not req:
                continue
        try:
            df = pt.snapshot(target_time=tq, variables=list(req) if req is not None else None, print_data=False, **units)
        except Exception as ex:  # noqa: BLE001
            ctx.violation({**case, 'query': q}, {'why': f'snapshot raised {type(ex).__name__}: {str(ex)[:150]}'})
            return
        ctx.count('query ' + q['at'][0] + (' all variables' if req is None else f' {len(req)} variables'))
        want_vars = [v for v in VARS if v in (req if req is not None else valid)]
        want_cols = [v if v == 'pwm' else f'{v} ({units[UNIT_ARG[v][0]]})' for v in want_vars]
        if list(df.columns) != want_cols:
            ctx.violation({**case, 'query': q}, {'why': 'snapshot columns are not exactly the requested variables in sort order',
                                                  'got': list(df.columns), 'want': want_cols})
            return
        for ei, e in enumerate(tr['els']):
            name = tr['names'][ei]
            for v, col in zip(want_vars, want_cols):
                has = v in e
                present = name in df.index and not (isinstance(df.loc[name, col], float) and math.isnan(df.loc[name, col])) \
                    and df.loc[name, col] is not None and not _isnan(df.loc[name, col])
                if has != present:
                    ctx.violation({**case, 'query': q}, {'why': f"element {name}: variable {v!r} " + ('recorded but missing from' if has else 'not recorded but present in') + ' the snapshot'})
                    return
                if not has:
                    continue
                got = float(df.loc[name, col])
                ysi = interp_oracle(ts, e[v], t)
                f = 1.0 if v == 'pwm' else float(SI[UNIT_ARG[v][1]][units[UNIT_ARG[v][0]]])
                want = ysi / f
                sc = max(abs(x) for x in e[v]) / f if any(e[v]) else 1.0
                if not near(got, want, max(sc, 1e-300), 1e-9):
                    ctx.violation({**case, 'query': q}, {'why': f'element {name} {v!r}: snapshot {got}, linear interpolation of the recorded samples gives {want}', 't': t})
                    return
                if t_exact_knot is not None and not near(got, e[v][t_exact_knot] / f, max(sc, 1e-300), 1e-12):
                    ctx.violation({**case, 'query': q}, {'why': f'element {name} {v!r}: snapshot at a recorded instant {got} is not the recorded sample {e[v][t_exact_knot] / f}'})
                    return
                if ctx.driver.available and len(lines) < 400 and rng.random() < 0.15:
                    lines.append(f"i ts={','.join(R(x) for x in ts)} ys={','.join(R(x) for x in e[v])} t={R(t)} f={R(F(f))}")
                    owners.append(({**case, 'query': q}, got, sc))
        # selection rule against the model
        if ctx.driver.available and req is not None and rng.random() < 0.3:
            for ei in range(tr['n']):
                ln = f"t elem={sim_props.info_token(spec, tr, ei)} ops=u req={','.join(v.replace(' ', '_') for v in req)}"
                ans = ctx.driver.ask([ln])[0]
                kv = dict(x.split('=') for x in ans.split()[1:])
                model = [c == '1' for c in kv['snap'].split(',')]
                impl = [(v in req and v in tr['els'][ei]) for v in VARS]
                if model != impl:
                    ctx.mismatch({**case, 'query': q}, {'element': ei, 'reports': impl}, ans)
    if lines:
        for (c, got, sc), a in zip(owners, ctx.driver.ask(lines)):
            w = a.split()
            if w[0] != 'ok' or not near(got, parse_num(w[1]), max(sc, 1e-300), 1e-9):
                ctx.mismatch(c, got, a)
    check_export(ctx, case, tr, b)


def _isnan(x):
    try:
        return math.isnan(float(x))
    except Exception:  # noqa: BLE001
        return True


def check_export(ctx, case, tr, b):
    rng = ctx.rng
    units = pick_units(rng)
    tu = rng.choice(list(SI['Time'].keys()))
    with tempfile.TemporaryDirectory() as d:
        try:
            b.pt.export_time_variables(folder_path=d, time_unit=tu, **units)
        except Exception as ex:  # noqa: BLE001
            ctx.violation(case, {'why': f'export_time_variables raised {type(ex).__name__}: {str(ex)[:150]}'})
            return
        for ei, e in enumerate(tr['els']):
            path = os.path.join(d, tr['names'][ei] + '.csv')
            if not os.path.exists(path):
                ctx.violation(case, {'why': f"no CSV file for element {tr['names'][ei]}"})
                return
            with open(path) as f:
                rows = list(csv.reader(f))
            head, body = rows[0], rows[1:]
            if len(body) != len(tr['time']):
                ctx.violation(case, {'why': f'{len(body)} CSV rows for {len(tr["time"])} recorded instants'})
                return
            want_head = [f'time ({tu})'] + [v if v == 'pwm' else f'{v} ({units[UNIT_ARG[v][0]]})' for v in e.keys()]
            if head != want_head:
                ctx.violation(case, {'why': 'CSV header is not time + every recorded variable', 'got': head, 'want': want_head})
                return
            cols = {h: [float(r[k]) for r in body] for k, h in enumerate(head)}
            for j, t in enumerate(tr['time']):
                if not near(cols[head[0]][j], t / float(SI['Time'][tu]), max(abs(t) / float(SI['Time'][tu]), 1e-300), 1e-12):
                    ctx.violation(case, {'why': f'CSV time {cols[head[0]][j]} at row {j} is not the recorded instant {t} s in {tu}'})
                    return
            for v, h in zip(e.keys(), head[1:]):
                f = 1.0 if v == 'pwm' else float(SI[UNIT_ARG[v][1]][units[UNIT_ARG[v][0]]])
                sc = max([abs(x) for x in e[v]] + [1e-300]) / f
                for j, x in enumerate(e[v]):
                    if not near(cols[h][j], x / f, sc, 1e-12):
                        ctx.violation(case, {'why': f"CSV cell {h}[{j}] = {cols[h][j]}, recorded sample converted = {x / f}"})
                        return
            # the same columns from the Lean model (`exportColumn`: every stored sample, with the unit it is stored in,
            # converted on its own)
            if ctx.driver.available and rng.random() < 0.5:
                from harness.units_h import uidx
                lines, owners = [], []
                series = [('Time', tu, head[0], list(b.pt.time))]
                for v, h in zip(e.keys(), head[1:]):
                    if v != 'pwm' and rng.random() < 0.4:
                        series.append((UNIT_ARG[v][1], units[UNIT_ARG[v][0]], h, list(b.E[ei].time_variables[v])))
                for kind, u, h, qs in series:
                    try:
                        toks = ','.join(f'{R(q.value)}:{uidx(kind, q.unit)}' for q in qs)
                    except (ValueError, AttributeError, TypeError):
                        continue
                    lines.append(f'u col {kind} {uidx(kind, u)} {toks}')
                    owners.append(h)
                    ctx.count('export column with samples in ' + ('one unit' if len({q.unit for q in qs}) == 1 else 'several units'))
                for h, ans in zip(owners, ctx.driver.ask(lines)):
                    w = ans.split()
                    try:
                        model = [float(x) for x in w[1].split(',')] if w[0] == 'ok' else None
                    except (ValueError, IndexError):
                        model = None
                    sc = max([abs(x) for x in cols[h]] + [1e-300])
                    if model is None or len(model) != len(cols[h]) or not all(near(a_, b_, sc, 1e-12) for a_, b_ in zip(model, cols[h])):
                        ctx.mismatch({**case, 'column': h, 'element': tr['names'][ei]}, cols[h], ans[:300])
                        return
    ctx.count('exports checked')


def gen_case(rng):
    spec = gen.gen_spec(rng, random_units=rng.random() < 0.6, sl_bias=0.2, optional_data=0.8, max_stages=3)
    dt = 2.0 ** -rng.randint(3, 6)
    op, _, n = gen.run_op(rng, dt_si=dt, steps=(3, 10), unit=rng.choice(['sec', 'ms', 'min']))
    spec['ops'] = [op]
    r = rng.random()
    if r < 0.2:
        op2, _, _ = gen.run_op(rng, dt_si=dt, steps=(2, 5), unit='sec')
        spec['ops'].append(op2)
    elif r < 0.45:
        # continuation with another time step: the recorded instants are not equally spaced
        dt2 = dt * rng.choice([0.5, 0.25, 2, 3, 1.5])
        op2, _, _ = gen.run_op(rng, dt_si=dt2, steps=(2, 6), unit=rng.choice(['sec', 'ms']))
        spec['ops'].append(op2)
        if rng.random() < 0.3:
            op3, _, _ = gen.run_op(rng, dt_si=dt, steps=(2, 4), unit='sec')
            spec['ops'].append(op3)
    elif r < 0.65:
        # results are looked at, then the powertrain is reset and simulated again on another time grid
        dt2 = dt * rng.choice([0.5, 2, 3, 1.5, 1])
        op2, _, _ = gen.run_op(rng, dt_si=dt2, steps=(3, 9), unit=rng.choice(['sec', 'ms']))
        spec['ops'] += [{'op': 'snap', 'frac': rng.uniform(0.1, 0.9)}, {'op': 'reset'},
                        {'op': 'init', 'pos': spec['init']['pos'], 'speed': spec['init']['speed']}, op2]
        if rng.random() < 0.5:
            spec['ops'].insert(1, {'op': 'snap', 'frac': rng.uniform(0.1, 0.9)})
    if rng.random() < 0.3:
        # element names are free text: dots, several words, names that share a prefix up to a dot
        for k, e in enumerate(spec['elems']):
            e['name'] = rng.choice([f'stage {k // 2 + 1}.{k % 2 + 1}', f'shaft.{k}.out', f'gear {k} (z = {e.get("z", 0)}, v1.{k})'])
    if rng.random() < 0.5:
        # a controller changes the duty cycle from one instant to the next (the 'pwm' column is interpolated like the others)
        spec['rules'] = gen.const_rules(rng, 8 * dt, random_units=False) or None
    queries = []
    for _ in range(rng.randint(4, 10)):
        r0 = rng.random()
        if r0 < 0.45:
            at = ['knot', rng.randrange(100), rng.choice([None, None, 'ms', 'min', 'hour', 'sec'])]
        elif r0 < 0.6:
            at = ['near', rng.randrange(100), rng.choice([2.5e-7, 6e-7, 9e-7, 3e-6]), rng.choice(['sec', 'ms'])]
        else:
            at = ['between', rng.randrange(100), rng.uniform(0.05, 0.95), rng.choice(['sec', 'ms', 'min', 'hour'])]
        r = rng.random()
        if r < 0.25:
            vs = None
        else:
            k = rng.randint(1, 4) if r < 0.8 else rng.randint(5, 11)
            vs = rng.sample(VARS, k)
        queries.append({'at': at, 'vars': vs, 'units': pick_units(rng)})
    return {'t': 'snap', 'spec': spec, 'queries': queries}


def run_C18(ctx):
    sim_props.prep()
    rng = ctx.rng
    n = ctx.budget(40, 1200) * ctx.boost
    for _ in range(n):
        eval_snapshot(ctx, gen_case(rng))
    if ctx.tier == 'thorough':
        # every non-empty subset of the 11 variables on one richly equipped powertrain
        case = gen_case(rng)
        case['queries'] = []
        for mask in range(1, 2 ** len(VARS)):
            vs = [v for k, v in enumerate(VARS) if mask >> k & 1]
            case['queries'].append({'at': ['between', mask, 0.37, 'sec'], 'vars': vs, 'units': pick_units(rng)})
        eval_snapshot(ctx, case)
    ctx.rule = ('simulated powertrains with rich optional data, single runs, continuations with the same or another time step (unequally spaced '
                'instants), and snapshot / reset / re-simulation on another grid; target times at recorded instants (also re-expressed in another '
                'time unit) and between them, in any time unit; all variables or random non-empty subsets (thorough: all 2047 '
                'subsets); random output units; the returned table is compared cell by cell with the interpolation of the '
                'recorded samples and the exported CSV files are re-read and compared; every case is non-trivial')


def replay_C18(ctx, case):
    sim_props.prep()
    eval_snapshot(ctx, case)
