import Gearpy.Proofs.Solver
/-!
# C13 — a self-locking powertrain is never driven by its load

"Duty cycle in force" at an instant is the motor's duty-cycle attribute when that instant's lock
check runs, i.e. the value recorded at the previous instant (or set before the run): the lock
check precedes the instant's control.

* `never_clamped`: without a self-locking mating no record of any history is held;
* `sign_safe`: with one, whatever the load, the recorded motor speed is `0` if the duty in force
  is `0`, `≥ −tolW` if it is positive, `≤ tolW` if it is negative (`tolW` is the tolerance of the
  code's `speed < 0 rad/s`, zero when speeds are carried in rad/s);
* `held_still`: two consecutive held instants have all speeds and accelerations zero and equal
  positions;
* `engage_only_if`: a powertrain that was not held becomes held only if it is self-locking and the duty in force
  is null or the advanced motor speed opposes it (C03's "clamped only if self-locking engages at that instant");
* `release_only_if`: a held powertrain is released only when the motor's (previously recorded)
  net torque points in the direction commanded by the duty in force.
* history level — `run_safe`, `first_safe`, `schedule_safe`: the four clauses above hold between
  **every two consecutive recorded instants** (`SafeRel`, the duty in force being the one recorded at
  the earlier instant) of every run, continued or fresh, with any stop condition, and along every
  schedule of runs and resets; the first instant of a fresh run is judged against the attribute the
  motor had before the run.
The criterion `f > cos α · tan β` for the flag itself is C10's theorem.
-/

namespace Gearpy.C13
open Gearpy

/-- C13: a powertrain without self-locking mating is never clamped -/
theorem never_clamped (c : Cfg) (hsl : c.sl = false) (ops : List Op) (p v : Q) (s' : St)
    (he : exec c ops (St.init p v) = .ok s') : ∀ r ∈ s'.recs, r.locked = false := by
  intro r hr
  have := (all_records_ok c ops _ s' (init_inv c p v) he r hr).lockedSL
  cases hlk : r.locked with
  | false => rfl
  | true => rw [this hlk] at hsl; simp at hsl

/-- C13: sign safety of the recorded motor speed w.r.t. the duty cycle in force -/
theorem sign_safe (c : Cfg) (s s' : St) (t : Q) (hsl : c.sl = true) (htol : 0 ≤ c.tolW)
    (h : compute c s t = .ok s') :
    ∃ r, s'.recs = s.recs ++ [r] ∧
      (s.pwm = 0 → r.speed.headD 0 = 0) ∧
      (0 < s.pwm → -c.tolW ≤ r.speed.headD 0) ∧
      (s.pwm < 0 → r.speed.headD 0 ≤ c.tolW) := by
  unfold compute at h; simp only at h
  split at h
  · simp at h
  · skip
    split at h
    · simp at h
    · split at h
      · simp at h
      · simp only [Except.ok.injEq] at h; subst h
        refine ⟨_, rfl, ?_, ?_, ?_⟩
        all_goals
          intro hp
          dsimp only
          split
          · simp [zeros, List.replicate_succ]; try linarith
          · rename_i hnl
            simp only [checkLock, hsl, Bool.true_and] at hnl
            split at hnl
            · simp at hnl
            · rename_i hcond
              simp only [Bool.or_eq_true, Bool.and_eq_true, decide_eq_true_eq, beq_iff_eq, not_or, not_and, not_lt] at hcond
              first
                | (exact absurd hp hcond.1.1)
                | (exact hcond.1.2 hp)
                | (exact hcond.2 hp)

/-- the duty in force at a step of a run is the duty recorded at the previous instant -/
theorem duty_in_force (c : Cfg) (s s' : St) (t : Q) (hinv : s.locked = true → c.sl = true)
    (h : compute c s t = .ok s') : ∃ r, s'.recs = s.recs ++ [r] ∧ s'.pwm = r.pwm := by
  obtain ⟨r, hr, _, _, _, _, _, _, hpwm, _⟩ := compute_recOK c s s' t hinv h
  exact ⟨r, hr, hpwm⟩

/-- C13: while held, everything stands still: speeds and accelerations are zero and the position
    does not move between two consecutive held instants -/
theorem held_still (c : Cfg) (dt : Q) (s s' : St) (t : Q) (hinv : s.locked = true → c.sl = true)
    (hs0 : s.speed = 0) (ha0 : s.acc = 0) (h : stepAt c dt s t = .ok s') :
    ∃ b, s'.recs = s.recs ++ [b] ∧ lastD b.pos = s.pos ∧
      (b.locked = true → b.speed = zeros (c.links.length + 1) ∧ b.acc = zeros (c.links.length + 1)) := by
  unfold stepAt at h
  obtain ⟨r, hr, hok, _, _, hp, _, _, _, hpp, _⟩ :=
    compute_recOK c (integrate s dt) s' t (by simpa [integrate] using hinv) h
  refine ⟨r, by simpa [integrate] using hr, ?_, hok.lockedStill⟩
  rw [← hp, hpp]; simp [integrate, hs0, ha0]

/-- after a held instant the live speed and acceleration are zero (so `held_still` applies to the next step) -/
theorem held_state (c : Cfg) (s s' : St) (t : Q) (hinv : s.locked = true → c.sl = true)
    (h : compute c s t = .ok s') (hl : s'.locked = true) : s'.speed = 0 ∧ s'.acc = 0 := by
  obtain ⟨r, _, hok, _, hlk, _, hv, ha, _⟩ := compute_recOK c s s' t hinv h
  rw [hlk] at hl
  obtain ⟨h1, h2⟩ := hok.lockedStill hl
  rw [hv, ha, h1, h2]; exact ⟨lastD_zeros _, lastD_zeros _⟩

/-- C13: motion resumes only when the motor's net torque points in the commanded direction -/
theorem release_only_if (c : Cfg) (s s' : St) (t : Q) (hlocked : s.locked = true)
    (h : compute c s t = .ok s') (hrel : s'.locked = false) :
    ∃ T, s.mtorque = some T ∧ ((c.tolT < T ∧ 0 < s.pwm) ∨ (T < -c.tolT ∧ s.pwm < 0)) := by
  unfold compute at h; simp only at h
  split at h
  · simp at h
  · skip
    split at h
    · simp at h
    · split at h
      · simp at h
      · simp only [Except.ok.injEq] at h; subst h
        dsimp only at hrel
        unfold checkLock at hrel
        split at hrel
        · simp at hrel
        · split at hrel
          · rename_i T hT
            split at hrel
            · rename_i hc
              refine ⟨T, hT, ?_⟩
              simp only [Bool.or_eq_true, Bool.and_eq_true, decide_eq_true_eq] at hc
              exact hc
            · rw [hlocked] at hrel; simp at hrel
          · rw [hlocked] at hrel; simp at hrel


/-- C13 / C03 ("clamped to zero only if self-locking engages at that instant"): a powertrain that was not held
    becomes held at an instant only if it is self-locking and the duty cycle in force is null or the (advanced,
    not yet clamped) motor speed opposes it -/
theorem engage_only_if (c : Cfg) (s s' : St) (t : Q) (hunl : s.locked = false)
    (h : compute c s t = .ok s') (hl : s'.locked = true) :
    c.sl = true ∧
      (s.pwm = 0 ∨ (0 < s.pwm ∧ (upstream (c.links.map (·.ratio)) s.speed).headD 0 < -c.tolW) ∨
        (s.pwm < 0 ∧ c.tolW < (upstream (c.links.map (·.ratio)) s.speed).headD 0)) := by
  unfold compute at h; simp only at h
  split at h
  · simp at h
  · split at h
    · simp at h
    · split at h
      · simp at h
      · simp only [Except.ok.injEq] at h; subst h
        dsimp only at hl
        unfold checkLock at hl
        split at hl
        · rename_i hc
          simp only [Bool.and_eq_true, Bool.or_eq_true, decide_eq_true_eq, beq_iff_eq] at hc
          exact ⟨hc.1, by
            rcases hc.2 with (h0 | ⟨hp, hs⟩) | ⟨hn, hs⟩
            · exact Or.inl h0
            · exact Or.inr (Or.inl ⟨hp, hs⟩)
            · exact Or.inr (Or.inr ⟨hn, hs⟩)⟩
        · split at hl
          · split at hl
            · simp at hl
            · rw [hunl] at hl; simp at hl
          · rw [hunl] at hl; simp at hl

/-- what C13 demands between two consecutive instants `a`, `b` of a run on a self-locking powertrain:
    sign safety of the motor speed w.r.t. the duty cycle in force (the one recorded at `a`), standstill
    while held, release only with the motor's net torque in the commanded direction -/
def SafeRel (c : Cfg) (a b : Rec) : Prop :=
  (a.pwm = 0 → b.speed.headD 0 = 0) ∧
  (0 < a.pwm → -c.tolW ≤ b.speed.headD 0) ∧
  (a.pwm < 0 → b.speed.headD 0 ≤ c.tolW) ∧
  (b.locked = true → b.speed = zeros (c.links.length + 1) ∧ b.acc = zeros (c.links.length + 1)) ∧
  (a.locked = true → b.locked = true → lastD b.pos = lastD a.pos) ∧
  (a.locked = true → b.locked = false →
    (c.tolT < a.torque.headD 0 ∧ 0 < a.pwm) ∨ (a.torque.headD 0 < -c.tolT ∧ a.pwm < 0))

theorem step_safe (c : Cfg) (hsl : c.sl = true) (htol : 0 ≤ c.tolW) (dt : Q)
    (s s' : St) (t : Q) (a b : Rec) (hinv : Inv2 c s) (h : stepAt c dt s t = .ok s')
    (hb : s'.recs = s.recs ++ [b]) (ha : s.recs.getLast? = some a) : SafeRel c a b := by
  obtain ⟨hpwm, hlk, hpos, hspeed, hacc, hmt⟩ := hinv.2 a ha
  have hmem : a ∈ s.recs := List.mem_of_getLast? ha
  have haok := hinv.1.1 a hmem
  unfold stepAt at h
  have hinv' : (integrate s dt).locked = true → c.sl = true := by simpa [integrate] using hinv.1.2
  obtain ⟨r, hr, h0, hpos', hneg⟩ := sign_safe c (integrate s dt) s' t hsl htol h
  have hrb : r = b := by
    have : s.recs ++ [r] = s.recs ++ [b] := by rw [← hb]; simpa [integrate] using hr.symm
    simpa using List.append_cancel_left this
  subst hrb
  obtain ⟨r2, hr2, hok, _, hl2, hp2, _, _, _, hpp2, _⟩ := compute_recOK c (integrate s dt) s' t hinv' h
  have hr2b : r2 = r := by
    rw [hr] at hr2; simpa using (List.append_cancel_left hr2).symm
  subst hr2b
  have hpw : (integrate s dt).pwm = a.pwm := by simpa [integrate] using hpwm
  refine ⟨by rw [← hpw]; exact h0, by rw [← hpw]; exact hpos', by rw [← hpw]; exact hneg, hok.lockedStill, ?_, ?_⟩
  · intro hla _
    obtain ⟨hs0, ha0⟩ := haok.lockedStill hla
    rw [← hp2, hpp2]
    have e1 : s.speed = 0 := by rw [hspeed, hs0]; exact lastD_zeros _
    have e2 : s.acc = 0 := by rw [hacc, ha0]; exact lastD_zeros _
    simp [integrate, e1, e2, hpos]
  · intro hla hlb
    have hlocked : (integrate s dt).locked = true := by simpa [integrate, hlk] using hla
    have hrel : s'.locked = false := by rw [hl2]; exact hlb
    obtain ⟨T, hT, hcase⟩ := release_only_if c (integrate s dt) s' t hlocked h hrel
    have : T = a.torque.headD 0 := by
      have : (integrate s dt).mtorque = some (a.torque.headD 0) := by simpa [integrate] using hmt
      rw [this] at hT; simpa using hT.symm
    rw [this, hpw] at hcase
    exact hcase

/-- C13 at history level: along every run (continued or fresh) of a self-locking powertrain, every
    two consecutive recorded instants satisfy `SafeRel`, whatever the load, the controller and the
    stop condition -/
theorem run_safe (c : Cfg) (hsl : c.sl = true) (htol : 0 ≤ c.tolW) (dt : Q) (n : Nat) (stop)
    (s s' : St) (hinv : Inv2 c s) (h : run c dt n stop s = .ok s') :
    ∃ new, s'.recs = s.recs ++ new ∧ Pairs (SafeRel c) (s.recs.getLast?.toList ++ new) ∧ Inv2 c s' :=
  run_pairs c dt n stop (SafeRel c) (fun s s' t a b hi hs hb ha => step_safe c hsl htol dt s s' t a b hi hs hb ha) s s' hinv h

/-- the first instant of a fresh run: the duty cycle in force is the motor's attribute before the run -/
theorem first_safe (c : Cfg) (hsl : c.sl = true) (htol : 0 ≤ c.tolW) (dt : Q) (n : Nat) (stop)
    (s s' : St) (h0 : s.recs = []) (h : run c dt n stop s = .ok s') :
    ∃ r0, s'.recs.head? = some r0 ∧
      (s.pwm = 0 → r0.speed.headD 0 = 0) ∧ (0 < s.pwm → -c.tolW ≤ r0.speed.headD 0) ∧
      (s.pwm < 0 → r0.speed.headD 0 ≤ c.tolW) := by
  unfold run at h
  have hl : lastTime s = none := by simp [lastTime, h0]
  simp only [hl] at h
  cases hc : compute c { s with locked := false } 0 with
  | error e => simp [hc] at h
  | ok s0 =>
    simp only [hc] at h
    obtain ⟨r, hr, hz, hp, hn⟩ := sign_safe c { s with locked := false } s0 0 hsl htol hc
    obtain ⟨new, hnew, _⟩ := loop_pairs c dt stop (fun _ _ => True) (fun _ _ _ _ _ _ _ _ _ => trivial) _ s0 s'
      (compute_inv2 c { s with locked := false } s0 0 ⟨by intro x hx; rw [h0] at hx; simp at hx, by intro hh; simp at hh⟩ hc) h
    refine ⟨r, ?_, hz, hp, hn⟩
    rw [hnew, hr]; simp [h0]

/-- C13 over whole schedules: after any sequence of runs (any time steps, durations, stop
    conditions; fresh or continued) and resets on a self-locking powertrain, all consecutive
    recorded instants satisfy `SafeRel` -/
theorem schedule_safe (c : Cfg) (hsl : c.sl = true) (htol : 0 ≤ c.tolW) (ops : List Op) (hops : RunsAndResets ops)
    (p v : Q) (s' : St) (h : exec c ops (St.init p v) = .ok s') : Pairs (SafeRel c) s'.recs :=
  (exec_pairs c (SafeRel c) (fun dt s s' t a b hi hs hb ha => step_safe c hsl htol dt s s' t a b hi hs hb ha)
    ops hops _ s' (init_inv2 c p v) trivial h).1

/-! ### non-vacuity: a self-locking chain overloaded backwards is held from the second instant on -/
def exCfg : Cfg :=
  { J0 := 1, links := [⟨30, 2/5, 1/2, true⟩], sl := true, tolW := 0, tolT := 0,
    motorTorque := fun w D => (1 - w / 100) * 2 * D, motorCurrent := fun _ _ => none,
    load := fun _ _ _ => 500, control := none }
example : (match exec exCfg [.run (1/4) 3 none] (St.init 0 0) with
    | .ok s => s.recs.map (·.locked) | .error _ => []) = [false, true, true, true] := by decide +kernel

example : RunsAndResets [.run (1/4) 3 none, .reset, .run (1/8) 2 none] := by simp [RunsAndResets]

end Gearpy.C13
