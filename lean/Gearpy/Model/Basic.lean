/-!
# Gearpy.Model.Basic — numbers and exceptions shared by every model module

Core Lean only (no Mathlib): the compiled driver links these files.

* `Q` is core `Rat`. Every finite IEEE double is a rational, so a theorem over `Q`
  quantifies over every value the Python code can be handed; what is *not* modelled
  is the rounding of each floating-point operation (DESIGN.md section 3.1).
* `Err` is the small enum Python exception classes are mapped to.
-/

abbrev Q := Rat

namespace Gearpy

/-- Python exception classes that some property names, plus a catch-all. -/
inductive Err
  | typeE | valueE | zeroDiv | keyE | nameE | attrE | other
  deriving DecidableEq, Repr, Inhabited

def Err.toString : Err → String
  | .typeE => "TypeError" | .valueE => "ValueError" | .zeroDiv => "ZeroDivisionError"
  | .keyE => "KeyError" | .nameE => "NameError" | .attrE => "AttributeError" | .other => "Other"

/-- absolute value on `Q` written with an `if`, so that core tactics can split on it -/
def qabs (x : Q) : Q := if x < 0 then -x else x

def lastD (l : List Q) : Q := l.getLastD 0

def zeros (n : Nat) : List Q := List.replicate n 0

end Gearpy
