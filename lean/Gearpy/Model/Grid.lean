import Gearpy.Model.Units
import Gearpy.Model.Solver
/-!
# Gearpy.Model.Grid — the unit-carrying time axis of `Solver.run` (`solver.py`, raw-value site)

`Solver.run` reads `.value` of the time step, of the simulation time and of the last recorded
instant; this is one of the places where unit independence (C07) and the shape of the time axis
(C11, C12) can actually fail, so it is modelled on quantities, not on SI numbers:

```
initial_time = time[-1].to(dt.unit)            # or Time(0, dt.unit) on a fresh run
n_steps      = int(floor(simulation_time/time_discretization + 1e-9))
instant k    = Time(initial_time.value + k*dt.value, dt.unit)        k = 1 … n_steps
```
-/

namespace Gearpy

/-- the guard added to the quotient before `floor` -/
def gridGuard : Q := 1 / 1000000000

/-- `simulation_time / time_discretization` (`TimeInterval.__truediv__`): a plain number -/
def stepRatio (T : Tbl) (dt sim : Qty) : Q := sim.value / conv T dt sim.unit

/-- number of instants a run appends after its initial one -/
def nSteps (T : Tbl) (dt sim : Qty) : Nat := (stepRatio T dt sim + gridGuard).floor.toNat

/-- `run` rejects `time_discretization >= simulation_time` -/
def runArgsOk (T : Tbl) (dt sim : Qty) : Bool :=
  !(cmpRaw T.tol .ge (dt.unit == sim.unit) dt.value (conv T sim dt.unit))

/-- the instants appended by a run, as `Time` quantities in the time step's unit -/
def gridU (T : Tbl) (last : Option Qty) (dt sim : Qty) : List Qty :=
  let t0 : Q := match last with
    | some l => conv T l dt.unit
    | none => 0
  (List.range (nSteps T dt sim)).map fun i => ⟨.time, t0 + ((i + 1 : Nat) : Q) * dt.value, dt.unit⟩

end Gearpy
