"""Structured generators of powertrain specs (built from the repository's own element types)."""
import math
from fractions import Fraction as F

from harness.si_spec import SI

WORM_PA = [(14.5, 16.0), (20.0, 25.0), (25.0, 35.0), (30.0, 45.0)]   # refreshed from tables.json by set_tables


def set_tables(t):
    global WORM_PA
    WORM_PA = [(float(F(*a)), float(F(*b))) for a, b, _ in t['worm']]


def dy(rng, lo, hi, bits=6):
    """a dyadic rational in [lo, hi] with `bits` fractional bits"""
    k = 2 ** bits
    a, b = int(math.ceil(lo * k)), int(math.floor(hi * k))
    if lo > 0:
        a = max(a, 1)
    return rng.randint(a, max(a, b)) / k


def in_unit(rng, kind, si_value, random_units=True, unit=None):
    """[value, unit] of an SI magnitude in a (random) unit of its kind"""
    if unit is None:
        unit = rng.choice(list(SI[kind].keys())) if random_units else list(SI[kind].keys())[0]
    return [float(F(si_value) / SI[kind][unit]), unit]


def gen_spec(rng, *, random_units=True, sl_bias=0.35, rules=None, currents=None, max_stages=4,
             optional_data=0.5, load_amp=None, steps=(4, 14), allow_rev_worm=True, reuse=0.0):
    """a random valid powertrain + initial conditions + load; ops are added by the caller"""
    ru = random_units
    has_cur = currents if currents is not None else (rng.random() < 0.6)
    w0 = dy(rng, 10, 300)
    tmax = dy(rng, 0.1, 4)
    motor = {'w0': in_unit(rng, 'AngularSpeed', w0, ru), 'tmax': in_unit(rng, 'Torque', tmax, ru),
             'J': in_unit(rng, 'InertiaMoment', dy(rng, 0.01, 1), ru), 'i0': None, 'imax': None, 'pwm0': None}
    if has_cur:
        i0 = dy(rng, 0.03, 0.5) if rng.random() < 0.9 else 0.0
        imax = dy(rng, 1, 4)
        motor['i0'] = in_unit(rng, 'Current', i0, ru)
        motor['imax'] = in_unit(rng, 'Current', imax, ru)
    elems, rels = [], []
    prev = 0

    def add(e):
        e['name'] = f'e{len(elems) + 1}'
        elems.append(e)
        return len(elems)

    def J():
        return in_unit(rng, 'InertiaMoment', dy(rng, 0.01, 1), ru)

    def gear_opt(module_si=None, with_E=True):
        # every subset of (module, face width, elastic modulus) occurs, also the ones that enable nothing
        d = {'module': None, 'fw': None, 'E': None}
        if rng.random() < optional_data:
            m = module_si if module_si is not None else rng.choice([0.5, 1, 1.25, 2, 3]) * 1e-3
            d['module'] = in_unit(rng, 'Length', m, ru)
        if rng.random() < 0.75 * optional_data + (0.15 if d['module'] is not None else 0.0):
            d['fw'] = in_unit(rng, 'Length', rng.choice([5, 8, 10, 20]) * 1e-3, ru)
        if with_E and rng.random() < 0.6 * optional_data + (0.15 if d['fw'] is not None else 0.0):
            d['E'] = in_unit(rng, 'Stress', rng.choice([70, 110, 200, 210]) * 1e9, ru)
        return d

    want_sl = rng.random() < sl_bias
    nst = rng.randint(1, max_stages)
    sl_done = False
    sl_stage = rng.randrange(nst)      # the self-locking worm stage is anywhere in the chain, other worm stages may follow it
    for st in range(nst):
        kinds = ['spur', 'helical', 'fly', 'worm']
        if allow_rev_worm:
            kinds.append('wormrev')
        kind = rng.choice(kinds)
        if want_sl and not sl_done and st == sl_stage:
            # the self-locking stage: the worm drives the wheel, or (reversed drive) a wheel with a steeper helix
            # drives a self-locking worm
            kind = 'worm' if (rng.random() < 0.75 or not allow_rev_worm) else 'wormrev'
        if kind == 'fly':
            i = add({'type': 'fly', 'J': J()})
            rels.append(['joint', prev, i])
            prev = i
            continue
        if kind in ('spur', 'helical'):
            mod = rng.choice([0.5, 1, 1.25, 2, 3]) * 1e-3
            a = {'type': kind, 'z': rng.randint(10, 60), 'J': J(), **gear_opt(mod)}
            bb = {'type': kind, 'z': rng.randint(10, 80), 'J': J(), **gear_opt(mod)}
            if rng.random() < 0.12:
                bb['z'] = a['z']      # a mating with equal tooth counts: ratio exactly 1, efficiency still below 1
            if kind == 'helical':
                h = rng.uniform(5, 40)
                hu = in_unit(rng, 'Angle', h * math.pi / 180, ru)
                a['helix'] = hu
                bb['helix'] = list(hu)
            # an idler: the second gear is the slave of the first mating and the master of a second one
            # (its mating role is the one declared last; its mate for the contact stress is the gear it drives)
            cc = None
            if rng.random() < 0.3:
                cc = {'type': kind, 'z': rng.randint(10, 80), 'J': J(), **gear_opt(mod)}
                if kind == 'helical':
                    cc['helix'] = list(hu)
            # the contact stress of a gear needs its mate's module and elastic modulus (else the
            # simulation raises ValueError, C09): keep the optional data consistent
            pairs = ((a, bb), (bb, a)) if cc is None else ((a, bb), (bb, cc), (cc, bb))
            for _ in range(2):
                for x, y in pairs:
                    if x['module'] is not None and x['fw'] is not None and x['E'] is not None:
                        if y['module'] is None or y['E'] is None:
                            x['E'] = None
            ia, ib = add(a), add(bb)
            rels.append(['joint', prev, ia])
            rels.append(['gear', ia, ib, dy(rng, 0.5, 1)])
            if cc is not None:
                ic = add(cc)
                rels.append(['gear', ib, ic, dy(rng, 0.5, 1)])
                prev = ic
                continue
            if reuse and rng.random() < reuse and a['module'] is None and bb['module'] is None:
                # re-declaration before assembly: the former mating slave is now joined rigidly to the
                # previous element (the pinion drops out of the chain)
                rels.append(['joint', prev, ib])
            prev = ib
            continue
        pa, mx = rng.choice(WORM_PA)
        pau = in_unit(rng, 'Angle', pa * math.pi / 180, False, unit='deg')
        pau = [pa, 'deg']
        if kind == 'worm':
            locking = want_sl and not sl_done
            if locking:
                h = rng.uniform(2, 6)
                f = rng.uniform(0.25, 0.5)
                sl_done = True
            else:
                h = rng.uniform(min(8, mx - 1), min(mx - 0.5, 20))
                f = rng.uniform(0, 0.08)
            hu = in_unit(rng, 'Angle', h * math.pi / 180, ru)
            worm = {'type': 'wormgear', 'starts': rng.randint(1, 3), 'J': J(), 'helix': hu, 'pa': list(pau),
                    'd': in_unit(rng, 'Length', rng.choice([10, 16, 20]) * 1e-3, ru) if rng.random() < optional_data else None}
            wheel = {'type': 'wormwheel', 'z': rng.randint(10, 40), 'J': J(), 'helix': list(hu), 'pa': list(pau),
                     **gear_opt(None, with_E=False)}
            ia, ib = add(worm), add(wheel)
            rels.append(['joint', prev, ia])
            rels.append(['worm', ia, ib, f])
            prev = ib
        else:
            h = rng.uniform(min(12, mx - 1), mx - 0.5)
            f = rng.uniform(0, 0.15)
            hu = in_unit(rng, 'Angle', h * math.pi / 180, ru)
            hworm = list(hu)
            if want_sl and not sl_done and st == sl_stage:
                hg = rng.uniform(2, 6)
                ca = math.cos(pa * math.pi / 180)
                f = rng.uniform(ca * math.tan(hg * math.pi / 180) * 1.1, min(ca * math.tan(h * math.pi / 180) * 0.9, 1.0))
                hworm = in_unit(rng, 'Angle', hg * math.pi / 180, ru)
                sl_done = True
            wheel = {'type': 'wormwheel', 'z': rng.randint(10, 40), 'J': J(), 'helix': hu, 'pa': list(pau),
                     **gear_opt(None, with_E=False)}
            worm = {'type': 'wormgear', 'starts': rng.randint(1, 3), 'J': J(), 'helix': hworm, 'pa': list(pau),
                    'd': in_unit(rng, 'Length', rng.choice([10, 16, 20]) * 1e-3, ru) if rng.random() < optional_data else None}
            # a gear attached by a fixed joint only has no mating role: tooth forces cannot be computed for it
            g = {'type': 'spur', 'z': rng.randint(10, 60), 'J': J(), 'module': None, 'fw': None, 'E': None}
            ia, ib, ic = add(wheel), add(worm), add(g)
            rels.append(['joint', prev, ia])
            rels.append(['worm', ia, ib, f])
            rels.append(['joint', ib, ic])
            prev = ic
    if elems[prev - 1]['type'] in ('fly', 'wormgear'):
        # the external load must sit on a gear
        g = {'type': 'spur', 'z': rng.randint(10, 60), 'J': J(), 'module': None, 'fw': None, 'E': None}
        i = add(g)
        rels.append(['joint', prev, i])
        prev = i
    amp = load_amp if load_amp is not None else rng.choice([0.05, 1, 50, 500 if want_sl else 5])
    coef = [dy(rng, -1, 1) * amp, dy(rng, -1, 1) * amp * 0.01, dy(rng, -1, 1) * amp * 0.01, dy(rng, -1, 1) * amp * 0.1,
            dy(rng, -1, 1) * amp * 0.001 if rng.random() < 0.3 else 0.0]
    spec = {'motor': motor, 'elems': elems, 'rels': rels,
            'load': {'coef': coef, 'unit': rng.choice(list(SI['Torque'].keys())) if ru else 'Nm'},
            'init': {'pos': in_unit(rng, 'AngularPosition', dy(rng, -2, 2), ru),
                     # (now and then exactly at rest: 0 rpm, 0 deg/s ...)
                     'speed': in_unit(rng, 'AngularSpeed', dy(rng, -3, 3) if rng.random() > 0.15 else 0.0, ru)},
            'rules': None, 'ops': []}
    angle_init(rng, spec['init'])
    if want_sl and rng.random() < 0.12:
        motor['pwm0'] = 0.0      # a self-locking drive whose motor is switched off from the start
    if ru and rng.random() < 0.15:
        spec['load']['units'] = rng.sample(list(SI['Torque'].keys()), rng.randint(2, 3))      # answers in changing units
    if rng.random() < 0.15:
        spec['load']['numpy'] = True      # the load function returns numpy scalars
    if ru and rng.random() < 0.12:
        # the load callback converts (some of) its arguments in place to its favourite units
        spec['load']['inplace'] = [rng.choice([None, 'rad', 'deg']), rng.choice([None, 'rad/s', 'rpm']), rng.choice(['sec', 'sec', 'ms', None])]
    return spec


def angle_init(rng, ini, p=0.15):
    """a non-negative initial position may be given as an `Angle` (the non-negative sub-kind of AngularPosition),
    sometimes created in another unit and re-expressed in place"""
    if rng.random() < p:
        # far from zero: the library's Angle + AngularPosition raises ValueError when the sum is negative (the first
        # time step of a shaft that starts at an Angle and turns backwards) — not what these streams are about
        ini['pos_kind'] = 'Angle'
        ini['pos'] = in_unit(rng, 'Angle', dy(rng, 200, 400), True)
        if rng.random() < 0.5:
            ini['pos'] = list(ini['pos'][:2]) + [rng.choice([u for u in SI['Angle'] if u != ini['pos'][1]])]


def time_qty(rng, kind, si_value, random_units):
    """time quantities: keep to units in which the dyadic SI value is exactly representable most of the time"""
    if not random_units:
        return [si_value, 'sec']
    u = rng.choice(['sec', 'sec', 'ms', 'min', 'hour'])
    return [float(F(si_value) / SI[kind][u]), u]


def run_op(rng, *, random_units=True, steps=(4, 14), dt_si=None, unit=None, ctrl=True):
    dt = dt_si if dt_si is not None else 2.0 ** -rng.randint(3, 6)
    n = rng.randint(*steps)
    if unit is not None:
        dtq = [float(F(dt) / SI['Time'][unit]), unit]
        Tq = [float(F(dt * n) / SI['Time'][unit]), unit]
    else:
        dtq = time_qty(rng, 'TimeInterval', dt, random_units)
        Tq = time_qty(rng, 'TimeInterval', dt * n, random_units)
    return {'op': 'run', 'dt': dtq, 'T': Tq, 'stop': None, 'ctrl': ctrl}, dt, n


def const_rules(rng, horizon, random_units=True):
    """0-3 non-overlapping ConstantPWM windows on dyadic instants"""
    rules, t = [], 0.0
    for _ in range(rng.randint(0, 3)):
        s = t + dy(rng, 0, horizon / 4, 4)
        d = dy(rng, 0.0625, horizon / 3, 4)
        v = rng.choice([0, 1, -1, dy(rng, -1, 1, 3)])
        rules.append({'type': 'const', 'start': time_qty(rng, 'Time', s, random_units) if s > 0 else [0.0, 'sec'],
                      'dur': time_qty(rng, 'TimeInterval', d, random_units), 'value': v})
        if rng.random() < 0.2:
            # the user re-expresses the timer's start or duration object in place after the rule has been built
            key = rng.choice(['start', 'dur'])
            rules[-1]['late'] = {key: rng.choice([u for u in ('sec', 'ms', 'min', 'hour') if u != rules[-1][key][1]])}
        t = s + d + 0.0625
    return rules
