import Gearpy.Proofs.Grid
import Gearpy.Properties.C16
/-!
# C12 — continuation and reset/rerun reproduce the same history

* `run_split`: one run of `n₁ + n₂` steps equals a run of `n₁` steps followed by a continuation of
  `n₂` steps **on the same solver**, as whole states (records, time axis, live attributes, lock
  flag), from an empty or non-empty history alike; `run_split_units`: the continuation may express
  `dt` and `T` in another time unit — the instants it appends have the same SI values
  (`gridU_si` + `nSteps_si`).
* `stop_then_continue`: a continued run ended early by a stop condition after `k ≥ 1` of its `n` steps and then
  continued for the remaining `n − k` steps ends in the same state as one uninterrupted run of `n` steps.
* `rerun_eq`: after `reset` and re-applying the initial conditions, a schedule that starts with a
  run reproduces, record for record, what it produces from freshly built objects — for the same
  solver object and for a new one (the run clears the lock flag when the time axis is empty),
  **provided** the duty cycle restored by `reset` equals the one the motor had before the first
  run, or the powertrain is not self-locking and is controlled.
  The proviso is necessary (known finding K3): `reset` restores the duty cycle *recorded* at the
  first instant, i.e. after control was applied, while a fresh run's first lock check sees the
  attribute as it was before the run; `K3_witness` exhibits a self-locking chain whose controller
  commands `D = 0` at `t = 0` and whose rerun differs.
-/

namespace Gearpy.C12
open Gearpy

/-- C12: `run (n₁+n₂) = run n₁ ; run n₂` on the same solver (no stop condition) -/
theorem run_split (c : Cfg) (dt : Q) (n1 n2 : Nat) (s : St) (hn : 0 < n1) :
    run c dt (n1 + n2) none s =
      match run c dt n1 none s with
      | .error e => .error e
      | .ok s' => run c dt n2 none s' := by
  obtain ⟨k, rfl⟩ : ∃ k, n1 = k + 1 := ⟨n1 - 1, by omega⟩
  unfold run
  cases hl : lastTime s with
  | some t0 =>
    simp only
    rw [grid_append, loop_append]
    cases h1 : loop c dt none (grid t0 dt (k+1)) s with
    | error e => simp
    | ok s1 =>
      simp only
      have := loop_lastTime c dt _ s s1 (by unfold grid; simp [List.range_succ]) h1
      rw [this, grid_getLast]
  | none =>
    simp only
    cases h0 : compute c { s with locked := false } 0 with
    | error e => simp
    | ok s0 =>
      simp only
      rw [grid_append, loop_append]
      cases h1 : loop c dt none (grid 0 dt (k+1)) s0 with
      | error e => simp
      | ok s1 =>
        simp only
        have := loop_lastTime c dt _ s0 s1 (by unfold grid; simp [List.range_succ]) h1
        rw [this, grid_getLast]

theorem grid_getLast_eq (t0 dt : Q) (k : Nat) (hk : 0 < k) :
    (grid t0 dt k).getLast? = some (t0 + (k : Q) * dt) := by
  obtain ⟨j, rfl⟩ : ∃ j, k = j + 1 := ⟨k - 1, by omega⟩
  rw [grid_getLast]

/-- the loop over a grid, ended early by a stop condition after `k ≥ 1` of its `n` points and then continued
    over the remaining points, ends where the uninterrupted loop ends -/
theorem loop_stop_then_continue (c : Cfg) (dt : Q) (f : Rec → Bool) (t0 : Q) (n : Nat) (s s1 : St)
    (h : loop c dt (some f) (grid t0 dt n) s = .ok s1) :
    ∃ k, k ≤ n ∧ loop c dt none (grid t0 dt k) s = .ok s1 ∧
      loop c dt none (grid (t0 + (k : Q) * dt) dt (n - k)) s1 = loop c dt none (grid t0 dt n) s := by
  obtain ⟨us, vs, hts, hl, _, _⟩ := C16.stop_prefix c dt f _ s s1 h
  have hlen : us.length + vs.length = n := by
    have := congrArg List.length hts
    simpa [grid_length] using this.symm
  refine ⟨us.length, by omega, ?_, ?_⟩
  · have hg := grid_append t0 dt us.length (n - us.length)
    rw [show us.length + (n - us.length) = n by omega] at hg
    have := List.append_inj (hts.symm.trans hg) (by simp [grid_length])
    rw [← this.1]; exact hl
  · have hg := grid_append t0 dt us.length (n - us.length)
    rw [show us.length + (n - us.length) = n by omega] at hg
    have hsplit := List.append_inj (hts.symm.trans hg) (by simp [grid_length])
    rw [hg, loop_append, ← hsplit.1, hl]

/-- C12 with an early stop (continued runs): a run of `n` steps ended by a stop condition after `k ≥ 1` steps,
    then continued for the remaining `n − k` steps with the same time step, ends in the same state — records,
    time axis, live attributes, lock flag — as one uninterrupted run of `n` steps -/
theorem stop_then_continue (c : Cfg) (dt : Q) (f : Rec → Bool) (n : Nat) (s s1 : St) (t0 : Q)
    (hl : lastTime s = some t0) (h : run c dt n (some f) s = .ok s1) :
    ∃ k, k ≤ n ∧ s1.recs.length = s.recs.length + k ∧
      (0 < k → run c dt (n - k) none s1 = run c dt n none s) := by
  unfold run at h
  simp only [hl] at h
  obtain ⟨k, hk, hpre, hcont⟩ := loop_stop_then_continue c dt f t0 n s s1 h
  refine ⟨k, hk, ?_, ?_⟩
  · have := loop_times c dt _ s s1 hpre
    have := congrArg List.length this
    simpa [grid_length] using this
  · intro hpos
    have hlast : lastTime s1 = some (t0 + (k : Q) * dt) := by
      rw [loop_lastTime c dt _ s s1 (by intro hh; have := congrArg List.length hh; simp [grid_length] at this; omega) hpre]
      exact grid_getLast_eq t0 dt k hpos
    unfold run
    simp only [hlast, hl]
    exact hcont

/-- the instants appended by a continuation do not depend on the unit `dt`, `T` and the previous
    final instant are expressed in: two unit-carrying descriptions with equal SI magnitudes give
    the same SI grid -/
theorem run_split_units {T : Tbl} (g : T.Good) (last last' : Option Qty) (dt dt' sim sim' : Qty)
    (hd : IsTime dt) (hd' : IsTime dt') (hs : IsTime sim) (hs' : IsTime sim')
    (hl : ∀ l, last = some l → IsTime l) (hl' : ∀ l, last' = some l → IsTime l)
    (e1 : siMag T dt = siMag T dt') (e2 : siMag T sim = siMag T sim')
    (e3 : last.map (siMag T) = last'.map (siMag T)) :
    (gridU T last dt sim).map (siMag T) = (gridU T last' dt' sim').map (siMag T) := by
  rw [gridU_si g last dt sim hd hl, gridU_si g last' dt' sim' hd' hl',
      nSteps_si g dt sim hd hs, nSteps_si g dt' sim' hd' hs', e1, e2, e3]

/-- the first `compute` of a run that starts from an empty history depends only on the last
    element's position and speed and — through the lock check and an absent controller — on the
    duty-cycle attribute -/
theorem compute_fresh_eq (c : Cfg) (s s' : St) (t : Q)
    (hr : s.recs = []) (hr' : s'.recs = []) (hp : s.pos = s'.pos) (hv : s.speed = s'.speed)
    (hl : s.locked = false) (hl' : s'.locked = false)
    (hpwm : s.pwm = s'.pwm ∨ (c.sl = false ∧ c.control.isSome = true)) :
    compute c s t = compute c s' t := by
  have hlock : checkLock c.sl s.locked s.pwm ((upstream (c.links.map (·.ratio)) s.speed).headD 0) s.mtorque c.tolW c.tolT
      = checkLock c.sl s'.locked s'.pwm ((upstream (c.links.map (·.ratio)) s'.speed).headD 0) s'.mtorque c.tolW c.tolT := by
    rw [hl, hl', hv]
    rcases hpwm with h | ⟨hsl, _⟩
    · rw [h]
      unfold checkLock
      split
      · rfl
      · cases s.mtorque <;> cases s'.mtorque <;> simp <;> split <;> simp
    · unfold checkLock
      simp only [hsl, Bool.false_and, Bool.false_eq_true, if_false]
      cases s.mtorque <;> cases s'.mtorque <;> simp <;> (try split) <;> simp <;> (try split) <;> simp
  unfold compute
  simp only [hr, hr', hp, hv] at hlock ⊢
  rw [hlock]
  rcases hpwm with h | ⟨_, hc⟩
  · rw [h]
  · cases hcc : c.control with
    | none => rw [hcc] at hc; simp at hc
    | some f => simp only

/-- state of a powertrain after `reset` and re-application of the initial conditions -/
def afterReset (s : St) (p v : Q) : Except Err St :=
  match reset s with
  | .error e => .error e
  | .ok s1 => .ok { s1 with pos := p, speed := v }

/-- C12: after reset and re-applying the initial conditions, a schedule starting with a run
    reproduces what it produces from fresh objects (`St.init p v` with duty cycle `p0`) — same
    solver (`locked` arbitrary) or a new one -/
theorem rerun_eq (c : Cfg) (s sr : St) (p v p0 : Q) (dt : Q) (n : Nat) (stop) (rest : List Op)
    (hre : afterReset s p v = .ok sr)
    (hpwm : sr.pwm = p0 ∨ (c.sl = false ∧ c.control.isSome = true)) :
    exec c (Op.run dt n stop :: rest) sr = exec c (Op.run dt n stop :: rest) { St.init p v with pwm := p0 } := by
  have hrecs : sr.recs = [] ∧ sr.pos = p ∧ sr.speed = v := by
    unfold afterReset reset at hre
    split at hre
    · simp at hre
    · rename_i s1 h1
      split at h1
      · simp at h1
      · simp only [Except.ok.injEq] at h1 hre; subst h1; subst hre; simp
  obtain ⟨h1, h2, h3⟩ := hrecs
  simp only [exec, applyOp]
  have hrun : run c dt n stop sr = run c dt n stop { St.init p v with pwm := p0 } := by
    unfold run
    have e1 : lastTime sr = none := by simp [lastTime, h1]
    have e2 : lastTime { St.init p v with pwm := p0 } = none := by simp [lastTime, St.init]
    simp only [e1, e2]
    rw [compute_fresh_eq c { sr with locked := false } { ({ St.init p v with pwm := p0 } : St) with locked := false } 0
      (by simpa using h1) (by simp [St.init]) (by simpa [St.init] using h2) (by simpa [St.init] using h3)
      rfl rfl (by simpa [St.init] using hpwm)]
  rw [hrun]

/-- without controller the duty cycle never changes, so the proviso of `rerun_eq` holds -/
theorem compute_pwm_nocontrol (c : Cfg) (hc : c.control = none) (s s' : St) (t : Q)
    (h : compute c s t = .ok s') : s'.pwm = s.pwm ∧ ∀ r, s'.recs = s.recs ++ [r] → r.pwm = s.pwm := by
  unfold compute at h; simp only [hc] at h
  split at h
  · simp at h
  · split at h
    · simp at h
    · simp only [Except.ok.injEq] at h; subst h
      refine ⟨rfl, ?_⟩
      intro r hr; simp at hr; rw [← hr]

/-! ### K3: the proviso is necessary -/

/-- self-locking chain, controller commands `D = 0` from `t = 0`, initial speed 1 -/
def k3Cfg : Cfg :=
  { J0 := 1, links := [⟨30, 2/5, 1/2, true⟩], sl := true, tolW := 0, tolT := 0,
    motorTorque := fun w D => (1 - w / 100) * 2 * D, motorCurrent := fun _ _ => none,
    load := fun _ _ _ => 0, control := some fun _ => .ok 0 }

def firstSpeeds (r : Except Err St) : List Q :=
  match r with | .ok s => (s.recs.headD default).speed | .error _ => []

/-- the first run records the initial speed at `t = 0`; after reset + same initial conditions the
    rerun records `0` there (it starts held, because `reset` restored the commanded `D = 0`) -/
theorem K3_witness :
    firstSpeeds (exec k3Cfg [.run (1/4) 2 none] (St.init 0 1)) = [30, 1] ∧
    firstSpeeds (exec k3Cfg [.run (1/4) 2 none, .reset, .setInitial 0 1, .run (1/4) 2 none] (St.init 0 1)) = [0, 0] := by
  decide +kernel

def k3S1 : St := match exec k3Cfg [.run (1/4) 2 none] (St.init 0 1) with | .ok s => s | .error _ => default
def k3Sr : St := match afterReset k3S1 0 1 with | .ok s => s | .error _ => default

theorem K3_reset_ok : afterReset k3S1 0 1 = .ok k3Sr := by decide +kernel

theorem K3_differs :
    firstSpeeds (exec k3Cfg [.run (1/4) 2 none] k3Sr) ≠ firstSpeeds (exec k3Cfg [.run (1/4) 2 none] (St.init 0 1)) := by
  decide +kernel

/-- the full-strength statement (no proviso) is false of the model, hence of the code it mirrors -/
theorem rerun_full_false :
    ¬ (∀ (c : Cfg) (s sr : St) (p v p0 dt : Q) (n : Nat) (rest : List Op), afterReset s p v = .ok sr →
        exec c (Op.run dt n none :: rest) sr = exec c (Op.run dt n none :: rest) { St.init p v with pwm := p0 }) := by
  intro h
  apply K3_differs
  rw [h k3Cfg k3S1 k3Sr 0 1 1 (1/4) 2 [] K3_reset_ok]
  rfl

/-! ### non-vacuity of `rerun_eq`: an uncontrolled run, reset, rerun -/
example : (match afterReset ⟨[default], 3, 4, 5, none, 1, true⟩ 0 1 with | .ok s => s.recs.length | .error _ => 7) = 0 := by
  decide +kernel

end Gearpy.C12
