"""C07 (metamorphic unit independence) and C04 (convergence to the closed-form solution)."""
import copy
import math
from fractions import Fraction as F

from harness import gen, sim, sim_props, ctl_h
from harness.sim_props import near, n_inst, vscale
from harness.si_spec import SI

# ---------------------------------------------------------------------------------------------
# C07
# ---------------------------------------------------------------------------------------------


class UnitCycler:
    """covers every kind's unit list exhaustively across a campaign (round-robin), randomised start"""

    def __init__(self, rng):
        self.pos = {k: rng.randrange(len(v)) for k, v in SI.items()}
        self.used = {k: set() for k in SI}
        self.rng = rng
        self.inplace = 0

    def next(self, kind, avoid=None):
        units = list(SI[kind].keys())
        for _ in range(len(units)):
            self.pos[kind] = (self.pos[kind] + 1) % len(units)
            u = units[self.pos[kind]]
            if u != avoid or len(units) == 1:
                break
        self.used[kind].add(u)
        return u


def reexpress(cyc, kind, vu, keep_deg_exact=False):
    if vu is None:
        return None
    u = cyc.next(kind, avoid=vu[1])
    if keep_deg_exact and u == 'deg':
        u = cyc.next(kind, avoid='deg')
    out = [float(F(vu[0]) * SI[kind][vu[1]] / SI[kind][u]), u]
    if cyc.rng.random() < 0.2:
        # the other way of re-expressing an input: the object is created in the original unit and converted in place
        cyc.inplace += 1
        out.append(vu[1])
    return out


def reunit(cyc, spec):
    """the same model with every input quantity expressed in another unit of its kind"""
    s = copy.deepcopy(spec)
    m = s['motor']
    m['w0'] = reexpress(cyc, 'AngularSpeed', m['w0'])
    m['tmax'] = reexpress(cyc, 'Torque', m['tmax'])
    m['J'] = reexpress(cyc, 'InertiaMoment', m['J'])
    m['i0'] = reexpress(cyc, 'Current', m['i0'])
    m['imax'] = reexpress(cyc, 'Current', m['imax'])
    shared = {}

    def same(kind, vu, **kw):
        # quantities that must stay equal between two mated gears (module, helix, pressure angle) are
        # re-expressed identically: the mating's (in)equality test is not what this property is about
        if vu is None:
            return None
        # (keyed by the magnitude: two gears whose modules are the same magnitude written in two ways get one and the same
        # re-expression — in the same unit the code compares exactly, and two roundings of one magnitude may differ by an ulp)
        mag = float(F(vu[0]) * SI[kind][vu[1]])
        key = (kind, float(f'{mag:.11e}'))
        if key not in shared:
            shared[key] = reexpress(cyc, kind, vu, **kw)
        return list(shared[key])
    for e in s['elems']:
        e['J'] = reexpress(cyc, 'InertiaMoment', e['J'])
        if e.get('module') is not None:
            e['module'] = same('Length', e['module'])
        if e.get('fw') is not None:
            e['fw'] = reexpress(cyc, 'Length', e['fw'])
        if e.get('d') is not None:
            e['d'] = reexpress(cyc, 'Length', e['d'])
        if e.get('E') is not None:
            e['E'] = reexpress(cyc, 'Stress', e['E'])
        if e.get('helix') is not None:
            e['helix'] = same('Angle', e['helix'])
        if e.get('pa') is not None:
            e['pa'] = same('Angle', e['pa'], keep_deg_exact=True)
    s['load']['unit'] = cyc.next('Torque', avoid=s['load']['unit'])
    s['init'] = {'pos': reexpress(cyc, 'AngularPosition', s['init']['pos']), 'speed': reexpress(cyc, 'AngularSpeed', s['init']['speed'])}
    for rl in s.get('rules') or []:
        if rl['type'] == 'const':
            rl['start'] = reexpress(cyc, 'Time', rl['start'])
            rl['dur'] = reexpress(cyc, 'TimeInterval', rl['dur'])
        else:
            rl['target'] = reexpress(cyc, 'AngularPosition', rl['target'])
            if 'brake' in rl:
                rl['brake'] = reexpress(cyc, 'Angle', rl['brake'])
            if 'ilim' in rl:
                rl['ilim'] = reexpress(cyc, 'Current', rl['ilim'])
    for op in s['ops']:
        if op['op'] == 'run':
            op['dt'] = reexpress(cyc, 'TimeInterval', op['dt'])
            op['T'] = reexpress(cyc, 'TimeInterval', op['T'])
            st = op.get('stop')
            if st is not None:
                kind = {'enc': 'AngularPosition', 'tac': 'AngularSpeed', 'amp': 'Current'}[st['sensor']]
                st['thr'] = reexpress(cyc, kind, st['thr'])
        elif op['op'] == 'init':
            op['pos'] = reexpress(cyc, 'AngularPosition', op['pos'])
            op['speed'] = reexpress(cyc, 'AngularSpeed', op['speed'])
    if cyc.rng.random() < 0.3:
        # ... and parameter objects of the live components are re-expressed in place between construction and a run
        sim_props.inject_reunit(cyc.rng, s, s['ops'])
    return s


def traces_differ(tr1, tr2, rel=1e-7):
    if (tr1['build_error'] is None) != (tr2['build_error'] is None):
        return f"construction succeeds in one unit system only: {tr1.get('build_error')} / {tr2.get('build_error')} ({tr1.get('build_msg') or tr2.get('build_msg')})"
    if tr1['build_error'] is not None:
        return None
    e1, e2 = tr1['error'], tr2['error']

    def where(tr, e):
        # which *run* of the schedule failed (the variant may contain extra in-place re-expression ops)
        return sum(1 for r in tr['ops'][:e[0] + 1] if r['op'] == 'run'), tr['ops'][e[0]]['op'] if e[0] < len(tr['ops']) else None
    if (e1 is None) != (e2 is None) or (e1 is not None and (where(tr1, e1), e1[1]) != (where(tr2, e2), e2[1])):
        return f'simulation outcome differs: {e1} vs {e2}'
    if len(tr1['time']) != len(tr2['time']):
        return f"{len(tr1['time'])} vs {len(tr2['time'])} recorded instants (stop instant / time axis differ)"
    if tr1['sl'] != tr2['sl']:
        return 'self-locking flag differs'
    n = min(n_inst(tr1), n_inst(tr2))
    for j in range(n):
        if not near(tr1['time'][j], tr2['time'][j], max(abs(tr1['time'][j]), 1e-9), 1e-10):
            return f"time axis differs at instant {j}: {tr1['time'][j]} vs {tr2['time'][j]}"
    for ei, (a, b) in enumerate(zip(tr1['els'], tr2['els'])):
        if set(a) != set(b):
            return f'element {ei} records different variables: {sorted(set(a) ^ set(b))}'
        for var in a:
            sc = max(vscale(tr1, var), 1e-12) if var != 'pwm' else 1.0
            for j in range(n):
                if not (a[var][j] == b[var][j] or near(a[var][j], b[var][j], sc, rel)):
                    return f'{var} of element {ei} differs at instant {j}: {a[var][j]} vs {b[var][j]}'
    return None


def eval_meta(ctx, case):
    s1, s2 = case['spec'], case['spec2']
    tr1, b1 = sim.simulate(s1)
    tr2, b2 = sim.simulate(s2)
    ctx.case_done(case, nontrivial=tr1['build_error'] is None and n_inst(tr1) >= 3)
    # both unit systems against the one SI-level model (short histories without state-dependent rules)
    if ctx.driver.available and tr1['build_error'] is None and tr2['build_error'] is None:
        steps = sum(r.get('n_after', 0) - r['n_before'] for r in tr1['ops'] if r['op'] == 'run')
        simple_rules = all(r['type'] == 'const' for r in (s1.get('rules') or []))
        if steps <= 17 and simple_rules and s1['load']['coef'][4] == 0:
            for s_, tr_ in ((s1, tr1), (s2, tr2)):
                st, recs = sim.parse_hist(ctx.driver.ask([sim.hist_line(s_, tr_)])[0])
                dm = sim.compare_hist(tr_, st, recs)
                if dm is not None and not (sim_props.near_threshold(s_, tr_) or guard_boundary(s_)):
                    ctx.mismatch(case, dm, 'model history differs')
        else:
            for s_, tr_ in ((s1, tr1), (s2, tr2)):
                reqs = sim.lockstep_requests(s_, tr_, max_steps=12)
                for (j, _), ans in zip(reqs, ctx.driver.ask([ln for _, ln in reqs])):
                    dm = sim.compare_step(tr_, j, ans)
                    if dm is not None:
                        if not (sim_props.near_threshold(s_, tr_) or rule_boundary(s_, tr_)):
                            ctx.mismatch(case, dm, ans[:200])
                        break
    d = traces_differ(tr1, tr2)
    if d is None and tr1['build_error'] is None and tr1['error'] is None and len(tr1['time']) >= 3:
        # a snapshot of both systems at the same physical instant between two recorded ones (default output units)
        d = snapshots_differ(ctx, tr1, b1, tr2, b2)
        if d is None and ctx.rng.random() < 0.4:
            # ... and the exported files of both systems (default output units)
            d = exports_differ(ctx, b1, b2)
    if d is None:
        return
    if (tr1['build_error'] is None) != (tr2['build_error'] is None):
        why = equality_boundary(s1) or equality_boundary(s2)
        if why:
            ctx.count('pair excluded: ' + why)
            return
    if tr1['build_error'] is None and tr2['build_error'] is None:
        why = sim_props.near_threshold(s1, tr1) or sim_props.near_threshold(s2, tr2) or guard_boundary(s1) or rule_boundary(s1, tr1) or rule_boundary(s2, tr2)
        if why:
            ctx.count('pair excluded: ' + why)
            return
    ctx.violation(case, {'why': 'the same model in other units behaves differently: ' + d})


def snapshots_differ(ctx, tr1, b1, tr2, b2):
    import gearpy.units as U
    j = ctx.rng.randrange(len(tr1['time']) - 1)
    t = tr1['time'][j] + ctx.rng.uniform(0.2, 0.8) * (tr1['time'][j + 1] - tr1['time'][j])
    out = []
    for b, u in ((b1, 'sec'), (b2, ctx.rng.choice(['sec', 'ms', 'min']))):
        try:
            df = b.pt.snapshot(target_time=U.Time(float(F(t) / SI['Time'][u]), u), print_data=False)
            out.append(('ok', df))
        except Exception as ex:  # noqa: BLE001
            out.append(('err', type(ex).__name__))
    if out[0][0] != out[1][0]:
        return f'snapshot at t = {t} s succeeds in one unit system only: {out[0][0]} / {out[1]}'
    if out[0][0] == 'err':
        return None
    d1, d2 = out[0][1], out[1][1]
    if list(d1.columns) != list(d2.columns) or len(d1) != len(d2):
        return 'snapshots have different shapes'
    import math as _m
    for col in d1.columns:
        for k, (x, y) in enumerate(zip(d1[col].tolist(), d2[col].tolist())):
            if isinstance(x, (int, float)) and isinstance(y, (int, float)):
                if _m.isnan(x) and _m.isnan(y):
                    continue
                sc = max(abs(float(v)) for v in d1[col].tolist() if isinstance(v, (int, float)) and not _m.isnan(v)) if any(
                    isinstance(v, (int, float)) and not _m.isnan(v) for v in d1[col].tolist()) else 1.0
                if not (abs(x - y) <= 1e-6 * max(sc, 1e-9)):
                    return f'snapshot at t = {t} s: {col!r} of row {k} is {x} vs {y}'
    ctx.count('snapshot pairs compared')
    return None


def exports_differ(ctx, b1, b2):
    import csv
    import os
    import tempfile
    tables = []
    for b in (b1, b2):
        with tempfile.TemporaryDirectory() as d:
            try:
                b.pt.export_time_variables(folder_path=d)
            except Exception as ex:  # noqa: BLE001
                tables.append(('err', type(ex).__name__))
                continue
            files = {}
            for fn in sorted(os.listdir(d)):
                with open(os.path.join(d, fn), newline='') as fh:
                    files[fn] = list(csv.reader(fh))
            tables.append(('ok', files))
    if tables[0][0] != tables[1][0]:
        return f'export succeeds in one unit system only: {tables[0][0]} / {tables[1][0]}'
    if tables[0][0] == 'err':
        return None
    f1, f2 = tables[0][1], tables[1][1]
    if sorted(f1) != sorted(f2):
        return 'exports produce different files'
    for fn in f1:
        r1, r2 = f1[fn], f2[fn]
        if r1[0] != r2[0] or len(r1) != len(r2):
            return f'exported file {fn}: different header or number of rows'
        for c in range(len(r1[0])):
            try:
                x1 = [float(r[c]) for r in r1[1:]]
                x2 = [float(r[c]) for r in r2[1:]]
            except ValueError:
                continue
            sc = max([abs(v) for v in x1 if v == v] + [1e-9])
            for k, (x, y) in enumerate(zip(x1, x2)):
                if x != x and y != y:
                    continue
                if not abs(x - y) <= 1e-6 * sc:
                    return f'exported file {fn}: column {r1[0][c]!r} row {k} is {x} vs {y}'
    ctx.count('export pairs compared')
    return None


def equality_boundary(spec):
    """two mated gears carry the same magnitude (module, helix or pressure angle) in the same unit as two doubles one
    rounding apart: the code's same-unit comparison is exact there, its cross-unit comparison tolerant"""
    for r in sim.all_rels(spec):
        if r[0] not in ('gear', 'worm') or min(r[1], r[2]) < 1:
            continue
        a, b = spec['elems'][r[1] - 1], spec['elems'][r[2] - 1]
        for k in ('module', 'helix', 'pa'):
            x, y = a.get(k), b.get(k)
            if x and y and x[1] == y[1] and x[0] != y[0] and abs(x[0] - y[0]) <= 1e-9 * max(abs(x[0]), abs(y[0])):
                return f'{k} of two mated gears equal up to rounding in the same unit'
            if x and y and len(x) != len(y) and abs(sim.si('Length' if k == 'module' else 'Angle', x[0], x[1]) -
                                                   sim.si('Length' if k == 'module' else 'Angle', y[0], y[1])) <= 1e-9 * abs(sim.si('Length' if k == 'module' else 'Angle', x[0], x[1])):
                return f'{k} of two mated gears: one of them converted in place'
    return None


def guard_boundary(spec):
    for op in spec['ops']:
        if op['op'] == 'run':
            q = float(F(op['T'][0]) * SI['TimeInterval'][op['T'][1]] / (F(op['dt'][0]) * SI['TimeInterval'][op['dt'][1]]))
            if abs(q - round(q)) > 1e-6:
                return 'T is not a multiple of dt'
    return None


def rule_boundary(spec, tr):
    if not spec.get('rules') or tr.get('build_error') or not tr.get('els'):
        return None
    for st in ctl_h.add_time_units(spec, tr, ctl_h.states_of(tr)):
        for rl in spec['rules']:
            o = ctl_h.rule_oracle(rl, st, tr)
            # (only decisions within rounding of a threshold excuse a difference between two unit systems; a state in
            # which the rule's own arithmetic fails is the same state in both)
            if o[0] == 'skip' and 'within rounding' in o[1]:
                return o[1]
    return None


def run_C07(ctx):
    sim_props.prep()
    rng = ctx.rng
    cyc = UnitCycler(rng)
    n = ctx.budget(80, 2500) * ctx.boost
    for k in range(n):
        spec = gen.gen_spec(rng, random_units=True, sl_bias=0.3, optional_data=0.6)
        dt = 2.0 ** -rng.randint(3, 6)
        total = rng.randint(5, 25)
        r = rng.random()
        if r < 0.35:
            spec['rules'] = gen.const_rules(rng, total * dt, random_units=True)
        elif r < 0.55:
            spec['rules'] = ctl_h.gen_rules(rng, spec, total * dt, len(spec['elems']) + 1)
            spec['load']['coef'] = [abs(spec['load']['coef'][0]), 0.0, 0.0, 0.0, 0.0]
            if rng.random() < 0.3:
                # an assisting load (the rules' static error is then negative — whatever the code does with it, it does the
                # same in every unit system)
                spec['load']['coef'][0] = -spec['load']['coef'][0]
                # one braking rule that is applicable from the start (target within the braking angle of the initial position)
                spec['rules'] = [{'type': 'reach', 'enc': len(spec['elems']),
                                  'target': gen.in_unit(rng, 'AngularPosition', sim.si('AngularPosition', *spec['init']['pos'][:2]) + rng.uniform(0.1, 1.0), True),
                                  'brake': gen.in_unit(rng, 'Angle', rng.uniform(2, 6), True)}]
        ops = []
        op, _, _ = gen.run_op(rng, dt_si=dt, steps=(total, total))
        if rng.random() < 0.3:
            op['stop'] = sim_props.random_stop(rng, spec)
        ops.append(op)
        if rng.random() < 0.3:
            op2, _, _ = gen.run_op(rng, dt_si=dt, steps=(3, 8))
            ops.append(op2)
        spec['ops'] = ops
        case = {'t': 'meta', 'spec': spec, 'spec2': reunit(cyc, spec)}
        eval_meta(ctx, case)
    # the same objects, re-expressed while in use: an uncontrolled run, the motor's parameter objects converted in
    # place, a continuation — against the same schedule without the conversions
    for _ in range(ctx.budget(10, 200)):
        spec = gen.gen_spec(rng, random_units=True, sl_bias=0.2, optional_data=0.4, currents=rng.random() < 0.8)
        dt = 2.0 ** -rng.randint(3, 6)
        o1, _, _ = gen.run_op(rng, dt_si=dt, steps=(4, 12))
        o2, _, _ = gen.run_op(rng, dt_si=dt, steps=(4, 12))
        spec['ops'] = [o1, o2]
        spec2 = copy.deepcopy(spec)
        for attr, kind in rng.sample(sim_props.REUNIT['motor'], 3):
            spec2['ops'].insert(1, {'op': 'reunit', 'obj': 0, 'attr': attr, 'unit': rng.choice(list(SI[kind].keys()))})
        eval_meta(ctx, {'t': 'meta', 'spec': spec, 'spec2': spec2})
    # a timed rule whose window straddles a continuation written in another time unit (the same rule / timer objects
    # serve both runs): against the same schedule with every quantity re-expressed, and against the SI-level model
    for _ in range(ctx.budget(12, 200)):
        spec = gen.gen_spec(rng, random_units=True, sl_bias=0.2, optional_data=0.4)
        dt = 2.0 ** -rng.randint(3, 5)
        n1, n2 = rng.randint(3, 8), rng.randint(3, 8)
        u1, u2 = rng.sample(['sec', 'ms', 'min', 'hour'], 2)
        o1, _, _ = gen.run_op(rng, dt_si=dt, steps=(n1, n1), unit=u1)
        o2, _, _ = gen.run_op(rng, dt_si=dt, steps=(n2, n2), unit=u2)
        # (edges half a step away from every instant: no decision within rounding of a threshold)
        start = dt * (rng.randint(0, n1 - 1) + 0.5)
        end = dt * (n1 + rng.randint(1, n2 - 1) + 0.5)
        spec['rules'] = [{'type': 'const', 'start': gen.time_qty(rng, 'Time', start, True),
                          'dur': gen.time_qty(rng, 'TimeInterval', end - start, True),
                          'value': rng.choice([0, -1, gen.dy(rng, -1, 1, 3)])}]
        spec['ops'] = [o1, o2]
        eval_meta(ctx, {'t': 'meta', 'spec': spec, 'spec2': reunit(cyc, spec)})
    # the inputs that used to fail: worm pressure angles given in every unit, continuation in another time unit
    for pa in (14.5, 20.0, 25.0, 30.0):
        for u in SI['Angle']:
            spec = worm_spec([pa, 'deg'])
            spec2 = worm_spec(gen.in_unit(rng, 'Angle', math.radians(pa), False, unit=u) if u != 'deg' else [pa, 'deg'])
            eval_meta(ctx, {'t': 'meta', 'spec': spec, 'spec2': spec2})
    ctx.count('inputs re-expressed by in-place conversion', cyc.inplace)
    for kind, used in cyc.used.items():
        ctx.count(f'units of {kind} used: {len(used)}/{len(SI[kind])}')
    ctx.rule = ('random models and schedules (controllers of all four kinds, stop conditions, continuations) run twice: as '
                'generated and with every input quantity re-expressed in another unit of its kind (round-robin so that every '
                "kind's unit list is covered across the campaign); success/failure, stop instant and every recorded variable "
                'compared in SI; pairs with a discrete decision within rounding of its threshold are excluded and counted; '
                'non-trivial = built and at least 3 instants')


def worm_spec(pa):
    return {'motor': {'w0': [100.0, 'rad/s'], 'tmax': [2.0, 'Nm'], 'J': [1.0, 'kgm^2'], 'i0': None, 'imax': None, 'pwm0': None},
            'elems': [{'type': 'wormgear', 'starts': 1, 'J': [0.5, 'kgm^2'], 'helix': [10.0, 'deg'], 'pa': list(pa), 'd': [20.0, 'mm'], 'name': 'e1'},
                      {'type': 'wormwheel', 'z': 30, 'J': [0.5, 'kgm^2'], 'helix': [10.0, 'deg'], 'pa': list(pa), 'module': [1.0, 'mm'],
                       'fw': [10.0, 'mm'], 'E': None, 'name': 'e2'}],
            'rels': [['joint', 0, 1], ['worm', 1, 2, 0.05]], 'load': {'coef': [0.5, 0, 0, 0, 0], 'unit': 'Nm'},
            'init': {'pos': [0.0, 'rad'], 'speed': [0.0, 'rad/s']}, 'rules': None,
            'ops': [{'op': 'run', 'dt': [0.125, 'sec'], 'T': [1.0, 'sec'], 'stop': None, 'ctrl': True},
                    {'op': 'run', 'dt': [125.0, 'ms'], 'T': [500.0, 'ms'], 'stop': None, 'ctrl': True}]}


def replay_C07(ctx, case):
    sim_props.prep()
    eval_meta(ctx, case)


# ---------------------------------------------------------------------------------------------
# C04
# ---------------------------------------------------------------------------------------------

def c04_case(rng):
    spec = gen.gen_spec(rng, random_units=rng.random() < 0.5, sl_bias=0.0, optional_data=0.0, allow_rev_worm=True, max_stages=3)
    spec['init'].pop('pos_kind', None)       # long horizons: positions of either sign
    spec['init']['pos'] = spec['init']['pos'][:2]
    L = rng.choice([0.0, rng.uniform(0.01, 0.8), rng.uniform(0.8, 3.0), -rng.uniform(0.01, 1.0)])
    spec['load']['coef'] = [L, 0.0, 0.0, 0.0, 0.0]
    D = rng.choice([1.0, 1.0, rng.uniform(0.3, 1.0), -rng.uniform(0.3, 1.0), rng.uniform(-0.02, 0.02), 0.0])
    spec['motor']['pwm0'] = D
    if rng.random() < 0.3:
        # the constant duty cycle is commanded by a controller (one ConstantPWM rule covering the whole run)
        spec['rules'] = [{'type': 'const', 'start': [0.0, 'sec'], 'dur': [1e30, 'sec'], 'value': D}]   # (slow chains have horizons beyond 1e10 s)
    pre = []
    if rng.random() < 0.4:
        sim_props.inject_redeclare(rng, spec, pre)      # e.g. one leg of an efficiency sweep on existing objects
    return {'t': 'c04', 'spec': spec, 'pre': pre, 'kT': rng.uniform(2.0, 5.0), 'h0': rng.uniform(0.1, 0.2),
            'sweep': rng.random() < 0.35}


def closed_form(spec, tr):
    m = tr['motor']
    D = spec['motor']['pwm0']
    P = 1.0
    G = 1.0
    for r, e in zip(tr['ratios'], tr['effs']):
        P *= r
        G *= e * r
    if m['i0'] is None:
        a, b = m['tmax'], m['tmax'] / m['w0']
    else:
        pmin = m['i0'] / m['imax']
        if abs(D) <= pmin:
            a = b = 0.0
        else:
            tm = m['tmax'] * ((D * m['imax'] - m['i0']) if D > 0 else (D * m['imax'] + m['i0'])) / (m['imax'] - m['i0'])
            a, b = tm, tm / (D * m['w0'])
    Lload = spec['load']['coef'][0]
    J = sim_props.jeq(tr)
    return a * G - Lload, b * P * G, J


def eval_c04(ctx, case):
    spec = case['spec']
    pre = case.get('pre', [])
    if pre:
        ctx.count('relation re-declared after the powertrain and the solver were built')
    probe = dict(spec, ops=pre + [{'op': 'run', 'dt': [0.5, 'sec'], 'T': [1.0, 'sec'], 'stop': None, 'ctrl': True}])
    tr0, _ = sim.simulate(probe)
    if tr0['build_error'] or tr0['error'] or tr0['sl']:
        ctx.count('case not usable')
        return
    A, B, J = closed_form(spec, tr0)
    w0 = tr0['els'][-1]['angular speed'][0]
    th0 = tr0['els'][-1]['angular position'][0]
    ctx.case_done(case, nontrivial=True)
    if B <= 0:
        ctx.count('dead zone / no speed dependence (constant acceleration)')
        kappa = 0.0
        dt0 = 2.0 ** -4
        steps0 = 16
    else:
        kappa = B / J
        dt0 = case['h0'] / kappa
        dt0 = 2.0 ** math.floor(math.log2(dt0))
        steps0 = max(4, int(round(case['kT'] / (kappa * dt0))))
        ctx.count('load ' + ('above stall' if A < 0 else 'below stall'))
    errs = []
    for k in range(4):
        dt = dt0 / 2 ** k
        n = steps0 * 2 ** k
        if n > 1200:
            break
        lead = []
        if case.get('sweep') and k > 0:
            # the usual way to sweep the time step on one chain: the same Solver, reset and the initial conditions again
            lead = [{'op': 'run', 'dt': [2 * dt, 'sec'], 'T': [2 * dt * 4, 'sec'], 'stop': None, 'ctrl': True}, {'op': 'reset'},
                    {'op': 'init', 'pos': spec['init']['pos'], 'speed': spec['init']['speed']}]
            if spec['motor'].get('pwm0') is not None:
                lead.append({'op': 'pwm', 'v': spec['motor']['pwm0']})
        s = dict(spec, ops=pre + lead + [{'op': 'run', 'dt': [dt, 'sec'], 'T': [dt * n, 'sec'], 'stop': None, 'ctrl': True}])
        tr, _ = sim.simulate(s)
        if tr['error'] is not None or len(tr['time']) != n + 1:
            ctx.violation(case, {'why': f"run with dt = {dt} failed or has the wrong length: {tr['error']}, {len(tr['time'])} instants for {n} steps"})
            return
        last = tr['els'][-1]
        worst_w = worst_p = 0.0
        for mstep in range(n + 1):
            t = mstep * dt
            if kappa > 0:
                winf = A / B
                ex = math.exp(-kappa * t)
                w_exact = winf + (w0 - winf) * ex
                p_exact = th0 + winf * t + (w0 - winf) * (1 - ex) / kappa
                bound_w = abs(w0 - winf) * (kappa * t) * (kappa * dt)   # C04.speed_error_bound
                bound_p = abs(w0 - winf) * (kappa * t + 1) * dt   # C04.position_error_bound
            else:
                acc = A / J
                w_exact = w0 + acc * t
                p_exact = th0 + w0 * t + acc * t * t / 2
                bound_w = 0.0
                bound_p = abs(acc) * t * dt / 2   # C04.const_acc_pos (exact)
            ew = abs(last['angular speed'][mstep] - w_exact)
            ep = abs(last['angular position'][mstep] - p_exact)
            scale_w = max(abs(w0), abs(w_exact), 1e-9)
            scale_p = max(abs(th0), abs(p_exact), 1e-9)
            if ew > bound_w * (1 + 1e-6) + 1e-9 * scale_w:
                ctx.violation(case, {'why': f'speed error {ew} at t = {t} (dt = {dt}) exceeds the first-order bound {bound_w}', 'kappa': kappa})
                return
            if ep > bound_p * (1 + 1e-6) + 1e-9 * scale_p:
                ctx.violation(case, {'why': f'position error {ep} at t = {t} (dt = {dt}) exceeds the first-order bound {bound_p}', 'kappa': kappa})
                return
            worst_w, worst_p = max(worst_w, ew), max(worst_p, ep)
        errs.append((dt, ew, ep, scale_w, scale_p))
        if k == 0 and ctx.driver.available:
            reqs = sim.lockstep_requests(s, tr, max_steps=25)
            for (j, _), ans in zip(reqs, ctx.driver.ask([ln for _, ln in reqs])):
                d = sim.compare_step(tr, j, ans)
                if d is not None:
                    ctx.mismatch(case, d, ans[:200])
                    break
    # measured order (a test, not a theorem): the error at the final time roughly halves with dt
    for (dta, ewa, epa, sw, sp), (dtb, ewb, epb, _, _) in zip(errs, errs[1:]):
        for ea, eb, sc, what in ((ewa, ewb, sw, 'speed'), (epa, epb, sp, 'position')):
            if ea > 1e-7 * sc and eb > 1e-7 * sc:
                ratio = ea / eb
                ctx.count('order measurements')
                if not (1.5 <= ratio <= 2.7):
                    ctx.count(f'order outside 0.6-1.4 ({what})')
                    if not (1.2 <= ratio <= 3.5):
                        ctx.violation(case, {'why': f'{what} error at the final time goes from {ea} to {eb} when dt is halved (ratio {ratio:.2f}, expected about 2)'})
                        return


def run_C04(ctx):
    sim_props.prep()
    rng = ctx.rng
    for _ in range(ctx.budget(25, 500) * ctx.boost):
        eval_c04(ctx, c04_case(rng))
    # corner: a controller commanding a duty cycle of exactly 0 (coasting) and of exactly +-1
    for D in [0.0, 0.0, 1.0, -1.0][:ctx.budget(3, 4)]:
        case = c04_case(rng)
        case['spec']['motor']['pwm0'] = D
        case['spec']['rules'] = [{'type': 'const', 'start': [0.0, 'sec'], 'dur': [1e30, 'sec'], 'value': D}]   # (slow chains have horizons beyond 1e10 s)
        eval_c04(ctx, case)
    ctx.rule = ('non-self-locking chains, constant loads below and above stall (either sign), constant duty cycles (full, partial, '
                'reversed, inside the dead zone, exactly 0; set on the motor or commanded by a controller), horizons of 2-5 time constants, dt, dt/2, dt/4, dt/8 with k*dt <= 0.2; at every '
                'instant speed and position are compared with the closed-form solution against the proved first-order bound; '
                'the halving of the error is measured (test); every case is non-trivial')


def replay_C04(ctx, case):
    sim_props.prep()
    eval_c04(ctx, case)
