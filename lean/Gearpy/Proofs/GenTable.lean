import Gearpy.Proofs.Units
import Gearpy.Generated.Tables
/-!
# The table generated from the source satisfies `Tbl.Good`
(re-proved on every run against the regenerated `Gearpy/Generated/Tables.lean`)
-/
namespace Gearpy
open Kind

def allKinds : List Kind := [angPos, angle, angSpeed, angAcc, inertia, torque, time, timeInt, length, surface, force, stress, current]

theorem mem_allKinds (k : Kind) : k ∈ allKinds := by cases k <;> simp [allKinds]

theorem gen_factors_pos : ∀ k ∈ allKinds, (Gen.factors k).all (fun x => decide (0 < x)) = true := by
  decide +kernel

theorem gen_good : Gen.tbl.Good where
  pos := by
    intro k u
    have h := gen_factors_pos k (mem_allKinds k)
    simp only [Gen.tbl]
    rw [List.getD_eq_getElem?_getD]
    cases hu : (Gen.factors k)[u]? with
    | none => simp
    | some x =>
      have hx : x ∈ Gen.factors k := List.mem_of_getElem? hu
      have := List.all_eq_true.mp h x hx
      simpa using this
  si1 := by intro k; cases k <;> decide +kernel
  fam := by intro k u; cases k <;> rfl
  tolpos := by decide +kernel


end Gearpy
