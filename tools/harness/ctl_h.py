"""C14 (arbitration) and C15 (rule windows / values): state-level rule applications and whole
controlled simulations, against the documented formulas (oracle) and the Lean model."""
import math
from fractions import Fraction as F

from common import R, parse_num
from harness import gen, sim, sim_props
from harness.sim_props import near, n_inst, motor_law, current_law
from harness.si_spec import SI

import gearpy.units as U


def sif(kind, vu):
    return float(F(vu[0]) * SI[kind][vu[1]])


def eta_total(tr):
    e = 1.0
    for x, sp in zip(tr['effs'], tr['spur']):
        if sp:
            e *= x
    return e


def rule_oracle(rl, st, tr):
    """documented behaviour of one rule in state `st` (SI): returns ('none',) | ('val', v) | ('skip', why)
    st: t, pos[], speed[], load0, first_load0"""
    m = tr['motor']
    t = rl['type']
    if t == 'const':
        s, d = sif('Time', rl['start']), sif('TimeInterval', rl['dur'])
        for edge in (s, s + d):
            if abs(st['t'] - edge) <= 1e-9 * max(1.0, abs(edge)) and st['t'] != edge:
                return ('skip', 'time within rounding of a window edge')
        # units the instant has been expressed in (created in the time step's unit, possibly converted by a load callback)
        tus = set(st.get('tus') or [st['tu']])
        if min(abs(st['t'] - s), abs(st['t'] - s - d)) <= 1e-9 * max(1.0, abs(s + d)) and not sim_props.timer_hit_exact(st['t'], st['tu'], rl):
            # an exact hit whose operands are not exactly representable in their unit (minutes, hours): rounding decides
            return ('skip', 'time within rounding of a window edge')
        if rl.get('late'):
            # a parameter re-expressed after the rule was built: the comparison converts, so an edge hit is within rounding
            tus |= {sim.late_unit(rl, 'start'), sim.late_unit(rl, 'dur')}
            if min(abs(st['t'] - s), abs(st['t'] - s - d)) <= 1e-9 * max(1.0, abs(s + d)):
                return ('skip', 'time within rounding of a window edge')
        if abs(st['t'] - s) <= 1e-9 * max(1.0, abs(s)) and (tus != {rl['start'][1]}):
            return ('skip', 'time within rounding of a window edge')
        if abs(st['t'] - s - d) <= 1e-9 * max(1.0, abs(s + d)) and not (tus == {rl['start'][1]} and rl['start'][1] == rl['dur'][1]):
            return ('skip', 'time within rounding of a window edge')
        return ('val', float(rl['value'])) if s <= st['t'] <= s + d else ('none',)
    x = st['pos'][rl['enc'] % len(st['pos'])]
    target = sif('AngularPosition', rl['target'])
    sc = max(abs(x), abs(target), 1e-9)
    if t == 'reach':
        brake = sif('Angle', rl['brake'])
        k = st['load0'] / m['tmax'] / eta_total(tr)
        if k < 0:
            return ('skip', 'negative static error (float * Angle raises ValueError)')
        if rl.get('target_kind') == 'Angle' and target - brake <= 1e-9 * max(target, brake):
            return ('skip', 'Angle target smaller than the braking angle: the braking start is not an Angle (ValueError)')
        start = target - brake + k * brake
        if not st.get('exact') and abs(x - start) <= 1e-9 * max(sc, abs(start)):
            return ('skip', 'position within rounding of the braking start')
        return ('val', 1 - (x - start) / brake) if x >= start else ('none',)
    if st.get('exact'):
        pass
    elif rl.get('late') and abs(x - target) <= 1e-9 * sc:
        return ('skip', 'position within rounding of the target')
    elif rl.get('eq_init') and st.get('j') == 0:
        # the target is the very quantity the shaft was started at (same number, same unit): theta <= target holds exactly
        x = target
    elif abs(x - target) <= 1e-9 * sc:
        return ('skip', 'position within rounding of the target')
    if t == 'prop':
        pm = rl['mult'] * (1 / eta_total(tr) * (st['first_load0'] / m['tmax']) * ((m['imax'] - m['i0']) / m['imax']) + m['i0'] / m['imax'])
        if pm == 0:
            pm = rl.get('pmin')
            if pm is None:
                return ('skip', 'computed minimum duty cycle is zero and none was given (ValueError)')
        return ('val', (1 - pm) * x / target + pm) if x <= target else ('none',)
    if t == 'limit':
        if x > target:
            return ('none',)
        s = st['speed'][rl['tach'] % len(st['speed'])] / m['w0']
        e = sif('Current', rl['ilim']) / m['imax']
        n = m['i0'] / m['imax']
        disc = (s + e) ** 2 - 4 * n * s
        if disc < 0:
            return ('nan',)
        return ('val', 0.5 * (s + e + math.sqrt(disc)))
    raise ValueError(t)


def arbitration_oracle(props):
    """C14 on a list of rule outcomes: ('pwm', v) | ('conflict',) | ('nan',) | ('skip', why)"""
    for p in props:
        if p[0] == 'skip':
            return p
    app = [p for p in props if p[0] != 'none']
    if len(app) >= 2:
        return ('conflict',)
    if not app:
        return ('pwm', 1.0)
    if app[0][0] == 'nan':
        return ('nan',)
    return ('pwm', min(max(app[0][1], -1.0), 1.0))


# ---- whole controlled simulations --------------------------------------------------------------

def gen_rules(rng, spec, horizon, n_el):
    """0-4 rules of the four kinds with arbitrary, possibly overlapping windows"""
    # positions are plain AngularPositions here: the rules multiply the encoder reading by factors of either sign
    # (e.g. 1 - minimum duty cycle), which an Angle rejects — a restriction of the sub-kind, not of the rules
    spec['init'].pop('pos_kind', None)
    spec['init']['pos'] = spec['init']['pos'][:2]
    rules = []
    has_cur = spec['motor']['i0'] is not None
    for _ in range(rng.randint(0, 4)):
        kinds = ['const', 'const', 'reach']
        if has_cur:
            kinds += ['prop', 'limit']
        t = rng.choice(kinds)
        if t == 'const':
            s = gen.dy(rng, 0, horizon, 4) if rng.random() < 0.7 else 0.0
            d = gen.dy(rng, 0.0625, horizon, 4)
            v = rng.choice([0, 1, -1, gen.dy(rng, -1, 1, 3)])
            rules.append({'type': 'const', 'start': gen.time_qty(rng, 'Time', s, True) if s > 0 else [0.0, 'sec'],
                          'dur': gen.time_qty(rng, 'TimeInterval', d, True), 'value': v})
            if rng.random() < 0.25:
                key = rng.choice(['start', 'dur'])
                rules[-1]['late'] = {key: rng.choice([u for u in ('sec', 'ms', 'min', 'hour') if u != rules[-1][key][1]])}
            continue
        enc = rng.randrange(n_el)
        target = gen.in_unit(rng, 'AngularPosition', rng.uniform(-2, 8), True)
        tkind = {}
        if target[0] >= 0 and rng.random() < 0.3:
            tkind = {'target_kind': 'Angle'}        # targets may be Angles (the non-negative sub-kind)
        if t == 'reach':
            rules.append({'type': 'reach', 'enc': enc, 'target': target, 'brake': gen.in_unit(rng, 'Angle', rng.uniform(0.2, 4), True), **tkind})
        elif t == 'prop':
            rules.append({'type': 'prop', 'enc': enc, 'target': target, 'mult': rng.uniform(1.1, 6), 'pmin': rng.choice([None, 0.1, 0.3]), **tkind})
        else:
            i0, imax = sif('Current', spec['motor']['i0']), sif('Current', spec['motor']['imax'])
            ilim = rng.uniform(i0 * 1.2 + 0.01, imax * 1.3) if rng.random() < 0.9 else rng.uniform(0.001, max(i0, 0.002))
            rules.append({'type': 'limit', 'enc': enc, 'tach': rng.choice([0, 0, rng.randrange(n_el)]), 'target': target,
                          'ilim': gen.in_unit(rng, 'Current', ilim, True), **tkind})
        if rng.random() < 0.15:
            # a parameter object of the rule re-expressed in place after the rule has been built
            key = rng.choice([k for k in ('target', 'brake', 'ilim') if k in rules[-1]])
            kind = {'target': 'AngularPosition', 'brake': 'Angle', 'ilim': 'Current'}[key]
            rules[-1]['late'] = {key: rng.choice([u for u in SI[kind] if u != rules[-1][key][1]])}
    return rules


def states_of(tr):
    """control-time state of every completely recorded instant"""
    n = n_inst(tr)
    out = []
    for j in range(n):
        out.append({'j': j, 't': tr['time'][j], 'tu': tr['time_units'][j], 'pos': [e['angular position'][j] for e in tr['els']],
                    'speed': [e['angular speed'][j] for e in tr['els']], 'load0': tr['els'][0]['load torque'][j],
                    'first_load0': tr['els'][0]['load torque'][0]})
    return out


def add_time_units(spec, tr, states):
    own = sim.owner_at(spec, tr)
    cb = (spec['load'].get('inplace') or [None, None, None])[2]
    for j, st in enumerate(states):
        tus = {st['tu']}
        if j < len(own) and own[j] is not None:
            tus.add(spec['ops'][own[j]]['dt'][1])
        if cb is not None:
            tus.add(cb)
        st['tus'] = sorted(tus)
    return states


def eval_controlled(ctx, specs, props):
    traces = []
    lines = []
    owners = []
    for si_, spec in enumerate(specs):
        tr, b = sim.simulate(spec)
        traces.append((spec, tr, b))
        if tr['build_error'] is None and ctx.driver.available:
            # lock-step: state-dependent rules make the exact rationals of a whole history explode
            for j, ln in sim.lockstep_requests(spec, tr):
                lines.append(ln)
                owners.append((si_, j))
    answers = ctx.driver.ask(lines) if lines else []
    step_diffs = {}
    for (si_, j), ans in zip(owners, answers):
        if si_ not in step_diffs:
            d = sim.compare_step(traces[si_][1], j, ans)
            if d is not None:
                step_diffs[si_] = (d, ans)
    k = -1
    for spec, tr, b in traces:
        k += 1
        case = {'t': 'ctl', 'spec': spec}
        if tr['build_error'] is not None:
            ctx.violation(case, {'why': f"a generated valid powertrain was rejected: {tr.get('build_msg')}"})
            continue
        in_force = sim.rules_at(spec, tr)
        owners = sim.owner_at(spec, tr)
        all_sets = [sim.rules_of_op(spec, op) for op in spec['ops'] if op['op'] == 'run']
        ctx.case_done(case, nontrivial=any(all_sets) and n_inst(tr) >= 2)
        ctx.count('schedule ' + '+'.join(op['op'] for op in spec['ops']) + ('' if sim.uniform_rules(spec) else ' (control changes between runs)'))
        for rs in all_sets:
            ctx.count(f"rules {len(rs) if rs is not None else 'none'}")
            for rl in rs or []:
                ctx.count('rule ' + rl['type'])
        m = tr['motor']
        skipped = None
        states = add_time_units(spec, tr, states_of(tr))
        for j, st in enumerate(states):
            rules_j = in_force[j]
            if rules_j is None:
                # no controller during this run: the duty cycle keeps the value it had
                own = owners[j]
                prev = tr['els'][0]['pwm'][j - 1] if j > tr['ops'][own]['n_before'] else tr['ops'][own]['pwm_before']
                if 'C14' in props and tr['els'][0]['pwm'][j] != prev:
                    ctx.violation(case, {'why': f"instant {j}: no controller was passed to this run but the duty cycle changed from {prev} to {tr['els'][0]['pwm'][j]}"})
                    break
                continue
            outs = [rule_oracle(rl, st, tr) for rl in rules_j]
            exp = arbitration_oracle(outs)
            got = tr['els'][0]['pwm'][j]
            if exp[0] == 'skip':
                skipped = exp[1]
                ctx.count('instant skipped: ' + exp[1])
                break
            if exp[0] in ('conflict', 'nan'):
                ctx.violation(case, {'why': f'instant {j}: ' + ('two or more rules applicable' if exp[0] == 'conflict' else 'a rule proposed nan')
                                     + ' but the simulation went on', 'proposals': outs, 'recorded': got})
                break
            ctx.count('applicable ' + str(sum(1 for o in outs if o[0] != 'none')))
            if 'C14' in props:
                if not (-1 <= got <= 1):
                    ctx.violation(case, {'why': f'recorded duty cycle {got} at instant {j} outside [-1, 1]'})
                    break
                if not near(got, exp[1], 1.0, 1e-9):
                    ctx.violation(case, {'why': f'instant {j}: duty cycle {got}, arbitration dictates {exp[1]}', 'proposals': outs})
                    break
            if 'C15' in props:
                if not near(got, exp[1], 1.0, 1e-9):
                    ctx.violation(case, {'why': f'instant {j}: duty cycle {got}, the rules\' documented windows/values give {exp[1]}', 'proposals': outs})
                    break
                # while StartLimitCurrent is in force and not clipped the recorded current equals the limit
                app = [(rl, o) for rl, o in zip(rules_j, outs) if o[0] == 'val']
                if len(app) == 1 and app[0][0]['type'] == 'limit' and -1 < app[0][1][1] < 1 and app[0][0]['tach'] % tr['n'] == 0:
                    ilim = sif('Current', app[0][0]['ilim'])
                    if ilim > m['i0'] * (1 + 1e-9) and m['i0'] > 0:
                        cur = tr['els'][0]['electric current'][j]
                        ctx.count('limit-current instants checked')
                        if not near(cur, ilim, ilim, 1e-8):
                            ctx.violation(case, {'why': f'instant {j}: StartLimitCurrent in force and unclipped but the recorded current {cur} is not the limit {ilim}'})
                            break
        if tr['error'] is not None and skipped is None:
            # the run raised: it must be a ValueError explained by a conflict / nan / documented rule error at the failing instant
            cls = tr['error'][1]
            n = n_inst(tr)
            st = None
            if len(tr['time']) > n:
                a = tr['attrs']
                try:
                    st = {'t': tr['time'][n], 'tu': tr['time_units'][n], 'pos': [x['angular position'] for x in a],
                          'speed': [x['angular speed'] for x in a], 'load0': a[0]['load torque'],
                          'first_load0': tr['els'][0]['load torque'][0] if tr['els'][0]['load torque'] else a[0]['load torque']}
                except Exception:  # noqa: BLE001
                    st = None
            ctx.count('run error ' + cls)
            fail_rules = sim.rules_of_op(spec, spec['ops'][tr['error'][0]]) if spec['ops'][tr['error'][0]]['op'] == 'run' else None
            if st is not None and fail_rules is not None:
                outs = [rule_oracle(rl, st, tr) for rl in fail_rules]
                exp = arbitration_oracle(outs)
                ok = exp[0] in ('conflict', 'nan', 'skip') and cls in ('ValueError', 'ZeroDivisionError')
                if not ok:
                    ctx.violation(case, {'why': f'the run raised {cls} at an instant where the rules give {exp}', 'proposals': outs})
        if k in step_diffs:
            if skipped is not None or sim_props.near_threshold(spec, tr):
                ctx.count('history excluded: decision within rounding of its threshold')
            else:
                ctx.mismatch(case, step_diffs[k][0], step_diffs[k][1][:300])


def run_controlled(ctx, props, quick=120, thorough=4000):
    sim_props.prep()
    rng = ctx.rng
    n = ctx.budget(quick, thorough) * ctx.boost
    specs = []
    for _ in range(n):
        spec = gen.gen_spec(rng, random_units=rng.random() < 0.7, sl_bias=0.15, currents=rng.random() < 0.8, max_stages=2)
        dt = 2.0 ** -rng.randint(3, 6)
        total = rng.randint(5, 14)
        spec['load']['coef'][4] = 0.0
        # controllers with static error need a non-negative load on the motor: mostly resisting loads
        if rng.random() < 0.7:
            spec['load']['coef'] = [abs(spec['load']['coef'][0]), 0.0, abs(spec['load']['coef'][2]) if rng.random() < 0.3 else 0.0, 0.0, 0.0]
        spec['rules'] = gen_rules(rng, spec, total * dt, len(spec['elems']) + 1)
        focus = rng.random()
        if focus < 0.25 and spec['motor']['i0'] is not None and sif('Current', spec['motor']['i0']) > 0:
            # StartLimitCurrent alone, in force for the whole run, limit between no-load and maximum current
            i0, imax = sif('Current', spec['motor']['i0']), sif('Current', spec['motor']['imax'])
            spec['rules'] = [{'type': 'limit', 'enc': rng.randrange(len(spec['elems']) + 1), 'tach': 0,
                              'target': gen.in_unit(rng, 'AngularPosition', 1e6, True),
                              'ilim': gen.in_unit(rng, 'Current', rng.uniform(i0 * 1.1 + 0.01, imax * 0.9), True)}]
            spec['init']['speed'] = gen.in_unit(rng, 'AngularSpeed', abs(sif('AngularSpeed', spec['init']['speed'])) * 0.1, True)
        elif focus < 0.4 and spec['motor']['i0'] is not None:
            spec['rules'] = [{'type': 'prop', 'enc': rng.randrange(len(spec['elems']) + 1),
                              'target': gen.in_unit(rng, 'AngularPosition', rng.uniform(1, 50) if rng.random() < 0.7 else -rng.uniform(0.5, 20), True),
                              'mult': rng.uniform(1.1, 4), 'pmin': 0.2}]
            if rng.random() < 0.3:
                spec['rules'][0]['late'] = {'target': rng.choice([u for u in SI['AngularPosition'] if u != spec['rules'][0]['target'][1]])}
        elif focus < 0.55:
            spec['rules'] = [{'type': 'reach', 'enc': rng.randrange(len(spec['elems']) + 1),
                              'target': gen.in_unit(rng, 'AngularPosition', rng.uniform(-1, 3), True),
                              'brake': gen.in_unit(rng, 'Angle', rng.uniform(0.5, 6), True)}]
            if rng.random() < 0.5:
                # the target given as an Angle, beyond the braking angle
                br = rng.uniform(0.3, 2)
                spec['rules'] = [{'type': 'reach', 'enc': rng.randrange(len(spec['elems']) + 1), 'target_kind': 'Angle',
                                  'target': gen.in_unit(rng, 'Angle', br + rng.uniform(0.1, 3), True),
                                  'brake': gen.in_unit(rng, 'Angle', br, True)}]
        if not spec['rules'] and rng.random() < 0.7:
            # a controller without (applicable) rules still decides: the duty cycle becomes 1 whatever the motor carried
            spec['motor']['pwm0'] = rng.choice([0.0, -1.0, gen.dy(rng, -1, 1, 3)])
        op, _, _ = gen.run_op(rng, dt_si=dt, steps=(total, total), unit=rng.choice(['sec', 'sec', 'ms']))
        spec['ops'] = [op]
        sched = rng.random()
        if sched < 0.45:
            # schedules: the controller is a parameter of each run — continue with another rule set or none,
            # start without one, or reset and re-use the same rule objects
            n2 = rng.randint(3, 8)
            op2, _, _ = gen.run_op(rng, dt_si=dt, steps=(n2, n2), unit=rng.choice(['sec', 'sec', 'ms']))
            other = rng.choice([None, 'gen', 'gen', 'same']) if sched < 0.26 else rng.choice([None, 'gen', 'same', 'same', 'same'])
            if other == 'gen':
                op2['rules'] = gen_rules(rng, spec, (total + n2) * dt, len(spec['elems']) + 1)
            elif other is None:
                op2['rules'] = None
            if sched < 0.12:
                op['rules'] = None          # free run first, controlled continuation
                if 'rules' in op2 and op2['rules'] is None:
                    del op2['rules']
                spec['ops'] = [op, op2]
            elif sched < 0.26:
                spec['ops'] = [op, op2]
            else:
                spec['ops'] = [op, {'op': 'reset'}, {'op': 'init', 'pos': spec['init']['pos'], 'speed': spec['init']['speed']}, op2]
                if rng.random() < 0.4:
                    # the efficiency of a mating is declared again between the two simulations (the rules' static error and
                    # minimum duty cycle use the efficiency of the chain as it is now)
                    from harness import sim_props as _sp
                    _sp.inject_redeclare(rng, spec, spec['ops'])
                if other == 'same' and rng.random() < 0.6:
                    # the same timer-based rule objects before and after the reset: their windows restart with the time axis
                    rules = gen.const_rules(rng, total * dt, random_units=True)
                    if not rules:
                        rules = [{'type': 'const', 'start': [0.0, 'sec'], 'dur': gen.time_qty(rng, 'TimeInterval', gen.dy(rng, 0.0625, total * dt / 2, 4), True),
                                  'value': rng.choice([0, -1, gen.dy(rng, -1, 1, 3)])}]
                    spec['rules'] = rules
        specs.append(spec)
    # a current-limited start whose target is passed during the first simulation; reset; the same rule objects again
    for _ in range(ctx.budget(10, 150)):
        spec = gen.gen_spec(rng, random_units=rng.random() < 0.7, sl_bias=0.0, currents=True, max_stages=2)
        if sif('Current', spec['motor']['i0']) <= 0:
            continue
        dt = 2.0 ** -rng.randint(3, 6)
        total = rng.randint(8, 14)
        spec['init'] = {'pos': [0.0, spec['init']['pos'][1]], 'speed': [0.0, spec['init']['speed'][1]]}
        spec['load']['coef'] = [min(abs(spec['load']['coef'][0]), 0.01), 0.0, 0.0, 0.0, 0.0]
        op, _, _ = gen.run_op(rng, dt_si=dt, steps=(total, total), unit='sec')
        probe, _ = sim.simulate(dict(spec, rules=None, ops=[op]))
        if probe['build_error'] or probe['error'] or not probe.get('els'):
            continue
        enc = rng.randrange(len(probe['els']))
        ps = probe['els'][enc]['angular position']
        tgt = ps[max(1, len(ps) // 5)]
        if not tgt > 0:
            continue
        i0, imax = sif('Current', spec['motor']['i0']), sif('Current', spec['motor']['imax'])
        spec['rules'] = [{'type': 'limit', 'enc': enc, 'tach': 0, 'target': gen.in_unit(rng, 'AngularPosition', tgt, True),
                          'ilim': gen.in_unit(rng, 'Current', rng.uniform(i0 * 1.2 + 0.01, imax * 0.9), True)}]
        op2, _, _ = gen.run_op(rng, dt_si=dt, steps=(total, total), unit='sec')
        spec['ops'] = [op, {'op': 'reset'}, {'op': 'init', 'pos': spec['init']['pos'], 'speed': spec['init']['speed']}, op2]
        specs.append(spec)
    # a current-limited start whose target is exactly the position the shaft starts at: 'while theta <= target' includes it
    for _ in range(ctx.budget(10, 150)):
        spec = gen.gen_spec(rng, random_units=rng.random() < 0.7, sl_bias=0.0, currents=True, max_stages=2)
        if sif('Current', spec['motor']['i0']) <= 0:
            continue
        dt = 2.0 ** -rng.randint(3, 6)
        total = rng.randint(3, 8)
        spec['init'].pop('pos_kind', None)
        spec['init']['pos'] = [gen.dy(rng, 0.25, 40, 3), spec['init']['pos'][1]]
        spec['init']['speed'] = gen.in_unit(rng, 'AngularSpeed', abs(sif('AngularSpeed', spec['init']['speed'])) * 0.1, True)
        spec['load']['coef'] = [abs(spec['load']['coef'][0]), 0.0, 0.0, 0.0, 0.0]
        i0, imax = sif('Current', spec['motor']['i0']), sif('Current', spec['motor']['imax'])
        spec['rules'] = [{'type': 'limit', 'enc': len(spec['elems']), 'tach': 0, 'target': list(spec['init']['pos']), 'eq_init': True,
                          'ilim': gen.in_unit(rng, 'Current', rng.uniform(i0 * 1.2 + 0.01, imax * 0.8), True)}]
        op, _, _ = gen.run_op(rng, dt_si=dt, steps=(total, total), unit='sec')
        spec['ops'] = [op]
        specs.append(spec)
    # the efficiency of a mating declared again between two simulations that re-use the same rule objects
    from harness import sim_props as _sp
    for _ in range(ctx.budget(12, 200)):
        for _try in range(20):
            spec = gen.gen_spec(rng, random_units=rng.random() < 0.7, sl_bias=0.0, currents=True, max_stages=2)
            if _sp.redeclarable(spec):
                break
        else:
            continue
        dt = 2.0 ** -rng.randint(3, 6)
        total = rng.randint(5, 10)
        spec['load']['coef'] = [abs(spec['load']['coef'][0]) + 0.01, 0.0, 0.0, 0.0, 0.0]
        n_el = len(spec['elems']) + 1
        spec['init'].pop('pos_kind', None)
        spec['init']['pos'] = spec['init']['pos'][:2]
        spec['rules'] = [rng.choice([
            {'type': 'reach', 'enc': rng.randrange(n_el), 'target': gen.in_unit(rng, 'AngularPosition', rng.uniform(0.5, 3), True),
             'brake': gen.in_unit(rng, 'Angle', rng.uniform(2, 8), True)},
            {'type': 'prop', 'enc': rng.randrange(n_el), 'target': gen.in_unit(rng, 'AngularPosition', rng.uniform(20, 80), True),
             'mult': rng.uniform(1.1, 2), 'pmin': 0.2}])]
        op, _, _ = gen.run_op(rng, dt_si=dt, steps=(total, total), unit='sec')
        op2, _, _ = gen.run_op(rng, dt_si=dt, steps=(total, total), unit='sec')
        spec['ops'] = [op, {'op': 'reset'}, {'op': 'init', 'pos': spec['init']['pos'], 'speed': spec['init']['speed']}, op2]
        k = rng.choice(_sp.redeclarable(spec))
        final = list(spec['rels'][k])
        spec['rels'][k] = final[:3] + [rng.choice([1.0, 0.95, 0.4])]
        final[3] = rng.choice([0.5, 0.7, 0.3])
        spec['ops'].insert(3, {'op': 'redeclare', 'rel': final})
        specs.append(spec)
    for i in range(0, len(specs), 200):
        eval_controlled(ctx, specs[i:i + 200], props)
    ctx.rule = ('rule sets of 0-4 rules of the four kinds with arbitrary, possibly overlapping windows, parameters in random '
                'units, encoders / tachometers on any element, limit currents on both sides of the no-load current; whole '
                'simulations; at every instant the documented windows / values and the arbitration are recomputed from the '
                'recorded state and the history is compared with the Lean model; non-trivial = at least one rule and 2 instants')


def run_C14(ctx):
    run_controlled(ctx, ['C14'])
    setter_cases(ctx)


def run_C15(ctx):
    run_controlled(ctx, ['C15'])
    proposal_cases(ctx)


def eval_proposal(ctx, case):
    """one rule asked for its proposal by hand, every number a small dyadic in SI units so that the documented
    thresholds are hit exactly: 'once theta >= theta_s' and 'while theta <= target' include the equality"""
    import gearpy.units as U
    spec = sim_props.tiny_chain()
    spec['motor'].update({'i0': [0.25, 'A'], 'imax': [4.0, 'A']})
    b = sim.build(spec)
    rl = case['rule']
    rule = sim.make_rule(b, rl)
    b.motor.load_torque = U.Torque(case['load'], 'Nm')
    for e in b.E:
        e.angular_position = U.AngularPosition(case['pos'], 'rad')
        e.angular_speed = U.AngularSpeed(case['speed'], 'rad/s')
    try:
        got = rule.apply()
        got = ('none',) if got is None else ('val', float(got))
    except Exception as ex:  # noqa: BLE001
        got = ('err', type(ex).__name__)
    tr = {'motor': {'tmax': 1.0, 'w0': 100.0, 'i0': 0.25, 'imax': 4.0}, 'n': 2, 'effs': [1.0, 1.0], 'spur': [False, True]}
    st = {'exact': True, 't': 0.0, 'tu': 'sec', 'pos': [case['pos']] * 2, 'speed': [case['speed']] * 2, 'load0': case['load'],
          'first_load0': case['load']}
    exp = rule_oracle(rl, st, tr)
    ctx.case_done(case, nontrivial=True)
    ctx.count(f"proposal {rl['type']} " + ('at the threshold' if case.get('edge') else 'off the threshold') + ' -> ' + exp[0])
    ok = (got[0] == exp[0] == 'none') or (got[0] == exp[0] == 'val' and near(got[1], exp[1], 1.0, 1e-9 if rl.get('late') else 1e-12))
    if not ok:
        ctx.violation(case, {'why': f"the rule proposed {got}, documented {exp} (position {case['pos']} rad, load {case['load']} Nm)"})
    if ctx.driver.available and not rl.get('late'):
        # the same question to the Lean model (`Rule.apply` with exact comparisons: every operand is in SI units)
        R_ = R
        tg = R_(rl['target'][0])
        if rl['type'] == 'reach':
            tok = f"R:{rl['enc']}:{tg}:{R_(rl['brake'][0])}:1:0"
        elif rl['type'] == 'prop':
            tok = f"P:{rl['enc']}:{tg}:{R_(rl['mult'])}:{R_(rl['pmin'])}:1:0"
        else:
            tok = f"L:{rl['enc']}:{rl['tach']}:{tg}:{R_(rl['ilim'][0])}:1:0"
        line = (f"k w0=100 tmax=1 i0=1/4 imax=4 links=1:1:1:1 rules={tok} t=0 pos={R_(case['pos'])},{R_(case['pos'])} "
                f"speed={R_(case['speed'])},{R_(case['speed'])} load0={R_(case['load'])} fl0={R_(case['load'])}")
        ans = ctx.driver.ask([line])[0]
        w = ans.split()
        model = None
        if w and w[0] == 'ok' and w[-1].startswith('props='):
            pv = w[-1][6:]
            model = ('none',) if pv == '-' else ('nan',) if pv == 'nan' else ('val', float(pv))
        same = model is not None and model[0] == got[0] and (model[0] != 'val' or near(model[1], got[1], 1.0, 1e-12))
        if not same:
            ctx.mismatch(case, {'impl': got}, ans[:200])


def proposal_cases(ctx):
    rng = ctx.rng
    for _ in range(ctx.budget(120, 2500)):
        t = rng.choice(['reach', 'reach', 'prop', 'limit'])
        load = rng.choice([0.0, 0.125, 0.25, 0.5])
        target = rng.randint(8, 200) / 4
        brake = rng.randint(1, 28) / 4
        edge = rng.random() < 0.5
        off = 0.0 if edge else rng.choice([-1, 1]) * rng.randint(1, 64) / 64
        if t == 'reach':
            rl = {'type': 'reach', 'enc': rng.randrange(2), 'target': [target, 'rad'], 'brake': [brake, 'rad']}
            pos = target - brake + load * brake + off
        elif t == 'prop':
            rl = {'type': 'prop', 'enc': rng.randrange(2), 'target': [target, 'rad'], 'mult': rng.choice([1.25, 1.5, 2.0]), 'pmin': 0.25}
            pos = target + off
        else:
            rl = {'type': 'limit', 'enc': rng.randrange(2), 'tach': 0, 'target': [target, 'rad'], 'ilim': [rng.choice([1.0, 2.0, 3.0]), 'A']}
            pos = target + off
        if not edge and rng.random() < 0.35:
            # a parameter object of the rule re-expressed in place after the rule has been built (off the threshold: the
            # comparison then converts, with its tolerance)
            key = rng.choice([k for k in ('target', 'brake', 'ilim') if k in rl])
            kind = {'target': 'AngularPosition', 'brake': 'Angle', 'ilim': 'Current'}[key]
            rl['late'] = {key: rng.choice([u for u in SI[kind] if u != rl[key][1]])}
        eval_proposal(ctx, {'t': 'proposal', 'rule': rl, 'pos': pos, 'speed': rng.randint(0, 64) / 4, 'load': load, 'edge': edge})


def setter_cases(ctx):
    """the arbitration function itself on proposals far outside [-1, 1] (through apply_rules with stub rules)"""
    from gearpy.motor_control import PWMControl
    from gearpy.motor_control.rules.rules_base import RuleBase
    spec = sim_props.tiny_chain()
    b = sim.build(spec)
    rng = ctx.rng

    class Stub(RuleBase):
        def __init__(self, v):
            self.v = v

        def apply(self):
            return self.v
    lines, expect, cases = [], [], []
    for _ in range(ctx.budget(150, 3000)):
        k = rng.randint(0, 4)
        vals = [rng.choice([None, None, rng.uniform(-50, 50), rng.choice([-1, 1, 0, 1.0000001, -7, 1e9, float('nan')])]) for _ in range(k)]
        mc = PWMControl(b.pt)
        try:
            for v in vals:
                mc.add_rule(Stub(v))
            b.motor.pwm = 0.5
            mc.apply_rules()
            out = ('pwm', float(b.motor.pwm))
        except Exception as ex:  # noqa: BLE001
            out = ('err', type(ex).__name__, float(b.motor.pwm))
        case = {'t': 'arb', 'vals': [None if v is None else (('nan') if (isinstance(v, float) and math.isnan(v)) else v) for v in vals]}
        ctx.case_done(case, nontrivial=k > 0)
        app = [v for v in vals if v is not None]
        if len(app) >= 2 or (len(app) == 1 and isinstance(app[0], float) and math.isnan(app[0])):
            if out[0] != 'err' or out[1] != 'ValueError':
                ctx.violation(case, {'why': 'two or more applicable rules (or a nan proposal) did not raise ValueError', 'impl': out})
        else:
            want = 1.0 if not app else min(max(app[0], -1), 1)
            if out != ('pwm', float(want)):
                ctx.violation(case, {'why': f'arbitration gave {out}, expected duty cycle {want}'})
        if out[0] == 'pwm' and not (-1 <= out[1] <= 1):
            ctx.violation(case, {'why': f'duty cycle {out[1]} outside [-1, 1] was stored'})


def replay(ctx, case, props):
    sim_props.prep()
    if case.get('t') == 'proposal':
        eval_proposal(ctx, case)
    elif case.get('t') == 'ctl':
        eval_controlled(ctx, [case['spec']], props)


def replay_C14(ctx, case):
    replay(ctx, case, ['C14'])


def replay_C15(ctx, case):
    replay(ctx, case, ['C15'])
