import Gearpy.Model.Units
import Mathlib.Tactic.Ring
import Mathlib.Tactic.FieldSimp
import Mathlib.Tactic.Linarith
import Mathlib.Algebra.Order.Field.Rat
/-!
# Helper lemmas about the unit-carrying model (used by C05, C06, C07, C19)
-/

namespace Gearpy
open Kind

/-- what the proofs need from a factor table; `Gearpy.Properties.C05.gen_good` shows that the
    table generated from the source satisfies it -/
structure Tbl.Good (T : Tbl) : Prop where
  pos : ∀ k u, 0 < T.f k u
  si1 : ∀ k, T.f k (T.si k) = 1
  fam : ∀ k u, T.f k u = T.f (baseOf k) u
  tolpos : 0 < T.tol

variable {T : Tbl}

@[simp] theorem mk_eq_ok {k v u} {r : Qty} : mk k v u = .ok r ↔ signOk k v = true ∧ r = ⟨k, v, u⟩ := by
  unfold mk; split
  · rename_i hs; simp [hs, eq_comm]
  · rename_i hs; simp [hs]

@[simp] theorem mk_map_eq_ok {k v u} {r : Val} :
    (mk k v u).map Val.q = .ok r ↔ signOk k v = true ∧ r = .q ⟨k, v, u⟩ := by
  unfold mk; split
  · rename_i hs; simp [Except.map, hs, eq_comm]
  · rename_i hs; simp [Except.map, hs]

@[simp] theorem mk_eq_err {k v u} {e : Err} : mk k v u = .error e ↔ signOk k v = false ∧ e = .valueE := by
  unfold mk; split
  · rename_i hs; simp [hs]
  · rename_i hs; simp [hs, eq_comm]

@[simp] theorem mk_map_eq_err {k v u} {e : Err} :
    (mk k v u).map Val.q = .error e ↔ signOk k v = false ∧ e = .valueE := by
  unfold mk; split
  · rename_i hs; simp [Except.map, hs]
  · rename_i hs; simp [Except.map, hs, eq_comm]

theorem sameFamily_iff (a b : Kind) : sameFamily a b = true ↔ baseOf a = baseOf b := by
  unfold sameFamily; simp

theorem baseOf_of_not_sub {a : Kind} (h : isSub a = false) : baseOf a = a := by
  cases a <;> simp_all [isSub, baseOf]

theorem baseOf_idem (a : Kind) : baseOf (baseOf a) = baseOf a := by cases a <;> rfl

theorem fam_eq (g : T.Good) {a b : Kind} (h : baseOf a = baseOf b) (u : Nat) : T.f a u = T.f b u := by
  rw [g.fam a u, g.fam b u, h]

/-- converting preserves the SI magnitude -/
theorem conv_mul (g : T.Good) (o : Qty) (u : Nat) : conv T o u * T.f o.kind u = siMag T o := by
  unfold conv siMag
  split
  · rename_i h; rw [h]
  · have := ne_of_gt (g.pos o.kind u); field_simp

theorem conv_eq_div (g : T.Good) (o : Qty) (u : Nat) : conv T o u = siMag T o / T.f o.kind u := by
  have := ne_of_gt (g.pos o.kind u)
  rw [← conv_mul g o u]; field_simp

theorem toSI_eq (g : T.Good) (o : Qty) : toSI T o = siMag T o := by
  unfold toSI; have := conv_mul g o (T.si o.kind); rw [g.si1, mul_one] at this; exact this

theorem qabs_nonneg (x : Q) : 0 ≤ qabs x := by
  unfold qabs; split <;> linarith

theorem qabs_le {x a : Q} : qabs x ≤ a ↔ -a ≤ x ∧ x ≤ a := by
  unfold qabs
  by_cases hx : x < 0
  · simp only [hx, if_true]; constructor
    · intro h; constructor <;> linarith
    · intro h; linarith [h.1]
  · simp only [hx, if_false]; rw [not_lt] at hx; constructor
    · intro h; constructor <;> linarith
    · intro h; exact h.2

theorem qabs_lt {x a : Q} : qabs x < a ↔ -a < x ∧ x < a := by
  unfold qabs
  by_cases hx : x < 0
  · simp only [hx, if_true]; constructor
    · intro h; constructor <;> linarith
    · intro h; linarith [h.1]
  · simp only [hx, if_false]; rw [not_lt] at hx; constructor
    · intro h; constructor <;> linarith
    · intro h; exact h.2

theorem qabs_neg (x : Q) : qabs (-x) = qabs x := by
  unfold qabs
  by_cases h1 : x < 0 <;> by_cases h2 : -x < 0 <;> simp [h1, h2] <;> linarith

end Gearpy
