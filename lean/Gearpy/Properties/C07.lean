import Gearpy.Properties.C05
import Gearpy.Properties.C06
import Gearpy.Properties.C12
import Gearpy.Proofs.UnitStep
/-!
# C07 — results do not depend on the units inputs are expressed in

Architecture of the argument.  The solver, motor, gear and control models run on SI magnitudes
only (`Cfg`, `MotorP`, `Rule` hold plain rationals), so two models whose inputs have equal SI
magnitudes are *the same* configuration and produce the same records.  That this is a faithful
picture of the code rests on:
1. **congruence** of every unit-aware operation the code combines quantities with — the SI
   magnitude of the result is a function of the operands' SI magnitudes only
   (`conv_congr`, `add_congr`, `mul_congr`, `div_congr`, from C05/C06), and comparisons decide on SI
   magnitudes once the gap exceeds the tolerance (`cmp_congr`);
2. the **raw-value sites**, where the code reads `.value` or looks a float up, modelled on
   unit-carrying quantities and proved unit-independent one by one:
   `step_unit_invariant` / `chain_units` (the time-step update and the chain arithmetic as the code
   performs them on quantities), `grid_unit_invariant` (time axis of `Solver.run`, repairs D1/D2), `signTest_unit_invariant`
   (constructor tests such as `no_load_speed.value <= 0`), `wormRow_unit_invariant` (tolerant
   lookup of the worm pressure angle, repair D5), `scaledValue_si` (the motor laws'
   `Torque(value = k·T_max.value, unit = T_max.unit)`), `cmpRaw_scale` (every threshold test:
   comparing raw values in the left operand's unit = comparing SI magnitudes with the tolerance
   expressed in SI).
The end-to-end statement is checked by the metamorphic harness (same model, independently drawn
units for every input, both runs compared in SI).
-/

namespace Gearpy.C07
open Gearpy Gearpy.Kind

variable {T : Tbl}

/-- conversion does not change the SI magnitude, so it does not matter in which unit a value is held -/
theorem conv_congr (g : T.Good) (a r : Qty) (u : Nat) (h : toCopy T a u = .ok r) : siMag T r = siMag T a :=
  C05.toCopy_si g a r u h

/-- two sums of operands with pairwise equal SI magnitudes have equal SI magnitudes -/
theorem add_congr (g : T.Good) (a o a' o' r r' : Qty) (ha : siMag T a = siMag T a') (ho : siMag T o = siMag T o')
    (h : add T a (.q o) = .ok (.q r)) (h' : add T a' (.q o') = .ok (.q r')) : siMag T r = siMag T r' := by
  rw [C06.add_si g a o r h, C06.add_si g a' o' r' h', ha, ho]

theorem mul_congr (g : T.Good) (a a' : Qty) (b b' : Val) (r r' : Qty) (ha : siMag T a = siMag T a')
    (hb : C06.valSI T b = C06.valSI T b') (h : mul T a b = .ok (.q r)) (h' : mul T a' b' = .ok (.q r')) :
    siMag T r = siMag T r' := by
  rw [C06.mul_si g a b r h, C06.mul_si g a' b' r' h', ha, hb]

theorem div_congr (g : T.Good) (a a' : Qty) (b b' : Val) (r r' : Qty) (ha : siMag T a = siMag T a')
    (hb : C06.valSI T b = C06.valSI T b') (h : div T a b = .ok (.q r)) (h' : div T a' b' = .ok (.q r')) :
    siMag T r = siMag T r' := by
  rw [C06.div_si g a b r h, C06.div_si g a' b' r' h', ha, hb]

/-- ratios of same-family quantities (gear ratios of lengths, speed ratios, …) depend on SI magnitudes only -/
theorem ratio_congr (g : T.Good) (a o a' o' : Qty) (x x' : Q) (ha : siMag T a = siMag T a') (ho : siMag T o = siMag T o')
    (h : div T a (.q o) = .ok (.n x)) (h' : div T a' (.q o') = .ok (.n x')) : x = x' := by
  rw [C06.div_num_si g a o x h, C06.div_num_si g a' o' x' h', ha, ho]

/-- comparisons: operands further apart than the tolerances decide alike in any units -/
theorem cmp_congr (g : T.Good) (c : Cmp) (a o a' o' : Qty) (b b' : Bool)
    (ha : siMag T a = siMag T a') (ho : siMag T o = siMag T o')
    (h : cmp T c a (.q o) = .ok b) (h' : cmp T c a' (.q o') = .ok b')
    (hgap : T.tol * T.f (effLeft a o).kind (effLeft a o).unit < qabs (siMag T a - siMag T o))
    (hgap' : T.tol * T.f (effLeft a' o').kind (effLeft a' o').unit < qabs (siMag T a' - siMag T o')) :
    b = b' := by
  rw [C05.cmp_distinct_partial g c a o b h hgap, C05.cmp_distinct_partial g c a' o' b' h' hgap', ha, ho]

/-- raw-value site: the time axis (C11/C12) -/
theorem grid_unit_invariant (g : T.Good) (last last' : Option Qty) (dt dt' sim sim' : Qty)
    (hd : IsTime dt) (hd' : IsTime dt') (hs : IsTime sim) (hs' : IsTime sim')
    (hl : ∀ l, last = some l → IsTime l) (hl' : ∀ l, last' = some l → IsTime l)
    (e1 : siMag T dt = siMag T dt') (e2 : siMag T sim = siMag T sim')
    (e3 : last.map (siMag T) = last'.map (siMag T)) :
    (gridU T last dt sim).map (siMag T) = (gridU T last' dt' sim').map (siMag T) :=
  C12.run_split_units g last last' dt dt' sim sim' hd hd' hs hs' hl hl' e1 e2 e3

/-- raw-value site: constructor sign tests on `.value` -/
theorem signTest_unit_invariant (g : T.Good) (q : Qty) :
    (q.value ≤ 0 ↔ siMag T q ≤ 0) ∧ (q.value < 0 ↔ siMag T q < 0) := by
  have hp := g.pos q.kind q.unit
  unfold siMag
  constructor
  · constructor
    · intro h; exact mul_nonpos_of_nonpos_of_nonneg h hp.le
    · intro h; by_contra hc; rw [not_le] at hc; have := mul_pos hc hp; linarith
  · constructor
    · intro h; exact mul_neg_of_neg_of_pos h hp
    · intro h; by_contra hc; rw [not_lt] at hc; have := mul_nonneg hc hp.le; linarith

/-- raw-value site: `Torque(value = k · T_max.value, unit = T_max.unit)` has SI magnitude `k · SI(T_max)` -/
theorem scaledValue_si (q : Qty) (k : Q) : siMag T ⟨q.kind, k * q.value, q.unit⟩ = k * siMag T q := by
  unfold siMag; ring

/-- raw-value site: the worm pressure angle is located in the table by `==` against the tabulated
    angles (in degrees), not by an exact float key -/
def wormRow (T : Tbl) (degUnit : Nat) (pa : Qty) : Option Nat :=
  Gen.wormTable.findIdx? fun row => cmpDirect T .eq ⟨angle, row.1, degUnit⟩ pa

theorem wormRow_unit_invariant (g : T.Good) (degUnit : Nat) (pa pa' : Qty)
    (hk : baseOf pa.kind = angPos) (hk' : baseOf pa'.kind = angPos)
    (hsi : siMag T pa = siMag T pa') (hu : (degUnit == pa.unit) = (degUnit == pa'.unit)) :
    wormRow T degUnit pa = wormRow T degUnit pa' := by
  unfold wormRow
  congr 1
  funext row
  rw [cmpDirect_si g .eq ⟨angle, row.1, degUnit⟩ pa (by show baseOf angle = baseOf pa.kind; rw [hk]; rfl),
      cmpDirect_si g .eq ⟨angle, row.1, degUnit⟩ pa' (by show baseOf angle = baseOf pa'.kind; rw [hk']; rfl), hsi]
  simp only [hu]

/-- the time-step update computed by the code on quantities: two sets of operands with pairwise
    equal SI magnitudes (any units) give results with equal SI magnitudes -/
theorem step_unit_invariant (g : T.Good) (pos speed acc dt pos' speed' acc' dt' p v p' v' : Qty)
    (e1 : siMag T pos = siMag T pos') (e2 : siMag T speed = siMag T speed') (e3 : siMag T acc = siMag T acc')
    (e4 : siMag T dt = siMag T dt')
    (h : integrateU T pos speed acc dt = .ok (p, v)) (h' : integrateU T pos' speed' acc' dt' = .ok (p', v')) :
    siMag T p = siMag T p' ∧ siMag T v = siMag T v' := by
  obtain ⟨a1, a2⟩ := integrateU_si g pos speed acc dt p v h
  obtain ⟨b1, b2⟩ := integrateU_si g pos' speed' acc' dt' p' v' h'
  rw [a1, a2, b1, b2, e1, e2, e3, e4]; exact ⟨rfl, rfl⟩

/-- the chain arithmetic on quantities (transmit, drive, load, net torque) reads in SI as the SI-level model's -/
theorem chain_units (g : T.Good) (x r : Qty) (ratio eff : Q) :
    (transmitU T ratio x = .ok r → siMag T r = ratio * siMag T x) ∧
    (driveU T x eff ratio = .ok r → siMag T r = siMag T x * eff * ratio) ∧
    (loadU T x eff ratio = .ok r → siMag T r = siMag T x / eff / ratio) :=
  ⟨transmitU_si g ratio x r, driveU_si g x r eff ratio, loadU_si g x r eff ratio⟩

/-- two configurations given by SI magnitudes are equal as soon as their magnitudes are: the
    SI-level model cannot observe units -/
theorem simulation_unit_invariant (c c' : Cfg) (ops : List Op) (s : St) (h : c = c') :
    exec c ops s = exec c' ops s := by rw [h]

/-! ### non-vacuity: 14.5 deg given in rad is found in row 0 like 14.5 deg itself -/
example : wormRow Gen.tbl 1 ⟨angle, 29/2, 1⟩ = some 0 := by decide +kernel
example : wormRow Gen.tbl 1 ⟨angle, conv Gen.tbl ⟨angle, 29/2, 1⟩ 0, 0⟩ = some 0 := by decide +kernel

end Gearpy.C07
