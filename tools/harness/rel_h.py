"""C10 (relation declarations) and C20 (powertrain assembly): random sequences of declaration calls,
failing ones included, on a pool of elements of all kinds; the public attributes of every element are
snapshotted before and after every call; oracle from the property statement; Lean model in parallel."""
import math
from fractions import Fraction as F

from common import R, parse_num
from harness import gen, sim
from harness.sim_props import near
from harness.si_spec import SI

import gearpy.units as U
from gearpy.mechanical_objects import DCMotor, SpurGear, HelicalGear, WormGear, WormWheel, Flywheel, MatingMaster, MatingSlave
from gearpy.utils import add_fixed_joint, add_gear_mating, add_worm_gear_mating
from gearpy.powertrain import Powertrain

J = U.InertiaMoment(1, 'kgm^2')
KIND_TOKEN = {'motor': 'motor', 'fly': 'flywheel', 'spur': 'spur', 'helical': 'helical', 'wormgear': 'wormGear', 'wormwheel': 'wormWheel'}


def Q(kind, vu):
    return getattr(U, kind)(vu[0], vu[1])


def sif(kind, vu):
    return float(F(vu[0]) * SI[kind][vu[1]])


def gen_pool(rng, worm_tbl):
    n = rng.randint(3, 9)
    pool = [{'type': 'motor', 'name': 'n0'}]
    modules = [0.5e-3, 1e-3, 2e-3]
    helixes = [rng.uniform(5, 40) for _ in range(2)]
    fixed = {}

    def rep(kind, si_value):
        # the same magnitude is mostly given in the same unit (an equality test between different units
        # of equal magnitudes sits on its threshold and is excluded)
        key = (kind, si_value)
        if key not in fixed:
            fixed[key] = gen.in_unit(rng, kind, si_value, True)
        return list(fixed[key]) if rng.random() < 0.85 else gen.in_unit(rng, kind, si_value, True)
    pas = [rng.choice(worm_tbl) for _ in range(2)]
    for i in range(1, n):
        t = rng.choice(['motor', 'fly', 'spur', 'spur', 'helical', 'helical', 'wormgear', 'wormwheel', 'wormgear', 'wormwheel'])
        e = {'type': t, 'name': f'n{i}' if rng.random() < 0.9 else f'n{rng.randrange(n)}'}
        if t in ('spur', 'helical', 'wormwheel'):
            e['z'] = rng.randint(10, 90)
            e['module'] = rep('Length', rng.choice(modules)) if rng.random() < 0.6 else None
            twins = [x['module'] for x in pool if x.get('module')]
            if twins and rng.random() < 0.15:
                # the same *number* as another gear's module but in another unit (2 mm vs 2 cm): different modules
                v, u = rng.choice(twins)[:2]
                e['module'] = [v, rng.choice([x for x in SI['Length'] if x != u])]
        if t == 'helical':
            e['helix'] = rep('Angle', math.radians(rng.choice(helixes)))
            twins = [x['helix'] for x in pool if x.get('type') == 'helical']
            if twins and rng.random() < 0.15:
                v, u = rng.choice(twins)[:2]
                u2 = rng.choice([x for x in SI['Angle'] if x != u])
                if float(F(v) * SI['Angle'][u2]) < math.radians(89):
                    e['helix'] = [v, u2]
        if t in ('wormgear', 'wormwheel'):
            row = rng.choice(pas)
            e['pa'] = [row[0], 'deg'] if rng.random() < 0.7 else gen.in_unit(rng, 'Angle', math.radians(row[0]), True)
            if e['pa'][1] == 'deg':
                e['pa'] = [row[0], 'deg']
            e['pa_deg'] = row[0]
            hx = rng.choice([rng.uniform(1, row[1] - 0.1), rng.uniform(1, 8), 0.0 if rng.random() < 0.1 else rng.uniform(2, row[1] - 0.1),
                             rng.uniform(max(1, row[1] - 6), row[1] - 0.05)])      # steep worms: with high friction the worm-driving efficiency goes negative
            e['helix'] = gen.in_unit(rng, 'Angle', math.radians(hx), True)
            e['helix_deg'] = hx
            if t == 'wormgear':
                e['starts'] = rng.randint(1, 4)
                e['d'] = gen.in_unit(rng, 'Length', 0.02, True) if rng.random() < 0.5 else None
            else:
                e['fw'] = gen.in_unit(rng, 'Length', 0.01, True) if rng.random() < 0.6 else None
        pool.append(e)
    return pool


def build_pool(pool):
    objs = []
    for e in pool:
        t = e['type']
        if t == 'motor':
            o = DCMotor(name=e['name'], inertia_moment=J, no_load_speed=U.AngularSpeed(100, 'rad/s'), maximum_torque=U.Torque(1, 'Nm'))
        elif t == 'fly':
            o = Flywheel(name=e['name'], inertia_moment=J)
        elif t == 'spur':
            o = SpurGear(name=e['name'], n_teeth=e['z'], inertia_moment=J, **({'module': Q('Length', e['module'])} if e['module'] else {}))
        elif t == 'helical':
            o = HelicalGear(name=e['name'], n_teeth=e['z'], inertia_moment=J, helix_angle=Q('Angle', e['helix']),
                            **({'module': Q('Length', e['module'])} if e['module'] else {}))
        elif t == 'wormgear':
            o = WormGear(name=e['name'], n_starts=e['starts'], inertia_moment=J, helix_angle=Q('Angle', e['helix']),
                         pressure_angle=Q('Angle', e['pa']), **({'reference_diameter': Q('Length', e['d'])} if e['d'] else {}))
        else:
            kw = {}
            if e['module']:
                kw['module'] = Q('Length', e['module'])
            if e.get('fw'):
                kw['face_width'] = Q('Length', e['fw'])
            o = WormWheel(name=e['name'], n_teeth=e['z'], inertia_moment=J, helix_angle=Q('Angle', e['helix']),
                          pressure_angle=Q('Angle', e['pa']), **kw)
        objs.append(o)
    return objs


def state(objs):
    idx = {id(o): i for i, o in enumerate(objs)}
    out = []
    for o in objs:
        role = getattr(o, 'mating_role', None)
        out.append((idx.get(id(getattr(o, 'drives', None))), idx.get(id(getattr(o, 'driven_by', None))),
                    'master' if role is MatingMaster else 'slave' if role is MatingSlave else None,
                    getattr(o, 'master_gear_ratio', None), getattr(o, 'master_gear_efficiency', None),
                    getattr(o, 'self_locking', None), 'bending stress' in o.time_variables))
    return out


def gen_decls(rng, pool):
    n = len(pool)
    ds = []
    gearish = [i for i, e in enumerate(pool) if e['type'] in ('spur', 'helical', 'wormwheel')]
    wormish = [i for i, e in enumerate(pool) if e['type'] in ('wormgear', 'wormwheel')]
    for _ in range(rng.randint(3, 12)):
        k = rng.choice(['joint', 'joint', 'gear', 'gear', 'worm', 'worm'])
        wild = rng.random() < 0.25
        if k == 'joint':
            ds.append(['joint', rng.randrange(n), rng.randrange(n)])
        elif k == 'gear':
            src = list(range(n)) if wild or len(gearish) < 2 else gearish
            eta = rng.choice([rng.uniform(0.3, 1), 1, 0, 1.2, -0.1]) if rng.random() < 0.3 else rng.uniform(0.3, 1)
            ds.append(['gear', rng.choice(src), rng.choice(src), eta] + rng.choice([[], [], [], ['np'], ['int'], ['np32'], ['npint'], ['frac']]))
        else:
            src = list(range(n)) if wild or len(wormish) < 2 else wormish
            f = rng.choice([rng.uniform(0, 0.6), 1.0, 1.3, -0.2, 0, rng.uniform(0.6, 1), rng.uniform(0.8, 1)]) if rng.random() < 0.4 else rng.uniform(0, 0.6)
            ds.append(['worm', rng.choice(src), rng.choice(src), f] + rng.choice([[], [], [], ['np'], ['int'], ['np32'], ['npint'], ['frac']]))
    return ds


def num_arg(d):
    """the efficiency / friction coefficient as the user passes it: a Python float, an int where the value is
    integral, or a numpy scalar (numpy.float64 is a float; results of numpy computations are numpy scalars)"""
    v = d[3]
    how = d[4] if len(d) > 4 else None
    if how == 'np':
        import numpy as np
        return np.float64(v)
    if how == 'int' and float(v).is_integer():
        return int(v)
    if how == 'np32':
        import numpy as np
        return np.float32(v)
    if how == 'npint' and float(v).is_integer():
        import numpy as np
        return np.int64(int(v))
    if how == 'frac':
        from fractions import Fraction
        return Fraction(v)
    return v


def not_a_python_number(d):
    """representations that are numbers but neither `float` nor `int` instances: the documented type check rejects them"""
    how = d[4] if len(d) > 4 else None
    return how in ('np32', 'frac') or (how == 'npint' and float(d[3]).is_integer())


def expected(pool, objs, d):
    """documented outcome of a declaration: ('ok', post) | ('err', class or None) | ('skip', why)"""
    k, m, s = d[0], d[1], d[2]
    em, es = pool[m], pool[s]
    if k == 'joint':
        if es['type'] == 'motor':
            return ('err', 'TypeError')
        if m == s:
            return ('err', 'ValueError')
        return ('ok', {'ratio': 1.0, 'eff': None, 'roles': False})
    if k == 'gear':
        gb = ('spur', 'helical', 'wormwheel')
        if em['type'] not in gb or es['type'] not in gb:
            return ('err', 'TypeError')
        if m == s:
            return ('err', 'ValueError')
        eta = d[3]
        if not (0 <= eta <= 1):
            return ('err', 'ValueError')
        if em.get('module') and es.get('module'):
            a, b = sif('Length', em['module']), sif('Length', es['module'])
            if abs(a - b) > 1e-9 * max(a, b):
                return ('err', 'ValueError')
            if em['module'][1] != es['module'][1]:
                return ('skip', 'equal modules in different units: the (in)equality test is within rounding of its threshold')
        hm, hs = em['type'] in ('helical', 'wormwheel'), es['type'] in ('helical', 'wormwheel')
        if hm != hs:
            return ('err', 'ValueError')
        if hm:
            a, b = sif('Angle', em['helix']), sif('Angle', es['helix'])
            if abs(a - b) > 1e-9 * max(a, b, 1e-9):
                return ('err', 'ValueError')
            if em['helix'][1] != es['helix'][1]:
                return ('skip', 'equal helix angles in different units: the (in)equality test is within rounding of its threshold')
        return ('ok', {'ratio': es['z'] / em['z'], 'eff': eta, 'roles': True})
    # worm
    wk = ('wormgear', 'wormwheel')
    if em['type'] not in wk or es['type'] not in wk or em['type'] == es['type']:
        return ('err', 'TypeError')
    f = d[3]
    if not (0 <= f <= 1):
        return ('err', 'ValueError')
    if em['pa_deg'] != es['pa_deg']:
        return ('err', 'ValueError')
    if em['pa'][1] != es['pa'][1]:
        return ('skip', 'equal pressure angles in different units: the (in)equality test is within rounding of its threshold')
    cosA = objs[m].pressure_angle.cos()
    tanB = objs[m].helix_angle.tan()
    if tanB == 0:
        return ('err', None)      # null helix angle: rejected (ValueError since the repair, ZeroDivisionError before)
    if em['type'] == 'wormgear':
        eta = (cosA - f * tanB) / (cosA + f / tanB)
        ratio = es['z'] / em['starts']
        worm = m
    else:
        eta = (cosA - f / tanB) / (cosA + f * tanB)
        ratio = es['starts'] / em['z']
        worm = s
    if (abs(eta) < 1e-12 or abs(eta - 1) < 1e-12) and f != 0:      # (without friction the efficiency is exactly 1)
        return ('skip', 'efficiency within rounding of the range limit')
    if not (0 <= eta <= 1):
        return ('err', 'ValueError')
    cw, tw = objs[worm].pressure_angle.cos(), objs[worm].helix_angle.tan()
    sl = (f > cw * tw) if (abs(f - cw * tw) >= 1e-12 or (f == 0 and cw * tw == 0)) else None      # (0 > 0 is decided exactly)
    return ('ok', {'ratio': ratio, 'eff': eta, 'roles': True, 'worm': worm, 'sl': sl})


def elem_token(e, o):
    def qt(kind, vu):
        if vu is None:
            return '-'
        from harness.units_h import uidx
        return f'{kind}:{R(vu[0])}:{uidx(kind, vu[1])}'
    t = e['type']
    cosA = R(o.pressure_angle.cos()) if t in ('wormgear', 'wormwheel') else '1'
    tanB = R(o.helix_angle.tan()) if t in ('wormgear', 'wormwheel') else '0'
    z = e.get('z', e.get('starts', 0))
    return ','.join([KIND_TOKEN[t], str(abs(hash(e['name'])) % 10 ** 6), str(z), qt('Length', e.get('module')),
                     qt('Angle', e.get('helix')) if t in ('helical', 'wormgear', 'wormwheel') else '-',
                     qt('Angle', e.get('pa')) if t in ('wormgear', 'wormwheel') else '-', cosA, tanB,
                     '1' if e.get('module') else '0', '1' if e.get('fw') else '0', '0', '1' if e.get('d') else '0'])


def acyclic_chain(objs, start):
    seen, cur, out = set(), objs[start], []
    while cur is not None:
        if id(cur) in seen:
            return None
        seen.add(id(cur))
        out.append(cur)
        cur = getattr(cur, 'drives', None)
    return out


def eval_case(ctx, case, props):
    pool, decls = case['pool'], case['decls']
    try:
        objs = build_pool(pool)
    except Exception as ex:  # noqa: BLE001
        ctx.violation(case, {'why': f'construction of a valid element raised {type(ex).__name__}: {str(ex)[:100]}'})
        return
    ctx.case_done(case, nontrivial=len(decls) >= 3)
    outcomes = []
    skipped = False
    declared = {}            # forward links as declared by the accepted calls: master index -> slave index
    case['_declared'] = declared
    for di, d in enumerate(decls):
        before = state(objs)
        exp = expected(pool, objs, d)
        if d[0] != 'joint' and not_a_python_number(d) and exp[0] != 'skip':
            exp = ('err', 'TypeError') if exp[0] == 'ok' else exp
        try:
            if d[0] == 'joint':
                add_fixed_joint(objs[d[1]], objs[d[2]])
            elif d[0] == 'gear':
                add_gear_mating(objs[d[1]], objs[d[2]], num_arg(d))
            else:
                add_worm_gear_mating(objs[d[1]], objs[d[2]], num_arg(d))
            got = ('ok',)
        except Exception as ex:  # noqa: BLE001
            got = ('err', type(ex).__name__)
        after = state(objs)
        if got[0] == 'ok':
            declared[d[1]] = d[2]
            if d[0] == 'worm':
                wi = d[1] if pool[d[1]]['type'] == 'wormgear' else d[2]
                case.setdefault('_worm_f', {})[wi] = d[3]
        outcomes.append((got, after != before))
        ctx.count(f'{d[0]} ' + (got[0] if got[0] == 'ok' else got[1]))
        if exp[0] == 'skip':
            ctx.count('call skipped: ' + exp[1])
            skipped = True
            continue
        if 'C10' not in props:
            continue
        if got[0] == 'err':
            if after != before:
                ctx.violation(case, {'why': f'call {di} {d} was rejected ({got[1]}) but modified an element', 'before': before, 'after': after})
                return
            if exp[0] == 'ok':
                ctx.violation(case, {'why': f'call {di} {d} is a compatible pair but was rejected with {got[1]}'})
                return
            # the property says such pairs "are rejected"; it does not name the exception class
            if got[1] not in ('TypeError', 'ValueError', 'ZeroDivisionError'):
                ctx.violation(case, {'why': f'call {di} {d} raised {got[1]} (not a rejection of the arguments)'})
                return
            continue
        if exp[0] == 'err':
            ctx.violation(case, {'why': f'call {di} {d} is an incompatible pair / out-of-range value but was accepted'})
            return
        m, s = d[1], d[2]
        post = exp[1]
        am, as_ = after[m], after[s]
        problems = []
        if am[0] != s or as_[1] != m:
            problems.append('the two elements are not linked mutually')
        if post['roles'] and (am[2] != 'master' or as_[2] != 'slave'):
            problems.append('roles are not master / slave')
        if not (as_[3] is not None and near(as_[3], post['ratio'], post['ratio'], 1e-12)) or (d[0] == 'joint' and as_[3] != 1.0):
            problems.append(f"slave ratio {as_[3]} is not {post['ratio']}")
        if post['eff'] is not None and not near(as_[4], post['eff'], 1.0, 1e-12):
            problems.append(f"slave efficiency {as_[4]} is not {post['eff']}")
        if as_[3] is not None and not as_[3] > 0:
            problems.append('ratio not positive')
        if as_[4] is not None and not (0 <= as_[4] <= 1):
            problems.append('efficiency outside [0, 1]')
        if d[0] == 'worm' and post['sl'] is not None and after[post['worm']][5] != post['sl']:
            problems.append(f"self-locking flag {after[post['worm']][5]} but f > cos(alpha) tan(beta) is {post['sl']}")
        for i in range(len(objs)):
            if i not in (m, s) and after[i] != before[i]:
                problems.append(f'an element not named in the call (index {i}) changed')
        # the self-locking flag is written by a worm mating, for its worm, and by nothing else: a later declaration
        # naming the worm (its joint to the driver, a re-declaration) leaves the relation it already has as declared
        for i in (m, s):
            if not (d[0] == 'worm' and i == post['worm']) and after[i][5] != before[i][5]:
                problems.append(f'the self-locking flag of element {i} went from {before[i][5]} to {after[i][5]} in a call that is '
                                'not a worm mating of that worm')
        if problems:
            ctx.violation(case, {'why': f'call {di} {d}: ' + '; '.join(problems), 'after': after})
            return
    # ---- the Lean model on the same pool and calls ---------------------------------------------
    motors = [i for i, e in enumerate(pool) if e['type'] == 'motor']
    chain = acyclic_chain(objs, 0)
    if any(d[0] != 'joint' and not_a_python_number(d) for d in decls):
        ctx.count('model comparison skipped: an argument is a number that is neither float nor int (Python typing is not modelled)')
        skipped = True
    if ctx.driver.available and not skipped:
        line = 'r elems=' + ';'.join(elem_token(e, o) for e, o in zip(pool, objs)) + ' decls=' + \
               ';'.join(','.join([d[0], str(d[1]), str(d[2])] + ([R(d[3])] if len(d) > 3 else [])) for d in decls) + \
               (' motor=0' if chain is not None else '')
        ans = ctx.driver.ask([line])[0]
        kv = dict(x.split('=', 1) for x in ans.split()[1:]) if ans.startswith('ok') else None
        if kv is None:
            ctx.mismatch(case, 'declarations evaluated', ans[:200])
        else:
            res = kv['res'].split(';') if kv.get('res') else []
            for di, ((got, changed), mr) in enumerate(zip(outcomes, res)):
                if got[0] == 'ok':
                    ok = (mr == 'ok')
                else:
                    ok = mr.startswith('err:') and mr.endswith('unchanged' if not changed else 'changed')
                if not ok:
                    ctx.mismatch(case, {'call': di, 'decl': decls[di], 'impl': got, 'changed': changed}, mr)
                    break
            else:
                heap = kv['heap'].split(';')
                fin = state(objs)
                for i, (hs, st) in enumerate(zip(heap, fin)):
                    w = hs.split(',')
                    mdl = (None if w[0] == '-' else int(w[0]), None if w[1] == '-' else int(w[1]), None if w[2] == '-' else w[2])
                    mratio = None if w[3] == '-' else parse_num(w[3])
                    if mdl != st[:3] or (st[3] is None) != (mratio is None) or \
                            (st[3] is not None and not near(st[3], mratio, st[3], 1e-9)) or \
                            (st[4] is not None and not near(float(st[4]), parse_num(w[4]), 1.0, 1e-9)) or \
                            (st[5] is not None and (w[5] == '1') != st[5]):
                        ctx.mismatch(case, {'element': i, 'state': st}, hs)
                        break
                    if pool[i]['type'] == 'wormwheel' and (w[6] == '1') != st[6]:
                        ctx.mismatch(case, {'element': i, 'bending key': st[6]}, hs)
                        break
    if 'C20' in props:
        check_assembly(ctx, case, pool, objs, motors, kv if (ctx.driver.available and not skipped and 'kv' in dir()) else None)


def check_assembly(ctx, case, pool, objs, motors, kv):
    for mi in motors:
        chain = acyclic_chain(objs, mi)
        if chain is None:
            ctx.count('cyclic drives graph (Powertrain would not terminate): skipped')
            continue
        names = [o.name for o in chain]
        # the chain as the accepted declarations define it (each element drives the slave of the last accepted call
        # that named it as master), independently of the objects' own links
        declared = case.get('_declared')
        if declared is not None:
            want, cur, seen = [mi], mi, {mi}
            while cur in declared and declared[cur] not in seen:
                cur = declared[cur]
                want.append(cur)
                seen.add(cur)
            if cur in declared and declared[cur] in seen:
                want = None
            if want is not None and [objs.index(o) for o in chain] != want:
                ctx.violation(case, {'why': f'the objects are linked as {[objs.index(o) for o in chain]} but the accepted declarations define the chain {want}'})
                continue
        try:
            pt = Powertrain(objs[mi])
            got = ('ok',)
        except Exception as ex:  # noqa: BLE001
            got = ('err', type(ex).__name__)
        ctx.count('assembly ' + (got[0] if got[0] == 'ok' else got[1]))
        if len(chain) == 1:
            if got[0] != 'err':
                ctx.violation(case, {'why': 'a powertrain was built from a motor that drives nothing'})
            continue
        if len(set(names)) != len(names):
            if got[0] != 'err':
                ctx.violation(case, {'why': f'a powertrain was built although two elements share a name: {names}'})
            continue
        if got[0] != 'ok':
            ctx.violation(case, {'why': f'assembly of a valid chain raised {got[1]}'})
            continue
        if len(pt.elements) != len(chain) or any(a is not b for a, b in zip(pt.elements, chain)):
            ctx.violation(case, {'why': 'powertrain elements are not exactly the chain reachable through drives, in order',
                                 'got': [e.name for e in pt.elements], 'want': names})
            continue
        want_sl = any(isinstance(o, WormGear) and o.self_locking is True for o in chain)
        # ... and as the accepted declarations define it: a worm gear is self-locking when the friction coefficient of
        # the last accepted worm mating that involved it exceeds cos(alpha) * tan(beta) of that worm
        decl_sl = False
        for o in chain:
            if isinstance(o, WormGear) and objs.index(o) in case.get('_worm_f', {}):
                f_ = case['_worm_f'][objs.index(o)]
                thr_ = o.pressure_angle.cos() * o.helix_angle.tan()
                if abs(f_ - thr_) < 1e-12 and not (f_ == 0 and thr_ == 0):
                    decl_sl = None
                    break
                decl_sl = decl_sl or (f_ > thr_)
        if decl_sl is not None and bool(pt.self_locking) != decl_sl:
            ctx.violation(case, {'why': f'self_locking is {pt.self_locking} but the accepted worm matings of the chain make it {decl_sl}'})
            continue
        if bool(pt.self_locking) != want_sl:
            ctx.violation(case, {'why': f'self_locking is {pt.self_locking} but the chain ' + ('contains' if want_sl else 'has no') + ' worm gear flagged self-locking'})
        for attr, val in (('elements', ()), ('self_locking', True)):
            try:
                setattr(pt, attr, val)
                ctx.violation(case, {'why': f'Powertrain.{attr} could be assigned'})
            except AttributeError:
                pass
            except Exception as ex:  # noqa: BLE001
                ctx.violation(case, {'why': f'assigning Powertrain.{attr} raised {type(ex).__name__} instead of AttributeError'})
        # the flag is the one defined at assembly: a powertrain whose flag has not been read yet keeps it when a worm
        # mating of the chain is declared again with a friction coefficient on the other side of the threshold
        for wi, o in enumerate(chain):
            if isinstance(o, WormGear) and o.self_locking is not None:
                mate = o.drives if isinstance(o.drives, WormWheel) and o.drives.driven_by is o else \
                    (o.driven_by if isinstance(o.driven_by, WormWheel) and o.driven_by.drives is o else None)
                if mate is None:
                    continue
                master, slave = (o, mate) if o.drives is mate else (mate, o)
                thr = o.pressure_angle.cos() * o.helix_angle.tan()
                f_old = None
                # friction coefficients on both sides that keep the efficiency within [0, 1]
                cands = [thr * 0.5, thr * 0.25] if o.self_locking else [min(thr * 1.5, 1.0), min(thr * 1.2, 1.0)]
                pt2 = Powertrain(objs[mi])
                eff0, sl0 = slave.master_gear_efficiency, o.self_locking
                flipped = False
                for f2 in cands:
                    try:
                        add_worm_gear_mating(master, slave, f2)
                        flipped = o.self_locking != sl0
                        break
                    except Exception:  # noqa: BLE001
                        continue
                if flipped:
                    ctx.count('worm mating declared again across the self-locking threshold after assembly')
                    if bool(pt2.self_locking) != want_sl:
                        ctx.violation(case, {'why': f'self_locking of an assembled powertrain became {pt2.self_locking} when a worm mating was '
                                                    f'declared again afterwards (it was {want_sl} at assembly)'})
                # put the original relation back (efficiency and flag as before)
                slave.master_gear_efficiency = eff0
                o.self_locking = sl0
                break
        # neither does any public method: reset (here on a powertrain that has not been simulated; the simulated
        # case is exercised by `simulated_cases`)
        before = (tuple(id(e) for e in pt.elements), pt.self_locking)
        try:
            pt.reset()
        except Exception:  # noqa: BLE001
            pass
        if (tuple(id(e) for e in pt.elements), pt.self_locking) != before:
            ctx.violation(case, {'why': f'Powertrain.reset changed the elements or the self-locking flag ({before[1]} -> {pt.self_locking})'})
            continue
        # a later declaration re-routing the chain does not change the assembled powertrain
        before = (tuple(id(e) for e in pt.elements), pt.self_locking)
        extra = Flywheel(name='late', inertia_moment=J)
        add_fixed_joint(chain[0], extra)
        if (tuple(id(e) for e in pt.elements), pt.self_locking) != before:
            ctx.violation(case, {'why': 'a later declaration changed the assembled powertrain'})
        add_fixed_joint(chain[0], chain[1]) if len(chain) > 1 else None
        if mi == 0 and kv is not None and kv.get('pt'):
            w = kv['pt'].split(':')
            if w[0] != 'ok' or [int(x) for x in w[1].split(',')] != [objs.index(o) for o in chain] or (w[2] == '1') != want_sl:
                ctx.mismatch(case, {'elements': names, 'self_locking': want_sl}, kv['pt'])


def gen_chain_case(rng, tbl):
    """mostly-valid stream: a drive chain is built from the motor by joints and proper matings, with
    failing calls interleaved, re-declarations that re-route the chain, and duplicate names now and then"""
    pool = [{'type': 'motor', 'name': 'n0'}]
    decls = []
    prev = 0

    def add(e):
        e['name'] = f'n{len(pool)}' if rng.random() < 0.93 else f'n{rng.randrange(max(1, len(pool)))}'
        if rng.random() < 0.06:
            # names are compared as they are: 'n1 ' (or ' n1', 'N1') is not 'n1'
            k = rng.randrange(max(1, len(pool)))
            e['name'] = rng.choice([f'n{k} ', f' n{k}', f'N{k}', f'n{k}\t'])
        pool.append(e)
        return len(pool) - 1

    def module():
        return gen.in_unit(rng, 'Length', rng.choice([0.5e-3, 1e-3, 2e-3]), True) if rng.random() < 0.5 else None
    for _ in range(rng.randint(1, 5)):
        k = rng.choice(['fly', 'spur', 'helical', 'worm', 'wormrev'])
        if k == 'fly':
            i = add({'type': 'fly'})
            decls.append(['joint', prev, i])
            prev = i
        elif k in ('spur', 'helical'):
            mo = module()
            hx = gen.in_unit(rng, 'Angle', math.radians(rng.uniform(5, 40)), True)
            a = {'type': k, 'z': rng.randint(10, 90), 'module': mo}
            b = {'type': k, 'z': rng.randint(10, 90), 'module': list(mo) if mo and rng.random() < 0.7 else None}
            if k == 'helical':
                a['helix'], b['helix'] = hx, list(hx)
            ia, ib = add(a), add(b)
            decls.append(['joint', prev, ia])
            decls.append(['gear', ia, ib, rng.uniform(0.3, 1)] + rng.choice([[], [], [], [], ['np']]))
            prev = ib
        else:
            row = rng.choice(tbl)
            locking = rng.random() < 0.4 and k == 'worm'
            hx = rng.uniform(2, 6) if locking else rng.uniform(min(10, row[1] - 1), row[1] - 0.2)
            f = rng.uniform(0.25, 0.5) if locking else rng.uniform(0, 0.12)
            hq = gen.in_unit(rng, 'Angle', math.radians(hx), True)
            worm = {'type': 'wormgear', 'starts': rng.randint(1, 4), 'pa': [row[0], 'deg'], 'pa_deg': row[0], 'helix': hq,
                    'helix_deg': hx, 'd': gen.in_unit(rng, 'Length', 0.02, True) if rng.random() < 0.5 else None}
            wheel = {'type': 'wormwheel', 'z': rng.randint(10, 90), 'module': module(), 'pa': [row[0], 'deg'], 'pa_deg': row[0],
                     'helix': list(hq), 'helix_deg': hx, 'fw': gen.in_unit(rng, 'Length', 0.01, True) if rng.random() < 0.6 else None}
            if k == 'worm':
                ia, ib = add(worm), add(wheel)
            else:
                ia, ib = add(wheel), add(worm)
            decls.append(['joint', prev, ia])
            decls.append(['worm', ia, ib, f] + rng.choice([[], [], [], [], ['np']]))
            prev = ib
        if rng.random() < 0.3:
            # a failing or pointless call in between
            n = len(pool)
            decls.append(rng.choice([['joint', rng.randrange(n), 0], ['joint', prev, prev], ['gear', prev, rng.randrange(n), 1.4],
                                     ['gear', rng.randrange(n), rng.randrange(n), 0.9], ['worm', rng.randrange(n), rng.randrange(n), 0.1],
                                     ['worm', prev, rng.randrange(n), -0.5]]))
    if rng.random() < 0.35:
        # reuse: an element that is (or was) the slave of a mating becomes the slave of a fixed joint, and vice versa
        slaves = [d[2] for d in decls if d[0] in ('gear', 'worm')]
        if slaves:
            decls.append(['joint', 0, rng.choice(slaves)])
    if rng.random() < 0.3 and len(pool) > 3:
        # re-route: an earlier element now drives a new flywheel, cutting the tail off the chain
        i = add({'type': 'fly'})
        src = rng.randrange(1, len(pool) - 1)
        flagged = [d[1] for d in decls if d[0] == 'worm' and pool[d[1]]['type'] == 'wormgear' and d[3] >= 0.25]
        if flagged and rng.random() < 0.6:
            # the worm of a mating flagged self-locking is coupled to a flywheel instead: it stays in the chain with its flag
            src = rng.choice(flagged)
        decls.append(['joint', src, i])
        if rng.random() < 0.6:
            # ... and back: the relation that was cut off is declared again, word for word (the element drives its
            # former follower again; the detour element keeps a stale back-link only)
            back = [d for d in decls[:-1] if d[1] == src]
            if back:
                decls.append(list(back[-1]))
    return {'t': 'rel', 'pool': pool, 'decls': decls}


def twin_case(rng):
    """gear pairs whose modules (helix angles) are the same *number* in two different units — different modules,
    must be rejected — next to pairs whose modules are the same magnitude written in two units"""
    kind = rng.choice(['spur', 'spur', 'helical'])
    v = rng.choice([0.5, 1.0, 2.0, 3.0, 5.0])
    u1, u2 = rng.sample(['mm', 'cm', 'dm', 'm'], 2)
    hel = gen.in_unit(rng, 'Angle', math.radians(rng.uniform(5, 40)), True)

    def g(name, module, helix=None):
        e = {'type': kind, 'name': name, 'z': rng.randint(10, 90), 'module': module}
        if kind == 'helical':
            e['helix'] = list(helix or hel)
        return e
    pool = [{'type': 'motor', 'name': 'n0'}, g('n1', [v, u1]), g('n2', [v, u2]), g('n3', [v, u1])]
    decls = [['joint', 0, 1], ['gear', 1, 2, 0.9], ['gear', 1, 3, 0.9], ['gear', 2, 1, 0.8]]
    if kind == 'helical':
        hv = rng.choice([10.0, 20.0, 0.5])
        ua, ub = rng.sample(['deg', 'rad', 'arcmin', 'rot'], 2)
        if max(float(F(hv) * SI['Angle'][ua]), float(F(hv) * SI['Angle'][ub])) < math.radians(89):
            pool += [g('n4', [v, u1], [hv, ua]), g('n5', [v, u1], [hv, ub])]
            decls += [['gear', 4, 5, 0.9]]
    if rng.random() < 0.35:
        # two worm matings whose angles are the same *numbers* in different units (0.25 rad vs 0.25 deg): different
        # efficiencies, different self-locking thresholds
        n = len(pool)
        hv = rng.choice([0.1, 0.2, 0.25])       # (0.25 rad = 14.3 deg is below every tabulated helix limit)
        rowpa = rng.choice([14.5, 20.0, 25.0, 30.0])
        for k_, hu in enumerate(rng.sample(['rad', 'deg'], 2)):
            pool += [{'type': 'wormgear', 'name': f'n{n + 2 * k_}', 'pa': [rowpa, 'deg'], 'pa_deg': rowpa, 'helix': [hv, hu],
                      'helix_deg': math.degrees(float(F(hv) * SI['Angle'][hu])), 'starts': 2, 'd': None},
                     {'type': 'wormwheel', 'name': f'n{n + 2 * k_ + 1}', 'z': 30, 'module': None, 'pa': [rowpa, 'deg'], 'pa_deg': rowpa,
                      'helix': [hv, hu], 'helix_deg': math.degrees(float(F(hv) * SI['Angle'][hu])), 'fw': None}]
        fw = rng.choice([0.002, 0.01, 0.05])
        decls += [['worm', n, n + 1, fw], ['worm', n + 2, n + 3, fw]]
    if rng.random() < 0.4:
        # a helical gear whose helix angle is null is still a helical gear: it does not mate with a spur gear
        n = len(pool)
        zero = rng.choice([[0.0, 'deg'], [0.0, 'rad'], [0.0, 'arcsec']])
        pool += [{'type': 'spur', 'name': f'n{n}', 'z': rng.randint(10, 90), 'module': None},
                 {'type': 'helical', 'name': f'n{n + 1}', 'z': rng.randint(10, 90), 'module': None, 'helix': zero}]
        decls += [['gear', n, n + 1, 0.9], ['gear', n + 1, n, 0.9]]
    rng.shuffle(decls)
    return {'t': 'rel', 'pool': pool, 'decls': decls}


def worm_edge_case(rng, tbl):
    """worm matings around the limits of the efficiency range: friction near cos(alpha)/tan(beta) (worm drives:
    efficiency changes sign) or cos(alpha)*tan(beta) (wheel drives; also the self-locking criterion), steep and flat worms"""
    steepest = max(tbl, key=lambda r: r[1])      # only there can cos(alpha)/tan(beta) drop below 1
    row = steepest if rng.random() < 0.4 else rng.choice(tbl)
    hx = rng.choice([rng.uniform(max(1, row[1] - 8), row[1] - 0.05), rng.uniform(max(1, row[1] - 4), row[1] - 0.05), rng.uniform(1, 6),
                     rng.uniform(1, row[1] - 0.05)])
    pa = [row[0], 'deg'] if rng.random() < 0.7 else gen.in_unit(rng, 'Angle', math.radians(row[0]), True)
    if pa[1] == 'deg':
        pa = [row[0], 'deg']
    helix = gen.in_unit(rng, 'Angle', math.radians(hx), True)
    pool = [{'type': 'motor', 'name': 'n0'},
            {'type': 'wormgear', 'name': 'n1', 'pa': list(pa), 'pa_deg': row[0], 'helix': list(helix), 'helix_deg': hx,
             'starts': rng.randint(1, 4), 'd': None},
            {'type': 'wormwheel', 'name': 'n2', 'z': rng.randint(10, 90), 'module': None, 'pa': list(pa), 'pa_deg': row[0],
             'helix': list(helix), 'helix_deg': hx, 'fw': None}]
    cosA, tanB = math.cos(math.radians(row[0])), math.tan(math.radians(hx))
    decls = [['joint', 0, 1]] if rng.random() < 0.5 else []
    calls = []
    for m_, s_, crit in ((1, 2, cosA / tanB), (2, 1, cosA * tanB), (1, 2, cosA * tanB)):
        for side in (1, -1):
            delta = rng.choice([rng.uniform(0.01, 0.4), rng.uniform(1e-6, 1e-3)])
            f = min(max(crit * (1 + side * delta), 0.0), rng.choice([1.0, 1.0, 1.2]))
            calls.append(['worm', m_, s_, f])
    rng.shuffle(calls)
    decls += calls[:rng.randint(3, 6)]
    if rng.random() < 0.3:
        # the wheel drives a worm whose helix angle is null, without friction: f = 0 is not greater than cos(alpha)*tan(0) = 0
        pool.append({'type': 'wormgear', 'name': 'n3', 'pa': list(pa), 'pa_deg': row[0], 'helix': [0.0, rng.choice(['deg', 'rad'])],
                     'helix_deg': 0.0, 'starts': rng.randint(1, 4), 'd': None})
        decls.append(['worm', 2, 3, 0])
    return {'t': 'rel', 'pool': pool, 'decls': decls}


def worm_tbl():
    from harness.gears_h import read_csv
    return read_csv('worm_gear_and_wheel_data.csv')


def run_props(ctx, props, quick=300, thorough=12000):
    rng = ctx.rng
    tbl = worm_tbl()
    for _ in range(ctx.budget(quick, thorough) * ctx.boost):
        r = rng.random()
        if r < 0.15:
            case = worm_edge_case(rng, tbl)
            ctx.count('stream worm efficiency limits')
        elif r < 0.22:
            case = twin_case(rng)
            ctx.count('stream equal numbers in different units')
        elif r < 0.65:
            case = gen_chain_case(rng, tbl)
            ctx.count('stream mostly-valid chain')
        else:
            pool = gen_pool(rng, tbl)
            case = {'t': 'rel', 'pool': pool, 'decls': gen_decls(rng, pool)}
            ctx.count('stream random / malformed')
        eval_case(ctx, case, props)
    ctx.rule = ('pools of 3-9 elements of all six kinds (random teeth, modules, helix angles, the four worm pressure angles in '
                'random units, duplicate names now and then) and sequences of 3-12 declaration calls with compatible and '
                'incompatible pairs, efficiencies / friction coefficients in and out of range (a mostly-valid chain-building stream '
                'with interleaved failing calls and re-routing, a random / malformed stream, and a stream of worm matings with the friction '
                'coefficient around the limits of the efficiency range); every element is snapshotted '
                'before and after every call; then every motor of the pool is assembled; non-trivial = at least 3 calls')


def run_C10(ctx):
    run_props(ctx, ['C10'])


def simulated_cases(ctx, n):
    """C20 on powertrains that are then used: after runs, early stops, resets and reruns the element tuple and the
    self-locking flag are what they were at construction"""
    from harness import sim, sim_props
    sim_props.prep()
    for _ in range(n):
        spec = sim_props.dynamics_spec(ctx.rng, ctx, sl_bias=0.5, kind=ctx.rng.choice(['reset', 'reset', 'split', 'stop']))
        tr, b = sim.simulate(spec)
        case = {'t': 'sim', 'spec': spec}
        if tr['build_error']:
            ctx.count('simulated: build rejected')
            continue
        ctx.case_done(case, nontrivial=True)
        ctx.count('simulated ' + '+'.join(op['op'] for op in spec['ops']) + (' self-locking' if tr['sl_at_build'] else ''))
        if tr['sl'] != tr['sl_at_build']:
            ctx.violation(case, {'why': f"self_locking was {tr['sl_at_build']} at construction and is {tr['sl']} after the schedule"})
        elif tr['ids'] != tr['ids_at_build']:
            ctx.violation(case, {'why': 'the element tuple changed during the schedule'})


def run_C20(ctx):
    run_props(ctx, ['C20'])
    simulated_cases(ctx, ctx.budget(25, 400))


def replay_C10(ctx, case):
    eval_case(ctx, case, ['C10'])


def replay_C20(ctx, case):
    if case.get('t') == 'sim':
        from harness import sim, sim_props
        sim_props.prep()
        tr, b = sim.simulate(case['spec'])
        if not tr['build_error'] and (tr['sl'] != tr['sl_at_build'] or tr['ids'] != tr['ids_at_build']):
            ctx.violation(case, {'why': f"self_locking / elements changed during the schedule ({tr['sl_at_build']} -> {tr['sl']})"})
        return
    eval_case(ctx, case, ['C20'])
