import Gearpy.Model.Solver
import Gearpy.Model.Motor
import Gearpy.Model.Units
/-!
# Gearpy.Model.Control — control rules, arbitration, sensors, stop conditions (SI level)

Mirrors `motor_control/pwm_control.py`, `motor_control/rules/*.py`, `sensors/*.py`,
`utils/stop_condition/*.py`.

Unit-aware comparisons.  The code compares quantities with `UnitBase.__ge__` & co: exactly when
both operands carry the same unit, with the absolute tolerance `1e-12` *in the left operand's
unit* otherwise.  At SI level this is `cmpRaw (tol·f) c exact x y` with `f` the SI factor of the
left operand's unit (`Gearpy.Properties.C07.cmpRaw_scale` proves the two views agree), so every
comparison site carries a `CmpCtx`.

`sqrt` is a parameter (`SqrtFn`): theorems assume only `r ≥ 0 ∧ r² = x` for `x ≥ 0`
and `none` (NumPy's `nan`) for `x < 0`; the driver plugs in a rational Newton iteration.
-/

namespace Gearpy

/-- how a unit-aware comparison at a given site behaves at SI level -/
structure CmpCtx where
  exact : Bool      -- both operands carry the same unit
  tol : Q           -- `COMPARISON_TOLERANCE` × SI factor of the left operand's unit
  deriving Repr, Inhabited

def cmpSI (x : CmpCtx) (c : Cmp) (a b : Q) : Bool := cmpRaw x.tol c x.exact a b

/-- `numpy.sqrt` on a real: `none` stands for `nan` -/
abbrev SqrtFn := Q → Option Q

/-- value proposed by a rule: `none` = not applicable; `some none` = applicable with value `nan` -/
abbrev Proposal := Option (Option Q)

/-- `Timer.is_active` -/
def timerActive (cGe cLe : CmpCtx) (start dur t : Q) : Bool :=
  cmpSI cGe .ge t start && cmpSI cLe .le (t - start) dur

/-- efficiency product over the `SpurGear` instances of the chain (`rules/utils.py`) -/
def ctlEff (links : List Link) : Q := links.foldl (fun e l => if l.spur then e * l.eff else e) 1

inductive Rule
  /-- `ConstantPWM(timer(start, duration), value)` -/
  | constant (cGe cLe : CmpCtx) (start dur value : Q)
  /-- `ReachAngularPosition(encoder on element idx, target, braking angle)` -/
  | reach (cx : CmpCtx) (idx : Nat) (target braking : Q)
  /-- `StartProportionalToAngularPosition(encoder idx, target, multiplier, pwm_min?)` -/
  | startProp (cx : CmpCtx) (idx : Nat) (target mult : Q) (pmin : Option Q)
  /-- `StartLimitCurrent(encoder idx, tachometer idx, target, limit current)` -/
  | startLimit (cx : CmpCtx) (eIdx tIdx : Nat) (target ilim : Q)
  deriving Repr, Inhabited

/-- static parameters of the powertrain the rules read -/
structure CtlEnv where
  motor : MotorP
  eff : Q            -- `ctlEff links`
  sqrt : SqrtFn

/-- `_compute_static_error / braking_angle`'s scalar: raises `ValueError` through
    `float * Angle` when negative -/
def staticError (e : CtlEnv) (load0 braking : Q) : Except Err Q :=
  let k := load0 / e.motor.tmax / e.eff
  if k < 0 then .error .valueE else .ok (k * braking)

/-- `_compute_pwm_min` -/
def pwmMinFn (e : CtlEnv) (firstLoad0 : Q) : Q :=
  match e.motor.cur with
  | some (i0, imax) => 1 / e.eff * (firstLoad0 / e.motor.tmax) * ((imax - i0) / imax) + i0 / imax
  | none => 0

/-- `rule.apply()` -/
def Rule.apply (e : CtlEnv) (i : CtlIn) : Rule → Except Err Proposal
  | .constant cGe cLe start dur value =>
      .ok (if timerActive cGe cLe start dur i.time then some (some value) else none)
  | .reach cx idx target braking =>
      match staticError e i.load0 braking with
      | .error err => .error err
      | .ok se =>
        let start := target - braking + se
        let x := i.pos.getD idx 0
        if cmpSI cx .ge x start then
          if braking = 0 then .error .zeroDiv else .ok (some (some (1 - (x - start) / braking)))
        else .ok none
  | .startProp cx idx target mult pmin =>
      let computed := mult * pwmMinFn e i.firstLoad0
      let pm : Except Err Q :=
        if computed ≠ 0 then .ok computed else match pmin with
          | some p => .ok p
          | none => .error .valueE
      match pm with
      | .error err => .error err
      | .ok pm =>
        let x := i.pos.getD idx 0
        if cmpSI cx .le x target then
          if target = 0 then .error .zeroDiv else .ok (some (some ((1 - pm) * x / target + pm)))
        else .ok none
  | .startLimit cx eIdx tIdx target ilim =>
      match e.motor.cur with
      | none => .error .valueE
      | some (i0, imax) =>
        let s := i.speed.getD tIdx 0 / e.motor.w0
        let el := ilim / imax
        let disc := s * s + el * el + 2 * s * ((ilim - 2 * i0) / imax)
        let x := i.pos.getD eIdx 0
        if cmpSI cx .le x target then
          .ok (some ((e.sqrt disc).map fun r => 1 / 2 * (s + el + r)))
        else .ok none

/-- `_saturate_pwm` -/
def saturate (v : Q) : Q := if v < -1 then -1 else if 1 < v then 1 else v

/-- `PWMControl.apply_rules` given the proposals: count the applicable ones, saturate, default 1,
    then the `pwm` setter (which rejects `nan`) -/
def arbitrate (ps : List Proposal) : Except Err Q :=
  match ps.filterMap id with
  | [] => .ok 1
  | [some v] => setPwm (saturate v)
  | [none] => .error .valueE          -- nan is rejected by the setter
  | _ => .error .valueE               -- two or more rules applicable

def applyAll (e : CtlEnv) (i : CtlIn) : List Rule → Except Err (List Proposal)
  | [] => .ok []
  | r :: rs => match r.apply e i with
    | .error err => .error err
    | .ok p => match applyAll e i rs with
      | .error err => .error err
      | .ok ps => .ok (p :: ps)

/-- the controller handed to the solver -/
def pwmControl (e : CtlEnv) (rules : List Rule) (i : CtlIn) : Except Err Q :=
  match applyAll e i rules with
  | .error err => .error err
  | .ok ps => arbitrate ps

/-- sensors -/
inductive Sensor
  | encoder (idx : Nat) | tachometer (idx : Nat) | amperometer
  deriving Repr, Inhabited, DecidableEq

def Sensor.read (r : Rec) : Sensor → Q
  | .encoder i => r.pos.getD i 0
  | .tachometer i => r.speed.getD i 0
  | .amperometer => r.current.getD 0

/-- `StopCondition.check_condition` on the instant just recorded -/
def stopCond (cx : CmpCtx) (sen : Sensor) (op : Cmp) (threshold : Q) (r : Rec) : Bool :=
  cmpSI cx op (sen.read r) threshold

end Gearpy
