#!/bin/bash
# usage: reftest.sh <patch> [checks...] — behaviour-preserving refactoring: every check must stay quiet
patch=$1; shift
checks=${@:-C01 C02 C03 C04 C05 C06 C07 C08 C09 C10 C11 C12 C13 C14 C15 C16 C17 C18 C19 C20}
cd /repo && git diff --quiet || { echo "/repo dirty"; exit 2; }
git -C /repo apply "$patch" || { echo "patch does not apply"; exit 2; }
cd /verif
for p in $checks; do
  out=$(timeout 1500 /venv/bin/python tools/check.py $p --tier quick 2>&1); rc=$?
  [ $rc -ne 0 ] && { echo "ALARM $p rc=$rc"; echo "$out" | grep -v "^KNOWN-FINDING" | head -5 | cut -c1-300; }
done
git -C /repo checkout -- .
echo "done $(basename $patch)"
