import Gearpy.Model.Control
import Gearpy.Proofs.Solver
/-!
# C14 — duty-cycle arbitration: one rule wins, default 1, always within [-1, 1]

On the proposals of the rule set at an instant (`none` = not applicable):
* `arbitrate_none`: no rule applicable ⇒ duty cycle 1;
* `arbitrate_one`: exactly one applicable, proposing a number `v` ⇒ `saturate v` (= `v` clipped
  to [-1, 1], `saturate_spec`);
* `arbitrate_two`: two or more applicable ⇒ `ValueError`; `conflict_stops`: the error
  propagates out of `compute`, `run` and the whole schedule — the simulation does not continue;
* `arbitrate_nan`: a single applicable rule proposing `nan` (square root of a negative number in
  StartLimitCurrent) ⇒ `ValueError` from the duty-cycle setter (repair D8; before it, `nan` was
  stored and recorded);
* `compute_applies_control`: the duty cycle recorded at an instant is the controller's output on that
  instant's own state, held or not;
* `arbitrate_range`, `recorded_in_range` and `recorded_in_range_segments` (the controller being a parameter of
  each run): every duty cycle recorded along any history lies in
  [-1, 1] (the attribute starts in range: constructor default 1 or the validating setter).
-/

namespace Gearpy.C14
open Gearpy

theorem saturate_spec (v : Q) :
    saturate v = (if v < -1 then -1 else if 1 < v then 1 else v) ∧ -1 ≤ saturate v ∧ saturate v ≤ 1 := by
  unfold saturate
  refine ⟨rfl, ?_, ?_⟩ <;> split_ifs <;> linarith

theorem saturate_id (v : Q) (h1 : -1 ≤ v) (h2 : v ≤ 1) : saturate v = v := by
  unfold saturate
  rw [if_neg (by linarith), if_neg (by linarith)]

theorem arbitrate_none (ps : List Proposal) (h : ps.filterMap id = []) : arbitrate ps = .ok 1 := by
  unfold arbitrate; rw [h]

theorem arbitrate_one (ps : List Proposal) (v : Q) (h : ps.filterMap id = [some v]) :
    arbitrate ps = .ok (saturate v) := by
  unfold arbitrate; rw [h]
  have := saturate_spec v
  simp only [setPwm]
  rw [if_pos ⟨this.2.1, this.2.2⟩]

theorem arbitrate_nan (ps : List Proposal) (h : ps.filterMap id = [none]) : arbitrate ps = .error .valueE := by
  unfold arbitrate; rw [h]

theorem arbitrate_two (ps : List Proposal) (h : 2 ≤ (ps.filterMap id).length) : arbitrate ps = .error .valueE := by
  unfold arbitrate
  match hm : ps.filterMap id, h with
  | a :: b :: rest, _ => simp

/-- whatever arbitration returns lies in [-1, 1] -/
theorem arbitrate_range (ps : List Proposal) (d : Q) (h : arbitrate ps = .ok d) : -1 ≤ d ∧ d ≤ 1 := by
  unfold arbitrate at h
  split at h
  · simp only [Except.ok.injEq] at h; subst h; constructor <;> norm_num
  · unfold setPwm at h
    split at h
    · rename_i hc; simp only [Except.ok.injEq] at h; subst h; exact hc
    · simp at h
  · simp at h
  · simp at h

theorem pwmControl_range (e : CtlEnv) (rules : List Rule) (i : CtlIn) (d : Q)
    (h : pwmControl e rules i = .ok d) : -1 ≤ d ∧ d ≤ 1 := by
  unfold pwmControl at h
  split at h
  · simp at h
  · exact arbitrate_range _ d h

/-- a controller all of whose outputs lie in [-1, 1] -/
def CtlRanged (c : Cfg) : Prop := ∀ f, c.control = some f → ∀ i d, f i = .ok d → -1 ≤ d ∧ d ≤ 1

def PwmInv (s : St) : Prop := (-1 ≤ s.pwm ∧ s.pwm ≤ 1) ∧ ∀ r ∈ s.recs, -1 ≤ r.pwm ∧ r.pwm ≤ 1

theorem compute_pwm (c : Cfg) (hc : CtlRanged c) (s s' : St) (t : Q) (h : PwmInv s)
    (hcm : compute c s t = .ok s') : PwmInv s' := by
  unfold compute at hcm; simp only at hcm
  split at hcm
  · simp at hcm
  · rename_i pwm hp
    split at hcm
    · simp at hcm
    · split at hcm
      · simp at hcm
      · simp only [Except.ok.injEq] at hcm; subst hcm
        have hr : -1 ≤ pwm ∧ pwm ≤ 1 := by
          cases hcc : c.control with
          | none => rw [hcc] at hp; simp only [Except.ok.injEq] at hp; rw [← hp]; exact h.1
          | some f => rw [hcc] at hp; exact hc f hcc _ _ hp
        refine ⟨hr, ?_⟩
        intro r hrm
        simp only [List.mem_append, List.mem_singleton] at hrm
        rcases hrm with h1 | h1
        · exact h.2 r h1
        · rw [h1]; exact hr

theorem loop_pwm (c : Cfg) (hc : CtlRanged c) (dt : Q) (stop) (ts : List Q) (s s' : St) (h : PwmInv s)
    (hl : loop c dt stop ts s = .ok s') : PwmInv s' := by
  induction ts generalizing s with
  | nil => simp [loop] at hl; subst hl; exact h
  | cons t ts ih =>
    simp only [loop] at hl
    split at hl
    · simp at hl
    · rename_i s1 h1
      have i1 : PwmInv s1 := compute_pwm c hc _ _ t (by simpa [integrate, PwmInv] using h) h1
      split at hl
      · simp only [Except.ok.injEq] at hl; subst hl; exact i1
      · exact ih s1 i1 hl

theorem applyOp_pwm (c : Cfg) (hc : CtlRanged c) (s s' : St) (o : Op) (h : PwmInv s)
    (ha : applyOp c s o = .ok s') : PwmInv s' := by
  cases o with
  | run dt n stop =>
    simp only [applyOp, run] at ha
    split at ha
    · exact loop_pwm c hc dt stop _ s s' h ha
    · split at ha
      · simp at ha
      · rename_i s0 h0
        exact loop_pwm c hc dt stop _ s0 s' (compute_pwm c hc _ s0 0 (by simpa [PwmInv] using h) h0) ha
  | reset =>
    simp only [applyOp, reset] at ha
    split at ha
    · simp at ha
    · rename_i r rs hrs
      simp only [Except.ok.injEq] at ha; subst ha
      exact ⟨h.2 r (by rw [hrs]; simp), by simp⟩
  | setInitial p v => simp [applyOp] at ha; subst ha; exact h
  | setPwm p =>
    simp only [applyOp] at ha
    split at ha
    · rename_i hp; simp only [Except.ok.injEq] at ha; subst ha; exact ⟨hp, h.2⟩
    · simp at ha
  | newSolver => simp [applyOp] at ha; subst ha; exact h

/-- C14: every duty cycle recorded along any history lies in [-1, 1] -/
theorem recorded_in_range (c : Cfg) (hc : CtlRanged c) (ops : List Op) (p v : Q) (s' : St)
    (he : exec c ops (St.init p v) = .ok s') : ∀ r ∈ s'.recs, -1 ≤ r.pwm ∧ r.pwm ≤ 1 := by
  suffices PwmInv s' from this.2
  have h0 : PwmInv (St.init p v) := by unfold PwmInv St.init; simp
  generalize St.init p v = s at he h0
  induction ops generalizing s with
  | nil => simp [exec] at he; subst he; exact h0
  | cons o os ih =>
    simp only [exec] at he
    split at he
    · simp at he
    · rename_i s1 h1
      exact ih s1 he (applyOp_pwm c hc s s1 o h0 h1)

theorem exec_pwm (c : Cfg) (hc : CtlRanged c) (ops : List Op) (s s' : St) (h : PwmInv s)
    (he : exec c ops s = .ok s') : PwmInv s' := by
  induction ops generalizing s with
  | nil => simp [exec] at he; subst he; exact h
  | cons o os ih =>
    simp only [exec] at he
    split at he
    · simp at he
    · rename_i s1 h1
      exact ih s1 (applyOp_pwm c hc s s1 o h h1) he

/-- C14 when the controller is a parameter of each run (`execSeg`: every segment has its own configuration,
    in particular its own controller or none): every recorded duty cycle still lies in [-1, 1] -/
theorem recorded_in_range_segments : ∀ (segs : List (Cfg × List Op)) (s s' : St),
    (∀ seg ∈ segs, CtlRanged seg.1) → PwmInv s → execSeg segs s = .ok s' → PwmInv s'
  | [], s, s', _, h, he => by simp [execSeg] at he; subst he; exact h
  | (c, ops) :: rest, s, s', hall, h, he => by
    simp only [execSeg] at he
    split at he
    · simp at he
    · rename_i s1 h1
      exact recorded_in_range_segments rest s1 s' (fun seg hs => hall seg (by simp [hs]))
        (exec_pwm c (hall (c, ops) (by simp)) ops s s1 h h1) he

/-- the controller built from rules satisfies `CtlRanged` -/
theorem pwmControl_ranged (c : Cfg) (e : CtlEnv) (rules : List Rule) (h : c.control = some (pwmControl e rules)) :
    CtlRanged c := by
  intro f hf i d hd
  rw [h] at hf; simp only [Option.some.injEq] at hf; subst hf
  exact pwmControl_range e rules i d hd

/-- a conflict at an instant aborts the instant, the run and the whole schedule -/
theorem conflict_stops (c : Cfg) (f : CtlIn → Except Err Q) (hc : c.control = some f) (s : St) (t : Q)
    (hconf : ∀ i, f i = .error .valueE) : compute c s t = .error .valueE := by
  unfold compute; simp only [hc, hconf]

theorem exec_error_propagates (c : Cfg) (o : Op) (os : List Op) (s : St) (e : Err)
    (h : applyOp c s o = .error e) : exec c (o :: os) s = .error e := by
  simp [exec, h]

/-- after motor control is applied at an instant, the recorded duty cycle is the controller's output on
    that instant's state — also while the powertrain is held by self-locking (control is never skipped) -/
theorem compute_applies_control (c : Cfg) (f : CtlIn → Except Err Q) (hc : c.control = some f) (s s' : St) (t : Q)
    (h : compute c s t = .ok s') :
    ∃ r i, s'.recs = s.recs ++ [r] ∧ i.time = t ∧ i.pos = r.pos ∧ i.speed = r.speed ∧
      i.load0 = r.ltorque.headD 0 ∧ f i = .ok r.pwm ∧ s'.pwm = r.pwm := by
  unfold compute at h; simp only [hc] at h
  split at h
  · simp at h
  · rename_i pwm hp
    split at h
    · simp at h
    · split at h
      · simp at h
      · simp only [Except.ok.injEq] at h; subst h
        exact ⟨_, _, rfl, rfl, rfl, rfl, rfl, hp, rfl⟩

/-! ### non-vacuity -/
example : arbitrate [none, some (some 5), none] = .ok 1 := by decide +kernel
example : arbitrate [none, some (some 0)] = .ok 0 := by decide +kernel      -- a proposal of exactly 0 is a proposal
example : arbitrate [some (some (1/2)), some (some (1/3))] = .error .valueE := by decide +kernel
example : arbitrate [none, some none] = .error .valueE := by decide +kernel

end Gearpy.C14
