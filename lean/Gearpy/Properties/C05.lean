import Gearpy.Proofs.Units
import Gearpy.Spec.SI
import Gearpy.Proofs.GenTable
/-!
# C05 — unit conversion agrees with SI definitions; comparisons are unit-blind

Table theorems (about the table **regenerated from the source on every run**):
* `unit_names_match_SI`, `factor_matches_SI`: the code's units are exactly the SI spec's, and every
  factor equals its structural SI definition up to 2⁻⁵⁰ relative (double rounding of `2*pi/60` …);
* `gen_good`: the generated table satisfies `Tbl.Good` (positive factors, SI unit = 1,
  sub-kinds share their base kind's table).

Laws for every `Good` table, every value, every unit:
* `toCopy_si`, `toInplace_si`: conversion keeps the SI magnitude; `toInplace_eq_copy`;
  `conv_roundtrip`: there and back is the identity (exact in ℚ);
* `cmp_unit_blind`: a comparison is a function of the two SI magnitudes, of whether the units
  coincide, and of the tolerance `tol·f(left unit)`;
* `cmp_distinct_partial`: operands whose SI gap exceeds `tol·f(left unit)` are ordered as their
  magnitudes are; `cmp_same_partial`, `eq_symm_partial`: operands closer than both tolerances compare
  equal whichever is on the left.
The full-strength statements (gap measured *relative* to the magnitudes) are false of the
code — it uses an absolute tolerance — `K1_witness_*` prove the negation on the generated table
(known finding K1).
-/

namespace Gearpy.C05
open Gearpy Gearpy.Kind

/-- the code's unit names are exactly the SI spec's, in the same order -/
theorem unit_names_match_SI : ∀ k ∈ allKinds, Gen.unitNames k = (SI.units k).map (·.1) := by
  decide +kernel

/-- |factor − SI definition| ≤ SI definition · 2⁻⁵⁰, entry by entry -/
def factorsClose (fs : List Q) (ss : List Q) : Bool :=
  fs.length == ss.length &&
  (List.zipWith (fun f s => decide (qabs (f - s) ≤ s / 1125899906842624)) fs ss).all id

theorem factor_matches_SI : ∀ k ∈ allKinds, factorsClose (Gen.factors k) ((SI.units k).map (·.2)) = true := by
  decide +kernel

theorem gen_good : Gen.tbl.Good := Gearpy.gen_good

variable {T : Tbl}

/-- copy conversion keeps the SI magnitude -/
theorem toCopy_si (g : T.Good) (a r : Qty) (u : Nat) (h : toCopy T a u = .ok r) : siMag T r = siMag T a := by
  unfold toCopy at h; simp only [mk_eq_ok] at h; rw [h.2]; exact conv_mul g a u

/-- in-place conversion keeps the SI magnitude -/
theorem toInplace_si (g : T.Good) (a : Qty) (u : Nat) : siMag T (toInplace T a u) = siMag T a := by
  unfold toInplace; exact conv_mul g a u

/-- copying and in-place conversion give the same object; the copy is a new value (the original
    `a` is not an output of `toCopy`, so it is untouched by construction) -/
theorem toInplace_eq_copy (a r : Qty) (u : Nat) (h : toCopy T a u = .ok r) : toInplace T a u = r := by
  unfold toCopy at h; simp only [mk_eq_ok] at h; rw [h.2]; rfl

/-- a valid quantity always converts (factors are positive, so the sign constraint is kept) -/
theorem toCopy_ok (g : T.Good) (a : Qty) (u : Nat) (h : signOk a.kind a.value = true) :
    ∃ r, toCopy T a u = .ok r := by
  have hp := g.pos a.kind a.unit; have hq := g.pos a.kind u
  refine ⟨⟨a.kind, conv T a u, u⟩, ?_⟩
  unfold toCopy; simp only [mk_eq_ok, and_true]
  unfold conv
  split
  · exact h
  · cases hk : a.kind <;> simp_all [signOk]
    · exact div_nonneg (mul_nonneg h hp.le) hq.le
    all_goals exact div_pos (mul_pos h hp) hq

/-- converting there and back returns the original value (exactly, in ℚ) -/
theorem conv_roundtrip (g : T.Good) (a : Qty) (u : Nat) :
    conv T ⟨a.kind, conv T a u, u⟩ a.unit = a.value := by
  unfold conv
  by_cases h : u = a.unit
  · simp [h]
  · have h' : ¬ a.unit = u := fun e => h e.symm
    simp only [h, h', if_false]
    have := ne_of_gt (g.pos a.kind u); have := ne_of_gt (g.pos a.kind a.unit); field_simp

/-- conversion multiplies the value by the ratio of the two units' SI definitions -/
theorem conv_ratio (a : Qty) (u : Nat) (h : u ≠ a.unit) :
    conv T a u = a.value * (T.f a.kind a.unit / T.f a.kind u) := by
  unfold conv; simp [h]; ring

/-- comparisons are unit-blind up to the tolerance: the outcome is determined by the SI magnitudes
    (`effLeft` is the operand whose method runs under CPython's reflected dispatch) -/
theorem cmp_unit_blind (g : T.Good) (c : Cmp) (a o : Qty) (b : Bool) (h : cmp T c a (.q o) = .ok b) :
    b = cmpRaw (T.tol * T.f (effLeft a o).kind (effLeft a o).unit) (effCmp c a o)
          ((effLeft a o).unit == (effRight a o).unit) (siMag T (effLeft a o)) (siMag T (effRight a o)) :=
  cmp_si g c a o b h

/-- the SI order a comparison operator stands for -/
def siOrder (c : Cmp) (x y : Q) : Bool :=
  match c with
  | .eq => x == y | .ne => x != y | .lt => decide (x < y) | .le => decide (x ≤ y)
  | .gt => decide (y < x) | .ge => decide (y ≤ x)

theorem siOrder_swap (c : Cmp) (x y : Q) : siOrder (swapCmp c) y x = siOrder c x y := by
  cases c <;> simp [siOrder, swapCmp, eq_comm, bne]

/-- raw comparison of operands further apart than the tolerance = the exact order -/
theorem cmpRaw_distinct (t x y : Q) (c : Cmp) (e : Bool) (ht : 0 < t) (hgap : t < qabs (x - y)) :
    cmpRaw t c e x y = siOrder c x y := by
  have hcase : t < x - y ∨ x - y < -t := by
    unfold qabs at hgap; split at hgap
    · right; linarith
    · left; exact hgap
  cases e
  · simp only [cmpRaw, siOrder, Bool.false_eq_true, if_false]
    rcases hcase with hc1 | hc1
    · have hq : qabs (x - y) = x - y := by unfold qabs; rw [if_neg (by linarith)]
      have hne : x ≠ y := by intro e; rw [e, sub_self] at hc1; linarith
      cases c <;> simp only [hq, bne, Bool.beq_eq_decide_eq, decide_eq_decide, Bool.not_eq_eq_eq_not, Bool.not_not]
      · constructor
        · intro h'; linarith
        · intro h'; exact absurd h' hne
      · simp only [hne, decide_false, Bool.not_false, decide_eq_true_eq]; exact hc1
      all_goals (constructor <;> intro <;> linarith)
    · have hq : qabs (x - y) = -(x - y) := by unfold qabs; rw [if_pos (by linarith)]
      have hne : x ≠ y := by intro e; rw [e, sub_self] at hc1; linarith
      cases c <;> simp only [hq, bne, Bool.beq_eq_decide_eq, decide_eq_decide, Bool.not_eq_eq_eq_not, Bool.not_not]
      · constructor
        · intro h'; linarith
        · intro h'; exact absurd h' hne
      · simp only [hne, decide_false, Bool.not_false, decide_eq_true_eq]; linarith
      all_goals (constructor <;> intro <;> linarith)
  · cases c <;> rfl

/-- operands whose SI magnitudes differ by more than the (absolute) tolerance — expressed through
    the unit of the operand whose method runs — are ordered as their magnitudes are -/
theorem cmp_distinct_partial (g : T.Good) (c : Cmp) (a o : Qty) (b : Bool)
    (h : cmp T c a (.q o) = .ok b)
    (hgap : T.tol * T.f (effLeft a o).kind (effLeft a o).unit < qabs (siMag T a - siMag T o)) :
    b = siOrder c (siMag T a) (siMag T o) := by
  rw [cmp_si g c a o b h]
  have ht : 0 < T.tol * T.f (effLeft a o).kind (effLeft a o).unit := mul_pos g.tolpos (g.pos _ _)
  by_cases hr : reflected a.kind o.kind = true
  · have e1 : effLeft a o = o := by simp [effLeft, hr]
    have e2 : effRight a o = a := by simp [effRight, hr]
    have e3 : effCmp c a o = swapCmp c := by simp [effCmp, hr]
    rw [e1] at hgap ht; rw [e1, e2, e3]
    rw [cmpRaw_distinct _ _ _ _ _ ht (by rw [← qabs_neg]; convert hgap using 2; ring)]
    exact siOrder_swap c _ _
  · have e1 : effLeft a o = a := by simp [effLeft, hr]
    have e2 : effRight a o = o := by simp [effRight, hr]
    have e3 : effCmp c a o = c := by simp [effCmp, hr]
    rw [e1] at hgap ht; rw [e1, e2, e3]
    exact cmpRaw_distinct _ _ _ _ _ ht hgap

/-- operands closer than the tolerance in *both* operands' units compare equal whichever is left -/
theorem eq_symm_partial (g : T.Good) (a o : Qty) (b1 b2 : Bool)
    (h1 : cmp T .eq a (.q o) = .ok b1) (h2 : cmp T .eq o (.q a) = .ok b2)
    (hu : a.unit ≠ o.unit)
    (hgap1 : qabs (siMag T a - siMag T o) < T.tol * T.f a.kind a.unit)
    (hgap2 : qabs (siMag T a - siMag T o) < T.tol * T.f o.kind o.unit) :
    b1 = true ∧ b2 = true := by
  have hu1 : (a.unit == o.unit) = false := by simpa using hu
  have hu2 : (o.unit == a.unit) = false := by simpa using fun e : o.unit = a.unit => hu e.symm
  have hsw : qabs (siMag T o - siMag T a) = qabs (siMag T a - siMag T o) := by
    rw [← qabs_neg]; congr 1; ring
  have key : ∀ x y : Qty, (x = a ∧ y = o) ∨ (x = o ∧ y = a) →
      cmpRaw (T.tol * T.f x.kind x.unit) .eq (x.unit == y.unit) (siMag T x) (siMag T y) = true := by
    intro x y hxy
    rcases hxy with ⟨rfl, rfl⟩ | ⟨rfl, rfl⟩
    · simp only [cmpRaw, hu1, Bool.false_eq_true, if_false, decide_eq_true_eq]; exact hgap1
    · simp only [cmpRaw, hu2, Bool.false_eq_true, if_false, decide_eq_true_eq, hsw]; exact hgap2
  constructor
  · rw [cmp_si g .eq a o b1 h1]
    have : effCmp .eq a o = .eq := by unfold effCmp; split <;> rfl
    rw [this]
    apply key
    unfold effLeft effRight; split <;> simp
  · rw [cmp_si g .eq o a b2 h2]
    have : effCmp .eq o a = .eq := by unfold effCmp; split <;> rfl
    rw [this]
    apply key
    unfold effLeft effRight; split <;> simp

/-- with equal units comparisons are exact -/
theorem cmp_same_unit_exact (g : T.Good) (c : Cmp) (a o : Qty) (b : Bool) (hu : a.unit = o.unit)
    (h : cmp T c a (.q o) = .ok b) : b = siOrder c (siMag T a) (siMag T o) := by
  rw [cmp_si g c a o b h]
  by_cases hr : reflected a.kind o.kind = true
  · have e1 : effLeft a o = o := by simp [effLeft, hr]
    have e2 : effRight a o = a := by simp [effRight, hr]
    have e3 : effCmp c a o = swapCmp c := by simp [effCmp, hr]
    rw [e1, e2, e3]
    have : (o.unit == a.unit) = true := by simp [hu]
    rw [this, ← siOrder_swap c]; cases c <;> rfl
  · have e1 : effLeft a o = a := by simp [effLeft, hr]
    have e2 : effRight a o = o := by simp [effRight, hr]
    have e3 : effCmp c a o = c := by simp [effCmp, hr]
    rw [e1, e2, e3]
    have : (a.unit == o.unit) = true := by simp [hu]
    rw [this]; cases c <;> rfl

/-! ### K1: the tolerance is absolute, so the full-strength statement fails -/

/-- the statement at full strength: operands whose magnitudes differ by a factor 2 are never equal -/
def eq_relative_full (T : Tbl) : Prop :=
  ∀ a o : Qty, cmp T .eq a (.q o) = .ok true → a.unit ≠ o.unit →
    qabs (siMag T a - siMag T o) ≤ siMag T a / 1000000000

/-- `Length(1e-13,'m') == Length(2e-10,'mm')` is True although the magnitudes differ by a factor 2 … -/
theorem K1_witness_eq :
    cmp Gen.tbl .eq ⟨length, 1/10000000000000, 0⟩ (.q ⟨length, 2/10000000000, 3⟩) = .ok true := by
  decide +kernel

/-- … and False with the operands swapped -/
theorem K1_witness_swapped :
    cmp Gen.tbl .eq ⟨length, 2/10000000000, 3⟩ (.q ⟨length, 1/10000000000000, 0⟩) = .ok false := by
  decide +kernel

theorem eq_relative_full_false : ¬ eq_relative_full Gen.tbl := by
  intro h
  have := h _ _ K1_witness_eq (by decide)
  revert this
  decide +kernel

/-! ### non-vacuity -/
example : toCopy Gen.tbl ⟨angSpeed, 60, 7⟩ 0 = .ok ⟨angSpeed, conv Gen.tbl ⟨angSpeed, 60, 7⟩ 0, 0⟩ := by
  decide +kernel

end Gearpy.C05
