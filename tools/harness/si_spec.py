"""SI definitions of gearpy's units written from first principles (independent of the code's
tables): SI prefixes, g0 = 9.80665 m/s², minute, hour, degree, arc-minute, arc-second, turn.
Mirrors lean/Gearpy/Spec/SI.lean; used by the Python-side oracles."""
from fractions import Fraction as F
import math

PI = F(math.pi)          # the double nearest to pi, exactly
G0 = F(980665, 100000)
PREFIX = {'': F(1), 'k': F(1000), 'm': F(1, 1000), 'u': F(1, 10 ** 6), 'M': F(10 ** 6), 'G': F(10 ** 9)}
LEN = {'m': F(1), 'dm': F(1, 10), 'cm': F(1, 100), 'mm': F(1, 1000)}
ANG = {'rad': F(1), 'deg': PI / 180, 'arcmin': PI / 180 / 60, 'arcsec': PI / 180 / 3600, 'rot': 2 * PI}
TIME = {'sec': F(1), 'min': F(60), 'hour': F(3600), 'ms': F(1, 1000)}


def _ang_speed():
    d = {}
    for a, av in (('rad', ANG['rad']), ('deg', ANG['deg'])):
        for t, tv in (('s', 1), ('min', 60), ('h', 3600)):
            d[f'{a}/{t}'] = av / tv
    d.update({'rps': 2 * PI, 'rpm': 2 * PI / 60, 'rph': 2 * PI / 3600})
    return d


def _inertia():
    return {f'{m}{l}^2': mv * lv * lv for m, mv in (('kg', F(1)), ('g', F(1, 1000))) for l, lv in LEN.items()}


def _torque():
    d = {}
    for f, fv in (('N', F(1)), ('mN', F(1, 1000)), ('kN', F(1000)), ('kgf', G0), ('gf', G0 / 1000)):
        for l, lv in LEN.items():
            if f == 'N' and l != 'm':
                continue
            d[f'{f}{l}'] = fv * lv
    return d


SI = {
    'AngularPosition': ANG, 'Angle': ANG,
    'AngularSpeed': _ang_speed(),
    'AngularAcceleration': {'rad/s^2': F(1), 'deg/s^2': ANG['deg'], 'rot/s^2': 2 * PI},
    'InertiaMoment': _inertia(),
    'Torque': _torque(),
    'Time': TIME, 'TimeInterval': TIME,
    'Length': LEN,
    'Surface': {f'{l}^2': lv * lv for l, lv in LEN.items()},
    'Force': {'N': F(1), 'mN': F(1, 1000), 'kN': F(1000), 'kgf': G0, 'gf': G0 / 1000},
    'Stress': {'Pa': F(1), 'kPa': F(1000), 'MPa': F(10 ** 6), 'GPa': F(10 ** 9)},
    'Current': {'A': F(1), 'mA': F(1, 1000), 'uA': F(1, 10 ** 6)},
}

# dimension vectors (angle, time, mass, length, current); torque carries the angle so that torque / inertia = rad/s²
DIM = {
    'AngularPosition': (1, 0, 0, 0, 0), 'Angle': (1, 0, 0, 0, 0), 'AngularSpeed': (1, -1, 0, 0, 0),
    'AngularAcceleration': (1, -2, 0, 0, 0), 'Time': (0, 1, 0, 0, 0), 'TimeInterval': (0, 1, 0, 0, 0),
    'InertiaMoment': (0, 0, 1, 2, 0), 'Torque': (1, -2, 1, 2, 0), 'Length': (0, 0, 0, 1, 0),
    'Surface': (0, 0, 0, 2, 0), 'Force': (1, -2, 1, 1, 0), 'Stress': (1, -2, 1, -1, 0), 'Current': (0, 0, 0, 0, 1),
    'num': (0, 0, 0, 0, 0),
}
BASE = {'Angle': 'AngularPosition', 'TimeInterval': 'Time'}
SIGN = {'Angle': 'nonneg', 'TimeInterval': 'pos', 'InertiaMoment': 'pos', 'Length': 'pos', 'Surface': 'pos'}


def sign_ok(kind, v):
    c = SIGN.get(kind)
    return v >= 0 if c == 'nonneg' else v > 0 if c == 'pos' else True
