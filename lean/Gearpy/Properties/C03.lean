import Gearpy.Proofs.Solver
import Gearpy.Proofs.UnitStep
/-!
# C03 — equation of motion and time-step update of the output element

* `C03_acc`: on every record of every history, unless the powertrain is held, the last element's
  acceleration is its net torque divided by the equivalent inertia; `inertia_snoc` /
  `inertia_nil` are the documented reduction (start from the motor inertia; going downstream
  multiply the running total by each element's ratio and add its inertia).
* `C03_step`: between two consecutive instants `dt` apart (within a run and across a continued
  run alike) the speed advances by the previously recorded acceleration times `dt` — and is
  recorded as `0` exactly when self-locking holds the powertrain at the new instant — and the
  position advances by that advanced speed times `dt` (`StepRel`, `loop_steps`, `run_steps`).
* `integrate_units`, `acceleration_units`, `inertia_units`: the code performs these updates with
  unit-aware operators on quantities (`speed += acceleration * dt`, `torque / inertia`, inertia
  reduction `J * ratio + J_i`); whatever units the inertias, `dt`, the initial position and speed are
  expressed in, the SI reading of the unit-level result is the SI-level model's result.
-/

namespace Gearpy.C03
open Gearpy

theorem inertia_nil (c : Cfg) (h : c.links = []) : inertia c = c.J0 := by simp [inertia, h]

/-- the documented reduction, one element at a time -/
theorem inertia_snoc (J0 : Q) (ls : List Link) (l : Link) :
    (ls ++ [l]).foldl (fun J l => J * l.ratio + l.inertia) J0 =
      ls.foldl (fun J l => J * l.ratio + l.inertia) J0 * l.ratio + l.inertia := by
  simp [List.foldl_append]

/-- C03 (acceleration): not held ⇒ acceleration of the last element = net torque / equivalent inertia -/
theorem C03_acc (c : Cfg) (ops : List Op) (p v : Q) (s' : St)
    (he : exec c ops (St.init p v) = .ok s') :
    ∀ r ∈ s'.recs, r.locked = false → lastD r.acc = lastD r.torque / inertia c := by
  intro r hr
  exact (all_records_ok c ops _ s' (init_inv c p v) he r hr).eom

/-- relation between two consecutive records `dt` apart -/
def StepRel (dt : Q) (a b : Rec) : Prop :=
  lastD b.pos = lastD a.pos + (lastD a.speed + lastD a.acc * dt) * dt ∧
  lastD b.speed = (if b.locked then 0 else lastD a.speed + lastD a.acc * dt)

/-- the live attributes of the last element equal the last record's -/
def Coherent (s : St) : Prop :=
  ∀ a, s.recs.getLast? = some a → s.pos = lastD a.pos ∧ s.speed = lastD a.speed ∧ s.acc = lastD a.acc

/-- consecutive pairs of a list of records satisfy the step relation -/
def StepsOK (dt : Q) : List Rec → Prop
  | a :: b :: rest => StepRel dt a b ∧ StepsOK dt (b :: rest)
  | _ => True

theorem compute_speed (c : Cfg) (s s' : St) (t : Q) (h : compute c s t = .ok s') :
    ∃ r, s'.recs = s.recs ++ [r] ∧ s'.speed = (if r.locked then 0 else s.speed) := by
  unfold compute at h; simp only at h
  split at h
  · simp at h
  · skip
    split at h
    · simp at h
    · split at h
      · simp at h
      · simp only [Except.ok.injEq] at h; subst h; exact ⟨_, rfl, rfl⟩

/-- one step from a coherent state: the new record is related to the last one, and the state stays coherent -/
theorem stepAt_relation (c : Cfg) (dt : Q) (s s' : St) (t : Q) (hinv : s.locked = true → c.sl = true)
    (hco : Coherent s) (h : stepAt c dt s t = .ok s') :
    ∃ b, s'.recs = s.recs ++ [b] ∧ (∀ a, s.recs.getLast? = some a → StepRel dt a b) ∧ Coherent s' := by
  unfold stepAt at h
  obtain ⟨r, hr, _, _, _, hp, hv, ha, _, hpp, _⟩ :=
    compute_recOK c (integrate s dt) s' t (by simpa [integrate] using hinv) h
  obtain ⟨r2, hr2, hsp⟩ := compute_speed c (integrate s dt) s' t h
  have hrr : r2 = r := by
    rw [hr] at hr2; simpa using (List.append_cancel_left hr2).symm
  subst hrr
  refine ⟨r2, by simpa [integrate] using hr, ?_, ?_⟩
  · intro a hl
    obtain ⟨h1, h2, h3⟩ := hco a hl
    constructor
    · rw [← hp, hpp]; simp [integrate, h1, h2, h3]
    · rw [← hv, hsp]; simp [integrate, h2, h3]
  · intro a hl
    rw [hr] at hl
    simp at hl; subst hl
    exact ⟨hp, hv, ha⟩

theorem getLast?_append_single {α} (l : List α) (x : α) : (l ++ [x]).getLast? = some x := by simp

/-- C03 (step): along a loop from a coherent state, all consecutive records — the last old one included — satisfy the step relation -/
theorem loop_steps (c : Cfg) (dt : Q) (stop) (ts : List Q) (s s' : St)
    (hinv : StInv c s) (hco : Coherent s) (h : loop c dt stop ts s = .ok s') :
    ∃ new, s'.recs = s.recs ++ new ∧ StepsOK dt (s.recs.getLast?.toList ++ new) ∧ Coherent s' := by
  induction ts generalizing s with
  | nil =>
    simp [loop] at h; subst h
    refine ⟨[], by simp, ?_, hco⟩
    cases s.recs.getLast? <;> simp [StepsOK]
  | cons t ts ih =>
    simp only [loop] at h
    cases h1 : stepAt c dt s t with
    | error e => simp [h1] at h
    | ok s1 =>
      simp only [h1] at h
      obtain ⟨b, hb, hrel, hco1⟩ := stepAt_relation c dt s s1 t hinv.2 hco h1
      have hinv1 : StInv c s1 := compute_inv c _ _ t (integrate_inv c s dt hinv) h1
      have hlast1 : s1.recs.getLast? = some b := by rw [hb]; simp
      split at h
      · simp only [Except.ok.injEq] at h; subst h
        refine ⟨[b], hb, ?_, hco1⟩
        cases hl : s.recs.getLast? with
        | none => simp [StepsOK]
        | some a => simp [StepsOK]; exact hrel a hl
      · obtain ⟨new, hn, hs, hco'⟩ := ih s1 hinv1 hco1 h
        refine ⟨b :: new, by rw [hn, hb]; simp, ?_, hco'⟩
        rw [hlast1] at hs
        cases hl : s.recs.getLast? with
        | none => simpa using hs
        | some a =>
          simp only [Option.toList_some, List.singleton_append] at hs ⊢
          cases new with
          | nil => simp [StepsOK]; exact hrel a hl
          | cons n ns => exact ⟨hrel a hl, hs⟩

/-- C03 (step) for a run: a fresh run (whose first record comes from the initial `compute`) and a
    continued run (which steps from the last record of the previous run) alike -/
theorem run_steps (c : Cfg) (dt : Q) (n : Nat) (stop) (s s' : St)
    (hinv : StInv c s) (hco : Coherent s) (h : run c dt n stop s = .ok s') :
    ∃ new, s'.recs = s.recs ++ new ∧ StepsOK dt (s.recs.getLast?.toList ++ new) ∧ Coherent s' := by
  unfold run at h
  cases hl : lastTime s with
  | some t0 =>
    simp only [hl] at h
    exact loop_steps c dt stop _ s s' hinv hco h
  | none =>
    simp only [hl] at h
    have hnil : s.recs = [] := by
      unfold lastTime at hl
      cases hr : s.recs.getLast? with
      | none => simpa using hr
      | some a => rw [hr] at hl; simp at hl
    cases h0 : compute c { s with locked := false } 0 with
    | error e => simp [h0] at h
    | ok s0 =>
      simp only [h0] at h
      have hinv0 : StInv c s0 := compute_inv c { s with locked := false } s0 0 ⟨hinv.1, by intro hh; simp at hh⟩ h0
      obtain ⟨r, hr, _, _, _, hp, hv, ha, _⟩ := compute_recOK c { s with locked := false } s0 0 (by intro hh; simp at hh) h0
      have hco0 : Coherent s0 := by
        intro a hla; rw [hr] at hla; simp at hla; subst hla; exact ⟨hp, hv, ha⟩
      obtain ⟨new, hn, hs, hco'⟩ := loop_steps c dt stop _ s0 s' hinv0 hco0 h
      refine ⟨r :: new, by rw [hn, hr]; simp, ?_, hco'⟩
      rw [hr] at hs
      simp only [hnil, List.nil_append, List.getLast?_singleton, Option.toList_some, List.singleton_append] at hs ⊢
      simpa using hs

/-- `_time_integration` computed on quantities in any units = the SI-level `integrate` -/
theorem integrate_units {T : Tbl} (g : T.Good) (pos speed acc dt p v : Qty) (s : St)
    (h : integrateU T pos speed acc dt = .ok (p, v))
    (hs : s.pos = siMag T pos ∧ s.speed = siMag T speed ∧ s.acc = siMag T acc) :
    (integrate s (siMag T dt)).pos = siMag T p ∧ (integrate s (siMag T dt)).speed = siMag T v := by
  obtain ⟨h1, h2⟩ := integrateU_si g pos speed acc dt p v h
  obtain ⟨e1, e2, e3⟩ := hs
  simp only [integrate, e1, e2, e3]
  exact ⟨h2.symm, h1.symm⟩

/-- `torque / inertia` on quantities = the SI quotient -/
theorem acceleration_units {T : Tbl} (g : T.Good) (torque inertia r : Qty)
    (h : accelerationU T torque inertia = .ok r) : siMag T r = siMag T torque / siMag T inertia :=
  accelerationU_si g torque inertia r h

/-- one step of the inertia reduction on quantities (`J *= ratio; J += J_i`, `InertiaMoment`
    operators) = the SI-level step, for inertias given in any inertia unit -/
theorem inertia_units {T : Tbl} (g : T.Good) (Jrun Ji x r : Qty) (ratio : Q)
    (h1 : mul T Jrun (.n ratio) = .ok (.q x)) (h2 : add T x (.q Ji) = .ok (.q r)) :
    siMag T r = siMag T Jrun * ratio + siMag T Ji := by
  have e1 := C06.mul_si g Jrun (.n ratio) x h1
  have e2 := C06.add_si g x Ji r h2
  simp only [C06.valSI] at e1
  rw [e2, e1]

/-! ### non-vacuity: the relation holds on a concrete two-step history -/
example : StepRel (1/2) ⟨0, [2], [1], [4], [], [], [], 1, none, false, [], [], []⟩ ⟨1/2, [7/2], [3], [0], [], [], [], 1, none, false, [], [], []⟩ := by
  simp [StepRel, lastD]; norm_num

end Gearpy.C03
