import Gearpy.Model.Units
/-!
# Gearpy.Model.UnitStep — the solver's arithmetic on unit-carrying quantities

The SI-level solver model (`Gearpy.Model.Solver`) works on plain rationals.  This module writes
the same statements of `solver.py` with the unit-aware operators of `Gearpy.Model.Units`, exactly
as the code does, so that `Gearpy.Properties.C03/C07` can *prove* that the SI reading of the
unit-level computation is the SI-level computation, whatever units the operands carry:

```
_time_integration:      speed += acceleration * dt ;  position += speed * dt
_transmit_*:            upstream = gear_ratio * downstream
_compute_angular_acceleration:   acceleration = torque / inertia
_compute_torque:        torque = driving_torque - load_torque
_compute_driving_torque / _compute_load_torque:  * efficiency * ratio,  / efficiency / ratio
```
-/

namespace Gearpy

def asQty : Except Err Val → Except Err Qty
  | .ok (.q x) => .ok x
  | .ok (.n _) => .error .typeE
  | .error e => .error e

/-- `_time_integration` on quantities: returns (new position, new speed) -/
def integrateU (T : Tbl) (pos speed acc dt : Qty) : Except Err (Qty × Qty) :=
  match asQty (mul T acc (.q dt)) with
  | .error e => .error e
  | .ok dv => match asQty (add T speed (.q dv)) with
    | .error e => .error e
    | .ok v => match asQty (mul T v (.q dt)) with
      | .error e => .error e
      | .ok dp => match asQty (add T pos (.q dp)) with
        | .error e => .error e
        | .ok p => .ok (p, v)

/-- `gear_ratio * quantity` -/
def transmitU (T : Tbl) (ratio : Q) (x : Qty) : Except Err Qty := asQty (rmul T ratio x)

/-- `torque / inertia` -/
def accelerationU (T : Tbl) (torque inertia : Qty) : Except Err Qty := asQty (div T torque (.q inertia))

/-- `driving * efficiency * ratio` (two multiplications by numbers) -/
def driveU (T : Tbl) (d : Qty) (eff ratio : Q) : Except Err Qty :=
  match asQty (mul T d (.n eff)) with
  | .error e => .error e
  | .ok x => asQty (mul T x (.n ratio))

/-- `load / efficiency / ratio` -/
def loadU (T : Tbl) (l : Qty) (eff ratio : Q) : Except Err Qty :=
  match asQty (div T l (.n eff)) with
  | .error e => .error e
  | .ok x => asQty (div T x (.n ratio))

/-- `driving - load` -/
def netU (T : Tbl) (d l : Qty) : Except Err Qty := asQty (sub T d (.q l))

end Gearpy
