import Gearpy.Proofs.Grid
import Mathlib.Tactic.FieldSimp
import Gearpy.Generated.Tables
/-!
# C11 — the time axis is the uniform grid 0, dt, …, T and never overruns T

Exact arithmetic (unit-carrying model of the raw-value site in `Solver.run`):
* `steps_exact`: `T = n·dt` (in SI, whatever the units of `T` and `dt`) ⇒ exactly `n` steps;
* `fresh_axis`: a fresh run without stop records `0 :: [dt, 2dt, …, n·dt]`; `axis_last` its last
  instant is `T`; `axis_spacing` consecutive instants are `dt` apart; `never_beyond`:
  `n·dt ≤ T + 10⁻⁹·dt` for arbitrary `T`, `dt` (also when `T` is not a multiple of `dt`);
* `continued_axis`: a continued run appends `t_last + i·dt`, `1 ≤ i ≤ n`, with `t_last` converted to
  the unit of the new time step (`gridU_si`);
* `stopped_axis_prefix`: with a stop condition the axis is a prefix of that grid (C16).
* `schedule_axis_increasing` / `schedule_axis_nodup`: along **every** schedule of runs (fresh, continued, stopped,
  different time steps, different `Solver` objects), resets and attribute changes with positive time steps the
  whole recorded axis is strictly increasing — no instant twice, none out of order (`run_axis_increasing` per run);
  `reset_then_fresh_axis`: after `reset` the next run (any solver) records the axis of a first run.
Floating point: the step count the code computes is `⌊(T/dt)(1+δ) + 10⁻⁹⌋` with `δ` the
rounding of the quotient.
* `count_robust`: for every perturbation with `n·|δ| < c ≤ ½` the guarded floor returns `n`
  — the obligation the repaired code meets with `c = 10⁻⁹`;
* `arange_fragile`: the `numpy.arange` length `⌈(T/dt)(1+δ)⌉` the code used before the repair
  returns `n+1` for arbitrarily small `δ > 0` (why 8.5 % of decimal inputs overran).
-/

namespace Gearpy.C11
open Gearpy Gearpy.Kind

variable {T : Tbl}

theorem steps_exact (g : T.Good) (dt sim : Qty) (hd : IsTime dt) (hs : IsTime sim) (n : Nat)
    (hpos : 0 < siMag T dt) (hT : siMag T sim = (n : Q) * siMag T dt) : nSteps T dt sim = n :=
  nSteps_exact g dt sim hd hs n hpos hT

theorem never_beyond (g : T.Good) (dt sim : Qty) (hd : IsTime dt) (hs : IsTime sim)
    (hpos : 0 < siMag T dt) (hsim : 0 ≤ siMag T sim) :
    (nSteps T dt sim : Q) * siMag T dt ≤ siMag T sim + gridGuard * siMag T dt :=
  nSteps_le g dt sim hd hs hpos hsim

/-- a fresh run without stop condition records the instants `0, dt, …, n·dt` -/
theorem fresh_axis (c : Cfg) (dt : Q) (n : Nat) (s s' : St) (h0 : s.recs = [])
    (h : run c dt n none s = .ok s') : s'.recs.map (·.time) = 0 :: grid 0 dt n := by
  unfold run at h
  have : lastTime s = none := by simp [lastTime, h0]
  simp only [this] at h
  split at h
  · simp at h
  · rename_i s0 hc
    obtain ⟨r, hr, ht⟩ := compute_rec c _ s0 0 hc
    rw [loop_times c dt _ s0 s' h, hr]; simp [h0, ht]

/-- a continued run without stop appends `t_last + i·dt` -/
theorem continued_axis (c : Cfg) (dt : Q) (n : Nat) (s s' : St) (t0 : Q) (h0 : lastTime s = some t0)
    (h : run c dt n none s = .ok s') : s'.recs.map (·.time) = s.recs.map (·.time) ++ grid t0 dt n := by
  unfold run at h
  simp only [h0] at h
  exact loop_times c dt _ s s' h

/-- the appended instants depend on the powertrain's recorded axis only — not on the solver-private state (the lock
    flag of the `Solver` object that happens to be used): two `Solver` objects used in turn on one powertrain both
    continue from the last recorded instant -/
theorem continued_axis_any_solver (c : Cfg) (dt : Q) (n : Nat) (s s' : St) (t0 : Q) (b : Bool)
    (h0 : lastTime s = some t0) (h : run c dt n none { s with locked := b } = .ok s') :
    s'.recs.map (·.time) = s.recs.map (·.time) ++ grid t0 dt n :=
  continued_axis c dt n { s with locked := b } s' t0 (by simpa [lastTime] using h0) h

/-- with a stop condition the appended instants are a prefix of the grid -/
theorem stopped_axis_prefix (c : Cfg) (dt : Q) (n : Nat) (f : Rec → Bool) (s s' : St) (t0 : Q)
    (h0 : lastTime s = some t0) (h : run c dt n (some f) s = .ok s') :
    ∃ us vs, grid t0 dt n = us ++ vs ∧ s'.recs.map (·.time) = s.recs.map (·.time) ++ us := by
  unfold run at h
  simp only [h0] at h
  -- same induction as C16.stop_prefix, restated for the time axis
  generalize grid t0 dt n = ts at h ⊢
  clear h0
  induction ts generalizing s with
  | nil => simp [loop] at h; subst h; exact ⟨[], [], rfl, by simp⟩
  | cons t ts ih =>
    simp only [loop] at h
    cases h1 : stepAt c dt s t with
    | error e => simp [h1] at h
    | ok s1 =>
      simp only [h1] at h
      obtain ⟨r, hr, ht⟩ := stepAt_recs c dt s s1 t h1
      split at h
      · simp only [Except.ok.injEq] at h; subst h
        exact ⟨[t], ts, rfl, by simp [hr, ht]⟩
      · obtain ⟨us, vs, hts, hl⟩ := ih s1 h
        exact ⟨t :: us, vs, by simp [hts], by rw [hl, hr]; simp [ht]⟩

theorem axis_last (dt : Q) (n : Nat) : (grid 0 dt (n + 1)).getLast? = some (((n + 1 : Nat) : Q) * dt) := by
  rw [grid_getLast]; simp

/-- consecutive instants of the grid are exactly `dt` apart -/
theorem axis_spacing (t0 dt : Q) (n i : Nat) (hi : i + 1 < n) :
    (grid t0 dt n)[i + 1]'(by simp [grid]; omega) - (grid t0 dt n)[i]'(by simp [grid]; omega) = dt := by
  simp [grid]; ring

/-- the axis is strictly increasing for a positive time step (needed by interpolation, C18) -/
theorem axis_strictMono (t0 dt : Q) (n i j : Nat) (hdt : 0 < dt) (hij : i < j) (hj : j < n) :
    (grid t0 dt n)[i]'(by simp [grid]; omega) < (grid t0 dt n)[j]'(by simp [grid]; omega) := by
  simp only [grid, List.getElem_map, List.getElem_range]
  have : ((i + 1 : Nat) : Q) < ((j + 1 : Nat) : Q) := by exact_mod_cast Nat.succ_lt_succ hij
  nlinarith

/-- guarded floor: for every perturbation with `n·|δ| < c ≤ ½` the count is exactly `n` -/
theorem count_robust (n : ℕ) (δ c : ℚ) (hc0 : 0 < c) (hc : c ≤ 1/2) (hδ : (n : ℚ) * |δ| < c) :
    ⌊(n : ℚ) * (1 + δ) + c⌋ = (n : ℤ) := by
  rw [Int.floor_eq_iff]
  have h1 : -(n * |δ|) ≤ (n : ℚ) * δ := by
    have : -|δ| ≤ δ := neg_abs_le δ
    have hn : (0 : ℚ) ≤ n := Nat.cast_nonneg n
    nlinarith
  have h2 : (n : ℚ) * δ ≤ n * |δ| := by
    have : δ ≤ |δ| := le_abs_self δ
    have hn : (0 : ℚ) ≤ n := Nat.cast_nonneg n
    nlinarith
  constructor
  · push_cast; nlinarith
  · push_cast; nlinarith

/-- the repaired code's guard `c = 10⁻⁹` meets the obligation for every run of up to 10⁶ steps
    whose quotient is computed with relative error below 10⁻¹⁵ -/
theorem guard_suffices (n : ℕ) (δ : ℚ) (hn : n ≤ 1000000) (hδ : |δ| < 1 / 1000000000000000) :
    ⌊(n : ℚ) * (1 + δ) + gridGuard⌋ = (n : ℤ) := by
  apply count_robust n δ gridGuard (by unfold gridGuard; norm_num) (by unfold gridGuard; norm_num)
  have hn' : (n : ℚ) ≤ 1000000 := by exact_mod_cast hn
  have h0 : (0 : ℚ) ≤ n := Nat.cast_nonneg n
  have ha : 0 ≤ |δ| := abs_nonneg δ
  unfold gridGuard
  nlinarith

/-- `numpy.arange`-style count `⌈q(1+δ)⌉` overshoots for arbitrarily small positive perturbations -/
theorem arange_fragile (n : ℕ) (hn : 1 ≤ n) (ε : ℚ) (hε : 0 < ε) :
    ∃ δ : ℚ, |δ| ≤ ε ∧ ⌈(n : ℚ) * (1 + δ)⌉ = (n : ℤ) + 1 := by
  have hnq : (0 : ℚ) < n := by exact_mod_cast hn
  refine ⟨min ε (1 / (2 * n)), ?_, ?_⟩
  · rw [abs_of_pos (lt_min hε (by positivity))]; exact min_le_left _ _
  · rw [Int.ceil_eq_iff]
    have hpos : 0 < min ε (1 / (2 * (n : ℚ))) := lt_min hε (by positivity)
    have hle : min ε (1 / (2 * (n : ℚ))) ≤ 1 / (2 * n) := min_le_right _ _
    have hmul : (n : ℚ) * min ε (1 / (2 * (n : ℚ))) ≤ 1 / 2 := by
      calc (n : ℚ) * min ε (1 / (2 * (n : ℚ))) ≤ n * (1 / (2 * n)) := by gcongr
        _ = 1 / 2 := by field_simp
    have hmul0 : 0 < (n : ℚ) * min ε (1 / (2 * (n : ℚ))) := by positivity
    constructor
    · push_cast; linarith
    · push_cast; linarith

/-! ### the whole recorded axis, for every schedule of runs, resets and attribute changes -/
/-- whatever the stop condition, the instants a loop appends are a prefix of its grid -/
theorem loop_times_any (c : Cfg) (dt : Q) (stop : Option (Rec → Bool)) (ts : List Q) (s s' : St)
    (h : loop c dt stop ts s = .ok s') :
    ∃ us vs, ts = us ++ vs ∧ s'.recs.map (·.time) = s.recs.map (·.time) ++ us := by
  induction ts generalizing s with
  | nil => simp [loop] at h; subst h; exact ⟨[], [], rfl, by simp⟩
  | cons t ts ih =>
    simp only [loop] at h
    cases h1 : stepAt c dt s t with
    | error e => simp [h1] at h
    | ok s1 =>
      simp only [h1] at h
      obtain ⟨r, hr, ht⟩ := stepAt_recs c dt s s1 t h1
      split at h
      · simp only [Except.ok.injEq] at h; subst h
        exact ⟨[t], ts, rfl, by simp [hr, ht]⟩
      · obtain ⟨us, vs, hts, hl⟩ := ih s1 h
        exact ⟨t :: us, vs, by simp [hts], by rw [hl, hr]; simp [ht]⟩

theorem grid_increasing (t0 dt : Q) (n : Nat) (hdt : 0 < dt) : (grid t0 dt n).Pairwise (· < ·) := by
  unfold grid
  rw [List.pairwise_map]
  refine List.Pairwise.imp ?_ (List.pairwise_lt_range)
  intro i j hij
  have : ((i + 1 : Nat) : Q) < ((j + 1 : Nat) : Q) := by exact_mod_cast Nat.succ_lt_succ hij
  nlinarith

theorem grid_after (t0 dt : Q) (n : Nat) (hdt : 0 < dt) : ∀ t ∈ grid t0 dt n, t0 < t := by
  intro t ht
  simp only [grid, List.mem_map, List.mem_range] at ht
  obtain ⟨i, _, rfl⟩ := ht
  have : (0 : Q) < ((i + 1 : Nat) : Q) := by exact_mod_cast Nat.succ_pos i
  nlinarith

theorem le_last_of_increasing (l : List Q) (t0 : Q) (hl : l.Pairwise (· < ·)) (h : l.getLast? = some t0) :
    ∀ a ∈ l, a ≤ t0 := by
  obtain ⟨ys, rfl⟩ := List.getLast?_eq_some_iff.mp h
  rw [List.pairwise_append] at hl
  intro a ha
  rcases List.mem_append.mp ha with h1 | h1
  · exact le_of_lt (hl.2.2 a h1 t0 (by simp))
  · simp at h1; exact le_of_eq h1

/-- one run (fresh or continued, with any stop condition, whatever the solver-private state) with a positive time
    step keeps the recorded time axis strictly increasing -/
theorem run_axis_increasing (c : Cfg) (dt : Q) (n : Nat) (stop : Option (Rec → Bool)) (s s' : St) (hdt : 0 < dt)
    (hs : (s.recs.map (·.time)).Pairwise (· < ·)) (h : run c dt n stop s = .ok s') :
    (s'.recs.map (·.time)).Pairwise (· < ·) := by
  unfold run at h
  cases hl : lastTime s with
  | some t0 =>
    simp only [hl] at h
    obtain ⟨us, vs, hg, ht⟩ := loop_times_any c dt stop _ s s' h
    have hgi := grid_increasing t0 dt n hdt
    rw [hg, List.pairwise_append] at hgi
    have hlast : (s.recs.map (·.time)).getLast? = some t0 := by
      simpa [lastTime, List.getLast?_map] using hl
    rw [ht, List.pairwise_append]
    refine ⟨hs, hgi.1, ?_⟩
    intro a ha b hb
    have h1 := le_last_of_increasing _ t0 hs hlast a ha
    have h2 := grid_after t0 dt n hdt b (by rw [hg]; exact List.mem_append_left _ hb)
    exact lt_of_le_of_lt h1 h2
  | none =>
    simp only [hl] at h
    have h0 : s.recs = [] := by
      simpa [lastTime] using hl
    split at h
    · simp at h
    · rename_i s0 hc
      obtain ⟨r, hr, hrt⟩ := compute_rec c _ s0 0 hc
      obtain ⟨us, vs, hg, ht⟩ := loop_times_any c dt stop _ s0 s' h
      have hgi := grid_increasing 0 dt n hdt
      rw [hg, List.pairwise_append] at hgi
      rw [ht, hr, List.pairwise_append]
      simp only [h0, List.nil_append, List.map_cons, List.map_nil, List.mem_singleton]
      refine ⟨by simp, hgi.1, ?_⟩
      intro a ha b hb
      subst ha
      rw [hrt]
      exact grid_after 0 dt n hdt b (by rw [hg]; exact List.mem_append_left _ hb)

/-- every run of the schedule has a positive time step (what `Solver.run` enforces) -/
def PosSteps : List Op → Prop
  | [] => True
  | .run dt _ _ :: os => 0 < dt ∧ PosSteps os
  | _ :: os => PosSteps os

/-- **Whole-history time axis.** Along every schedule of runs (fresh, continued, stopped early, with different
    time steps, by different `Solver` objects), resets and attribute changes, the recorded time axis is strictly
    increasing: no instant is recorded twice and none out of order, for every length of schedule. -/
theorem schedule_axis_increasing (c : Cfg) (ops : List Op) (hops : PosSteps ops) (s s' : St)
    (hs : (s.recs.map (·.time)).Pairwise (· < ·)) (h : exec c ops s = .ok s') :
    (s'.recs.map (·.time)).Pairwise (· < ·) := by
  induction ops generalizing s with
  | nil => simp [exec] at h; subst h; exact hs
  | cons o os ih =>
    simp only [exec] at h
    cases ha : applyOp c s o with
    | error e => simp [ha] at h
    | ok s1 =>
      simp only [ha] at h
      cases o with
      | run dt n stop =>
        exact ih hops.2 s1 (run_axis_increasing c dt n stop s s1 hops.1 hs ha) h
      | reset =>
        refine ih hops s1 ?_ h
        simp only [applyOp, reset] at ha
        split at ha
        · simp at ha
        · simp only [Except.ok.injEq] at ha; subst ha; simp
      | setInitial p v =>
        simp only [applyOp, Except.ok.injEq] at ha; subst ha
        exact ih hops { s with pos := p, speed := v } hs h
      | setPwm p =>
        simp only [applyOp] at ha
        split at ha
        · simp only [Except.ok.injEq] at ha; subst ha; exact ih hops { s with pwm := p } hs h
        · simp at ha
      | newSolver =>
        simp only [applyOp, Except.ok.injEq] at ha; subst ha
        exact ih hops { s with locked := false } hs h

/-- no instant is recorded twice -/
theorem schedule_axis_nodup (c : Cfg) (ops : List Op) (hops : PosSteps ops) (p v : Q) (s' : St)
    (h : exec c ops (St.init p v) = .ok s') : (s'.recs.map (·.time)).Nodup := by
  have := schedule_axis_increasing c ops hops (St.init p v) s' (by simp [St.init]) h
  exact this.imp (fun hab => ne_of_lt hab)

/-- after `Powertrain.reset` the next run starts a fresh axis at 0, whatever had been recorded before and whichever
    solver runs it: the axis of the rerun is the axis of a first run -/
theorem reset_then_fresh_axis (c : Cfg) (dt : Q) (n : Nat) (s sr s' : St) (b : Bool)
    (hr : reset s = .ok sr) (h : run c dt n none { sr with locked := b } = .ok s') :
    s'.recs.map (·.time) = 0 :: grid 0 dt n := by
  have h0 : sr.recs = [] := by
    unfold reset at hr
    split at hr
    · simp at hr
    · simp only [Except.ok.injEq] at hr; subst hr; rfl
  exact fresh_axis c dt n { sr with locked := b } s' h0 h

/-! ### non-vacuity: dt = 0.35 s, T = 10.5 s (the input that used to overrun) gives 30 steps -/
example : nSteps Gen.tbl ⟨timeInt, 35/100, 0⟩ ⟨timeInt, 105/10, 0⟩ = 30 := by decide +kernel
example : nSteps Gen.tbl ⟨timeInt, 1000, 3⟩ ⟨timeInt, 5, 0⟩ = 5 := by decide +kernel

/-! ### non-vacuity: two solvers, two time steps, then a reset and a stopped run -/
def exCfg : Cfg :=
  { J0 := 1, links := [⟨2, 9/10, 1/2, true⟩], sl := false, tolW := 0, tolT := 0,
    motorTorque := fun w D => (1 - w / 100) * 2 * D, motorCurrent := fun _ _ => none,
    load := fun _ _ _ => 1/10, control := none }
example : PosSteps [.run (1/4) 2 none, .newSolver, .run (1/3) 2 none] := by simp [PosSteps]
example : (match exec exCfg [.run (1/4) 2 none, .newSolver, .run (1/3) 2 none] (St.init 0 0) with
    | .ok s => s.recs.map (·.time) | .error _ => []) = [0, 1/4, 1/2, 5/6, 7/6] := by decide +kernel
example : (match exec exCfg [.run (1/4) 2 none, .reset, .run (1/2) 4 (some fun r => decide (r.time ≥ 1))] (St.init 0 0) with
    | .ok s => s.recs.map (·.time) | .error _ => []) = [0, 1/2, 1] := by decide +kernel

end Gearpy.C11
