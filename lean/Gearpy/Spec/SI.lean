import Gearpy.Model.Units
import Gearpy.Generated.Tables
/-!
# Gearpy.Spec.SI — SI definitions of the units, written from first principles

Independent of the code's tables: units are built structurally from SI prefixes, the standard
gravity `g₀ = 9.80665 m/s²`, minute, hour, degree (π/180), arc-minute, arc-second and turn (2π).
`π` is the generated rational value of Python's `math.pi` (the code can do no better).
`Gearpy.Properties.C05.factor_matches_SI` checks the generated table against this file.
-/

namespace Gearpy.SI
open Gearpy Gearpy.Kind

def π : Q := Gen.pi
def g0 : Q := 980665 / 100000

def lengths : List (String × Q) := [("m", 1), ("dm", 1/10), ("cm", 1/100), ("mm", 1/1000)]
def angles : List (String × Q) :=
  [("rad", 1), ("deg", π / 180), ("arcmin", π / 180 / 60), ("arcsec", π / 180 / 3600), ("rot", 2 * π)]
def times : List (String × Q) := [("sec", 1), ("min", 60), ("hour", 3600), ("ms", 1/1000)]
def forces : List (String × Q) := [("N", 1), ("mN", 1/1000), ("kN", 1000), ("kgf", g0), ("gf", g0 / 1000)]

/-- `force·length` torque units in the code's order: N only with m, the others with every length -/
def torques : List (String × Q) :=
  [("Nm", 1)] ++
  (([("mN", (1:Q)/1000), ("kN", 1000), ("kgf", g0), ("gf", g0 / 1000)] : List (String × Q)).flatMap fun (f, fv) =>
     lengths.map fun (l, lv) => (f ++ l, fv * lv))

def inertias : List (String × Q) :=
  ([("kg", (1:Q)), ("g", 1/1000)] : List (String × Q)).flatMap fun (m, mv) =>
    lengths.map fun (l, lv) => (m ++ l ++ "^2", mv * lv * lv)

def angSpeeds : List (String × Q) :=
  (([("rad", (1:Q)), ("deg", π / 180)] : List (String × Q)).flatMap fun (a, av) =>
    ([("s", (1:Q)), ("min", 60), ("h", 3600)] : List (String × Q)).map fun (t, tv) => (a ++ "/" ++ t, av / tv)) ++
  [("rps", 2 * π), ("rpm", 2 * π / 60), ("rph", 2 * π / 3600)]

/-- SI value of every unit of every kind, by name -/
def units : Kind → List (String × Q)
  | angPos | angle => angles
  | angSpeed => angSpeeds
  | angAcc => [("rad/s^2", 1), ("deg/s^2", π / 180), ("rot/s^2", 2 * π)]
  | inertia => inertias
  | torque => torques
  | time | timeInt => times
  | length => lengths
  | surface => lengths.map fun (l, lv) => (l ++ "^2", lv * lv)
  | force => forces
  | stress => [("Pa", 1), ("kPa", 1000), ("MPa", 1000000), ("GPa", 1000000000)]
  | current => [("A", 1), ("mA", 1/1000), ("uA", 1/1000000)]

end Gearpy.SI
