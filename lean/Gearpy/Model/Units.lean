import Gearpy.Model.Basic
/-!
# Gearpy.Model.Units — unit-carrying quantities (mirrors `gearpy/units/unit_base.py`, `units.py`)

A quantity is `(kind, value, unit)`; `unit` is the index of the unit in the kind's unit table
(the table itself is *generated from the source on every run*, `Gearpy/Generated/Tables.lean`).
Every function follows the Python method it mirrors, quirks included:

* `+` / `−` run the base-class body first (it *constructs* `self.__class__(…)`, so
  `TimeInterval(5) + Time(−10)` raises `ValueError` even though the override would return a `Time`);
* `Angle − AngularPosition` and `TimeInterval − Time` **add** (known finding K2, pinned by the suite);
* `/` checks for a zero divisor before it checks the operand's type;
* `TimeInterval * AngularSpeed` raises `TypeError` (the override evaluates `other <= 0` on a quantity);
* comparisons convert the right operand to the left operand's unit and use an *absolute*
  tolerance when the units differ, exact comparison when they are equal; when the right operand's
  class is a proper subclass of the left one's, CPython calls the right operand's reflected method
  first, so the roles are swapped (`reflected`);
* in-place `to` overwrites value and unit *without* going through the constructor.

Not modelled: `KeyError` for unknown unit names (the harness only uses units the table lists),
`TypeError` for non-numeric values, `bool ⊂ int`.
-/

namespace Gearpy

inductive Kind
  | angPos | angle | angSpeed | angAcc | inertia | torque | time | timeInt
  | length | surface | force | stress | current
  deriving DecidableEq, Repr, Inhabited

structure Qty where
  kind : Kind
  value : Q
  unit : Nat
  deriving DecidableEq, Repr, Inhabited

/-- right operand of a binary operator: a quantity or a plain number -/
inductive Val
  | q (x : Qty)
  | n (x : Q)
  deriving DecidableEq, Repr, Inhabited

/-- factor table: `f k u` = SI value of unit `u` of kind `k`; `si k` = index of the unit the
    code names when it goes through SI (`'rad'`, `'sec'`, `'Nm'`, …); `tol` = `COMPARISON_TOLERANCE` -/
structure Tbl where
  f : Kind → Nat → Q
  si : Kind → Nat
  tol : Q

open Kind

def baseOf : Kind → Kind
  | angle => angPos
  | timeInt => time
  | k => k

/-- `isinstance(x, cls)` for `x` of kind `a` -/
def isInst (a cls : Kind) : Bool := a == cls || (baseOf a == cls)

/-- sign constraint enforced by the constructors -/
def signOk (k : Kind) (v : Q) : Bool :=
  match k with
  | angle => decide (0 ≤ v)
  | timeInt | inertia | length | surface => decide (0 < v)
  | _ => true

/-- constructor -/
def mk (k : Kind) (v : Q) (u : Nat) : Except Err Qty :=
  if signOk k v then .ok ⟨k, v, u⟩ else .error .valueE

/-- raw conversion of the value (what `to` computes before it builds the result) -/
def conv (T : Tbl) (a : Qty) (u : Nat) : Q :=
  if u = a.unit then a.value else a.value * T.f a.kind a.unit / T.f a.kind u

/-- `to(unit)` (copy form): goes through the constructor of the object's own class -/
def toCopy (T : Tbl) (a : Qty) (u : Nat) : Except Err Qty := mk a.kind (conv T a u) u

/-- `to(unit, inplace=True)`: overwrites value and unit without the constructor -/
def toInplace (T : Tbl) (a : Qty) (u : Nat) : Qty := { a with value := conv T a u, unit := u }

/-- SI magnitude -/
def siMag (T : Tbl) (a : Qty) : Q := a.value * T.f a.kind a.unit

def sameFamily (a b : Kind) : Bool := baseOf a == baseOf b

def isSub (k : Kind) : Bool := k == angle || k == timeInt

/-- `__add__` -/
def add (T : Tbl) (a : Qty) (b : Val) : Except Err Val :=
  match b with
  | .n _ => .error .typeE
  | .q o =>
    if !sameFamily a.kind o.kind then .error .typeE else
    let sum := a.value + conv T o a.unit
    match mk a.kind sum a.unit with                      -- base-class body always runs first
    | .error e => .error e
    | .ok r =>
      if isSub a.kind then
        if o.kind == a.kind then .ok (.q r)
        else (mk (baseOf a.kind) sum a.unit).map .q
      else .ok (.q r)

/-- `__sub__` -/
def sub (T : Tbl) (a : Qty) (b : Val) : Except Err Val :=
  match b with
  | .n _ => .error .typeE
  | .q o =>
    if !sameFamily a.kind o.kind then .error .typeE else
    let diff := a.value - conv T o a.unit
    match mk a.kind diff a.unit with
    | .error _ => .error .valueE        -- the fall-through `None` of the `try/except` is unreachable
    | .ok r =>
      if isSub a.kind then
        if o.kind == a.kind then .ok (.q r)
        else (mk (baseOf a.kind) (a.value + conv T o a.unit) a.unit).map .q   -- sic: the code ADDS (K2)
      else .ok (.q r)

/-- value expressed in the unit the code uses for SI -/
def toSI (T : Tbl) (a : Qty) : Q := conv T a (T.si a.kind)

/-- `__mul__` with a quantity on the left -/
def mul (T : Tbl) (a : Qty) (b : Val) : Except Err Val :=
  match a.kind, b with
  | angSpeed, .q o =>
      if isInst o.kind time then (mk angPos (toSI T a * toSI T o) (T.si angPos)).map .q else .error .typeE
  | angAcc, .q o =>
      if isInst o.kind time then (mk angSpeed (toSI T a * toSI T o) (T.si angSpeed)).map .q else .error .typeE
  | time, .q o =>
      if o.kind == angAcc then (mk angSpeed (toSI T a * toSI T o) (T.si angSpeed)).map .q
      else if o.kind == angSpeed then (mk angPos (toSI T a * toSI T o) (T.si angPos)).map .q
      else .error .typeE
  | timeInt, .q _ =>
      -- Time.__mul__ accepts angAcc/angSpeed, then `other <= 0` on a quantity raises TypeError
      .error .typeE
  | length, .q o =>
      if o.kind == length then (mk surface (toSI T a * toSI T o) (T.si surface)).map .q else .error .typeE
  | _, .q _ => .error .typeE
  | k, .n x =>
      if k == angle && decide (x < 0) then .error .valueE
      else if (k == inertia || k == timeInt) && decide (x ≤ 0) then .error .valueE
      else (mk k (a.value * x) a.unit).map .q

/-- number * quantity → `__rmul__` -/
def rmul (T : Tbl) (x : Q) (a : Qty) : Except Err Val := mul T a (.n x)

/-- `__truediv__` -/
def div (T : Tbl) (a : Qty) (b : Val) : Except Err Val :=
  -- UnitBase.__truediv__ runs first: zero check precedes the class-specific type check
  let zero : Bool := match b with | .q o => o.value == 0 | .n x => x == 0
  if zero then .error .zeroDiv else
  match b with
  | .n x => (mk a.kind (a.value / x) a.unit).map .q
  | .q o =>
    if sameFamily a.kind o.kind && (isInst o.kind a.kind || isInst o.kind (baseOf a.kind)) then
      .ok (.n (a.value / conv T o a.unit))
    else match a.kind, o.kind with
      | torque, inertia => (mk angAcc (toSI T a / toSI T o) (T.si angAcc)).map .q
      | torque, length => (mk force (toSI T a / toSI T o) (T.si force)).map .q
      | force, surface => (mk stress (toSI T a / toSI T o) (T.si stress)).map .q
      | _, _ => .error .typeE

def neg (a : Qty) : Except Err Qty := mk a.kind (-a.value) a.unit
def abs' (a : Qty) : Except Err Qty := mk a.kind (qabs a.value) a.unit

inductive Cmp | eq | ne | lt | le | gt | ge deriving DecidableEq, Repr, Inhabited

/-- comparison of two raw values already in the same unit; `exact` = the units were equal -/
def cmpRaw (tol : Q) (c : Cmp) (exact : Bool) (x y : Q) : Bool :=
  if exact then
    match c with
    | .eq => x == y | .ne => x != y
    | .lt => decide (x < y) | .le => decide (x ≤ y)
    | .gt => decide (y < x) | .ge => decide (y ≤ x)
  else
    let d := x - y
    match c with
    | .eq => decide (qabs d < tol) | .ne => decide (tol < qabs d)
    | .lt => decide (d < -tol) | .le => decide (d ≤ tol)
    | .gt => decide (tol < d) | .ge => decide (-tol ≤ d)

/-- the comparison the reflected method stands for -/
def swapCmp : Cmp → Cmp
  | .lt => .gt | .gt => .lt | .le => .ge | .ge => .le | c => c

/-- CPython's rich-comparison dispatch: when the right operand's class is a proper subclass of the
    left operand's class, the *right* operand's (reflected) method runs first — so
    `AngularPosition == Angle` and `Time <= TimeInterval` are evaluated in the right operand's unit -/
def reflected (a o : Kind) : Bool := isSub o && !isSub a

/-- one comparison dunder method called on `a` with argument `o` (types already checked) -/
def cmpDirect (T : Tbl) (c : Cmp) (a o : Qty) : Bool :=
  cmpRaw T.tol c (a.unit == o.unit) a.value (conv T o a.unit)

/-- the six comparison operators -/
def cmp (T : Tbl) (c : Cmp) (a : Qty) (b : Val) : Except Err Bool :=
  match b with
  | .n _ => .error .typeE
  | .q o =>
    if !sameFamily a.kind o.kind then .error .typeE else
    if reflected a.kind o.kind then .ok (cmpDirect T (swapCmp c) o a)
    else .ok (cmpDirect T c a o)

/-- one column of `export_time_variables` (and the time column): every recorded sample is converted on its own,
    `sample.to(unit).value` — the samples of one series need not carry the same unit -/
def exportColumn (T : Tbl) (u : Nat) (qs : List Qty) : List Q := qs.map fun q => conv T q u

end Gearpy
