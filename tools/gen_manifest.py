#!/usr/bin/env python3
"""Writes MANIFEST.json from the table below (keeps the 20 entries consistent)."""
import json
import os

HERE = os.path.dirname(os.path.abspath(__file__))
VERIF = os.path.dirname(HERE)
props = [json.loads(l) for l in open(os.path.join(VERIF, 'properties.jsonl'))]
ids = [p['id'] for p in props]

COMMON_NOTE = ('Exact rationals instead of IEEE doubles (rounding enters only as explicit tolerances / perturbations); '
               'elementary functions and numpy/scipy/pandas are parameters or contracts; the hand-written model is tied to the code '
               'by tables regenerated from the source on every run and by the correspondence harness; axioms limited to propext, '
               'Classical.choice, Quot.sound (audited per theorem on every run).')

# id -> (technique, what the theorems say + how the model is tied, design ref)
CLAIMED = {
 'C01': ('Lean 4 proof: invariant by induction over chain, instants and schedule operations + whole-history correspondence',
         'C01.C01: for every configuration (any chain, load function, controller) and every list of schedule operations, every recorded instant is kinematically coupled (position, speed, acceleration; held instants included); C01_segments / C01_segments_ratios: the same when controller, load function or relations change between runs; C01_pipeline: with the ratios the declarations wrote. Tie: random chains of all element kinds in random units run on the real solver and on the compiled model, whole histories compared, oracle recomputes up = ratio x down.'),
 'C02': ('Lean 4 proof: record invariant (driving/load/net torque laws, load = user function at the recorded state) + whole-history correspondence',
         'C02.C02 for every load function and motor characteristic, every history; index and division-free forms; C02_current; C02_segments (configuration changes between runs); stage_power / chain_power (power leaving a stage = efficiency x power entering it, end to end the product of the efficiencies). Tie: schedules in which the controller, the load function, a relation or the units of live parameter objects change between runs; the harness logs the arguments the real code passes to the load function and compares histories with the model.'),
 'C03': ('Lean 4 proof: equation of motion per record, step relation between consecutive records by induction over loops/runs + correspondence',
         'C03_acc (not held => acceleration = net torque / documented inertia reduction) and loop_steps/run_steps (consecutive records satisfy the semi-implicit update, fresh and continued runs). Tie: whole-history and lock-step correspondence, inertias/dt/initial conditions in random units.'),
 'C04': ('Lean 4 proof: reduction of the model step to an affine map (Q) + Euler-vs-exponential bound in R (Mathlib analysis); order of convergence measured',
         'record_acc_affine, affine_iter / pos_iter_closed (discrete closed forms), euler_exp_err, speed_error_bound and position_error_bound (|w - w(t)| <= |w0-winf| (k t)(k dt), |th - th(t)| <= |w0-winf| (k t + 1) dt), exact_solves_ode / exactPos_deriv (the closed forms are the solution of the equation of motion), run_follows_iter and C04_run (a fresh uncontrolled run records exactly the recursion, hence stays within the bounds at every recorded instant). The halving of the error is measured (labelled test). Tie: lock-step correspondence + the implementation against exactly the proved bounds at dt, dt/2, dt/4, dt/8.'),
 'C05': ('Lean 4 proof: table theorems by decide +kernel on the regenerated unit table vs an independent SI spec + field laws for conversion and comparison',
         'factor_matches_SI / unit_names_match_SI (every unit of every kind against first-principles SI definitions), gen_good, conversion laws, cmp_unit_blind / cmp_distinct_partial / eq_symm_partial; the relative-tolerance statement is false of the code (K1 witness theorems). Tie: exhaustive unit pairs x magnitudes on both sides, including CPython reflected comparison dispatch.'),
 'C06': ('Lean 4 proof: finite kind skeleton (case analysis) + SI congruence (field reasoning); exhaustive cell-by-cell correspondence',
         'binop_kind (all 14x14x4 cells), add_si/mul_si/div_si/div_num_si/div_num_ne_zero, qty_add_sub_cancel, sub_antisymm; subtraction proved with exactly the two K2 call sites excluded and the negation proved by witness. Tie: every cell x units x magnitudes (incl. quotients of very different magnitudes) on both sides.'),
 'C07': ('Lean 4 proof: congruence of every unit-aware operation + unit-invariance of each raw-value site; metamorphic correspondence',
         'conv/add/mul/div/ratio/cmp congruence, grid_unit_invariant, signTest_unit_invariant, wormRow_unit_invariant, scaledValue_si, cmpRaw_scale. The end-to-end statement is checked metamorphically: each model run twice with every input re-expressed in another unit (round-robin over every unit list).'),
 'C08': ('Lean 4 proof: closed forms, boundary identities, odd symmetry of the torque and current laws (field reasoning) + boundary-stream correspondence',
         'torque/current closed forms on both sides of the dead zone, exact zero inside, standstill/no-load values at D = 1, explicit boundary identities, torque_odd/current_odd, current_total. Tie: real DCMotor vs model vs documented formula on random and +-k ulp boundary points.'),
 'C09': ('Lean 4 proof: exhaustive decide +kernel over teeth 10..600 on the regenerated Lewis table + algebraic identities for force/bending/contact + flag iffs',
         'lewis_sorted, lewis_int (exhaustive), clamp/between/at-row lemmas, force/bending/worm formulas, contact_closed_form, flags_iff, wormWheel_bending_iff, contact_mate_error_iff. Tie: real gear classes vs independent Python oracle vs model for all subsets of optional data.'),
 'C10': ('Lean 4 proof: plan-then-write model of the three declaration functions; rejected => heap unchanged for any call sequence; post-conditions; efficiency-range iffs',
         'rejected_unchanged / declareAll_step, gear_post / worm_post / joint_post, gear_rejects / worm_rejects / joint_rejects, drives_eq_declared (forward links = last accepted call per master), accepted_ratio_pos / accepted_eff_range, wormEff_range_master / wormEff_range_wheel. Tie: random pools and call sequences (mostly-valid and malformed streams), every element snapshotted before/after every call on both sides.'),
 'C11': ('Lean 4 proof: exact grid laws on the unit-carrying time axis + robustness of the guarded floor under bounded rounding perturbation (and fragility of the arange count)',
         'steps_exact, never_beyond, fresh_axis, continued_axis, continued_axis_any_solver, stopped_axis_prefix, axis_spacing/strictMono, schedule_axis_increasing / schedule_axis_nodup (whole recorded axis strictly increasing along every schedule of runs, resets and attribute changes), reset_then_fresh_axis, count_robust, guard_suffices, arange_fragile. Tie: sweep of decimal dt x n x units through the real Solver.run (physics patched out in-process) vs the grid model; several Solver objects used in turn on one powertrain.'),
 'C12': ('Lean 4 proof: schedule equivalence (run split by grid/loop append; rerun after reset by equality of the first compute) + negation witness for the unprovisoed statement',
         'run_split, run_split_units, stop_then_continue (early stop + continuation = uninterrupted run), rerun_eq (same or new solver) under the proviso that reset restores the pre-run duty cycle or the chain is not self-locking; K3_witness / rerun_full_false show the proviso is necessary (known finding K3). Tie: schedule pairs on the real code, whole histories vs model.'),
 'C13': ('Lean 4 proof: lock state machine invariants (never clamped without self-locking, sign safety, held still, release condition)',
         'never_clamped over all histories, sign_safe, held_still, held_state, engage_only_if, release_only_if; history level: SafeRel between every two consecutive records of every run and of every schedule of runs and resets (run_safe, first_safe, schedule_safe). Tie: overloaded self-locking chains on both sides, lock flag compared at every instant.'),
 'C14': ('Lean 4 proof: decision logic of the arbitration + range invariant over all histories',
         'arbitrate_none/one/two/nan, arbitrate_range, recorded_in_range and recorded_in_range_segments (every recorded duty cycle of every history within [-1,1], also when each run has its own controller), compute_applies_control, conflict_stops. Tie: rule sets with overlapping windows and out-of-range proposals, whole simulations (lock-step) and stub-rule arbitration on the real PWMControl.'),
 'C15': ('Lean 4 proof: window/value characterisation of the four rules + root of the current law (cross-module with C08)',
         'constant_window, reach_rule, ramp_rule (+ endpoints), limit_rule, the window edges belong to the windows (reach_at_start, reach_before_start, ramp_at_target_rule, ramp_beyond_target, limit_at_target, limit_beyond_target, constant_at_edges), limit_root, limit_outside_deadzone, limit_current_exact (the motor current law at the proposed duty cycle equals the limit). Tie: controlled simulations, documented formulas recomputed from the recorded state, recorded current = limit while in force; rules asked for their proposal by hand on dyadic numbers that hit the window edges exactly, compared with the documented value and with Rule.apply of the model.'),
 'C16': ('Lean 4 proof: the stopped loop is the unstopped loop over a prefix of the grid; predicate false on every strict prefix, true at the end if stopped early',
         'stop_prefix, stop_times, fresh_run_records_two, run_stop_steps (the stopped Solver.run is the unstopped run of the first step count that satisfies the condition), stop_steps_unique, stopNow_stopCond. Tie: thresholds placed between consecutive readings of the unstopped run, stopped history compared with the prefix and with the model.'),
 'C17': ('Lean 4 proof: bookkeeping invariant (one sample per instant per present key) by induction over update/reset sequences; advertised iff recorded for all kinds x data subsets',
         'advertised_iff_records, lengths_inv, export_total, last_is_attr, record_shape / schedule_record_shape (one sample per element per instant for the six kinematic and torque variables along every schedule). Tie: all element kinds x optional-data subsets x schedules; keys/lengths vs model; export and snapshot executed on every simulated powertrain.'),
 'C18': ('Lean 4 proof: interpolation at knots / between knots on strictly increasing axes, commutation with unit conversion, column selection logic',
         'interp_at_knot, recorded_axis_strictInc / snapshot_at_recorded (the axis hypothesis discharged for every schedule of the solver model), interp_between / interp_between_at (any segment of an unequally spaced axis), interp_within, interp_not_sample / interp_offset (no snapping to a neighbouring sample), interp_outside_left/right, cell_linear, columns_subset/complete, reports_iff, sortOrder_matches, exportColumn_cell / exportColumn_unit_invariant / exportColumn_append (a series whose samples carry different units is exported sample by sample). Tie: real snapshot tables and re-read CSV exports compared cell by cell with the oracle and the model (exported columns against exportColumn on the stored value/unit pairs).'),
 'C19': ('Lean 4 proof: validity invariant over all straight-line programs of quantity operations (induction on the program) + constructor iffs',
         'valid_inv (every live object valid after every step of every program), sub_none_unreachable, mk_ok_iff, motorCtor_ok_iff, setPwm_ok_iff. Tie: random 40-step programs with store inspection on both sides, tiny-value stream (finds K4), constructor boundary cases.'),
 'C20': ('Lean 4 proof: chain walk (with fuel) is linked by drives and suffix-closed; error cases; self-locking flag iff',
         'chain_head, chain_links, chain_suffix, assemble_elements, assemble_errors, selfLocking_iff, selfLocking_of_flagged_worm. Tie: declaration sequences producing chains (with re-routing and duplicate names), every motor assembled, read-only and later-declaration checks on the real Powertrain.'),
}

checks = []
for pid in ids:
    if pid in CLAIMED:
        tech, text = CLAIMED[pid]
        checks.append({
            'property_id': pid,
            'quick_cmd': f'/venv/bin/python tools/check.py {pid} --tier quick',
            'thorough_cmd': f'/venv/bin/python tools/check.py {pid} --tier thorough',
            'evidence_file': f'evidence/{pid}.json',
            'replay_cmd_template': f'/venv/bin/python tools/check.py {pid} --replay {{path}}',
            'engine': 'lean-model+correspondence',
            'level_claimed': {'category': 'proof', 'text': text, 'design_ref': f'section 6, {pid}'},
            'level_note': COMMON_NOTE,
            'technique': tech,
        })
manifest = {
 'version': 1,
 'setup_cmd': 'bash tools/setup.sh',
 'hooks': {'guard': 'GEARPY_VERIF',
           'enable': 'no hooks are needed: every observable is public API (plus name-mangled attributes the repository\'s own tests use); GEARPY_VERIF is reserved and unused',
           'baseline_off_cmd': 'cd /repo && /venv/bin/python -m pytest -ra -q -p no:cacheprovider --timeout=900 --continue-on-collection-errors',
           'source_commits': [], 'add_only': True},
 'engines': [{'name': 'lean-model+correspondence', 'path': 'lean/ + tools/',
              'serves_properties': sorted(CLAIMED),
              'kind_free_text': 'hand-written executable Lean 4 model with kernel-checked theorems; tables regenerated from the source; API-level differential correspondence (Python in-process vs compiled Lean driver, whole-history and lock-step) with an independent property oracle'}],
 'checks': checks,
 'notes': 'Repairs of genuine defects are unguarded `fix:` commits in /repo (listed in known_findings.json under "fixed"); recorded, unrepaired defects are in known_findings.json under "findings" (K1 C05, K2 C06, K3 C12, K4 C19).',
 'not_applicable': [{'property_id': pid, 'reason': 'check not built yet'} for pid in ids if pid not in CLAIMED],
}
json.dump(manifest, open(os.path.join(VERIF, 'MANIFEST.json'), 'w'), indent=1)
print('claimed', len(checks), 'not applicable', len(manifest['not_applicable']))
