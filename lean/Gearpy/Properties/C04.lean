import Gearpy.Proofs.Solver
import Gearpy.Model.Motor
import Mathlib.Analysis.Complex.Exponential
import Mathlib.Algebra.Order.Ring.Abs
import Mathlib.Tactic.FieldSimp
import Mathlib.Tactic.Positivity
/-!
# C04 — trajectories converge to the closed-form solution as dt shrinks

Reduction (ℚ, on the model).  For a chain that is not held, a load `L` and a motor
characteristic that is affine in the motor speed, `T_m(ω_m) = a − b·ω_m` (every DC-motor law of
C08 at constant duty cycle is: `a = T_max(D)`, `b = T_max(D)/(D ω₀)`; in the dead zone `a = b = 0`):
* `coupled_head`, `drive_last`: the motor speed is `P·ω` and the last element's driving torque
  `G·T_m`, with `P = Π rᵢ`, `G = Π ηᵢ rᵢ`;
* `record_acc_affine`: the acceleration recorded at an instant is `(A − B ω)/J` with
  `A = a G − L`, `B = b P G`, `J` the equivalent inertia — the right-hand side of the linear ODE
  `J ω' = A − B ω`; it holds on every record of every history (`all_records_ok`);
* `affine_iter`: iterating the speed update `ω ↦ ω + dt (A − B ω)/J` gives
  `ω_m − ω_∞ = (1 − κ dt)^m (ω₀ − ω_∞)`, `κ = B/J`, `ω_∞ = A/B`.
Analysis (ℝ).  With `h = κ dt ∈ [0, 1]`:
* `euler_exp_err`: `|(1 − h)^m − e^{−m h}| ≤ m h²`;
* `speed_error_bound`: `|ω_m − ω(t_m)| ≤ |ω₀ − ω_∞| · (κ t_m) · (κ dt)` where
  `ω(t) = ω_∞ + (ω₀ − ω_∞) e^{−κ t}` is the closed-form solution and `t_m = m dt`:
  at every instant of a fixed horizon the error is bounded by a constant times `dt`.
Not proved: the analogous bound for the position (its discrete and continuous closed forms are the
sum / integral of the speeds; the harness compares both with the implementation), and "the error roughly halves when dt is halved" is a statement about the leading error
term; it is **measured** by the harness (observed order within 0.8–1.2) and labelled as a test.
-/

namespace Gearpy.C04
open Gearpy

def prodR : List Q → Q := fun rs => rs.foldr (fun r p => r * p) 1
def gain : List Link → Q := fun ls => ls.foldr (fun l p => l.eff * l.ratio * p) 1

theorem lastD_cons_cons (a b : Q) (vs : List Q) : lastD (a :: b :: vs) = lastD (b :: vs) := by
  simp [lastD, List.getLastD_cons]

theorem coupled_head : ∀ (rs vs : List Q), Coupled rs vs → vs.headD 0 = prodR rs * lastD vs
  | [], [v], _ => by simp [prodR, lastD]
  | r :: rs, a :: b :: vs, h => by
    obtain ⟨h1, h2⟩ := h
    have := coupled_head rs (b :: vs) h2
    simp only [List.headD_cons] at this ⊢
    have e : prodR (r :: rs) = r * prodR rs := rfl
    rw [lastD_cons_cons, h1, e, mul_assoc, ← this]
  | [], [], h => by simp [Coupled] at h
  | [], _ :: _ :: _, h => by simp [Coupled] at h
  | _ :: _, [], h => by simp [Coupled] at h
  | _ :: _, [_], h => by simp [Coupled] at h

theorem drive_last : ∀ (ls : List Link) (ds : List Q), DriveOK ls ds → lastD ds = ds.headD 0 * gain ls
  | [], [d], _ => by simp [gain, lastD]
  | l :: ls, a :: b :: vs, h => by
    obtain ⟨h1, h2⟩ := h
    have := drive_last ls (b :: vs) h2
    simp only [List.headD_cons] at this ⊢
    have e : gain (l :: ls) = l.eff * l.ratio * gain ls := rfl
    rw [lastD_cons_cons, this, h1, e]; ring
  | [], [], h => by simp [DriveOK] at h
  | [], _ :: _ :: _, h => by simp [DriveOK] at h
  | _ :: _, [], h => by simp [DriveOK] at h
  | _ :: _, [_], h => by simp [DriveOK] at h

theorem drive_length : ∀ (ls : List Link) (ds : List Q), DriveOK ls ds → ds.length = ls.length + 1
  | [], [d], _ => rfl
  | l :: ls, a :: b :: vs, h => by have := drive_length ls (b :: vs) h.2; simp at this ⊢; omega
  | [], [], h => by simp [DriveOK] at h
  | [], _ :: _ :: _, h => by simp [DriveOK] at h
  | _ :: _, [], h => by simp [DriveOK] at h
  | _ :: _, [_], h => by simp [DriveOK] at h

theorem load_length : ∀ (ls : List Link) (xs : List Q), LoadOK ls xs → xs.length = ls.length + 1
  | [], [d], _ => rfl
  | l :: ls, a :: b :: vs, h => by have := load_length ls (b :: vs) h.2; simp at this ⊢; omega
  | [], [], h => by simp [LoadOK] at h
  | [], _ :: _ :: _, h => by simp [LoadOK] at h
  | _ :: _, [], h => by simp [LoadOK] at h
  | _ :: _, [_], h => by simp [LoadOK] at h

theorem lastD_zipWith_sub : ∀ (ds xs : List Q), ds.length = xs.length → ds ≠ [] →
    lastD (List.zipWith (· - ·) ds xs) = lastD ds - lastD xs
  | [d], [x], _, _ => by simp [lastD]
  | a :: b :: ds, x :: y :: xs, hl, _ => by
    have := lastD_zipWith_sub (b :: ds) (y :: xs) (by simpa using hl) (by simp)
    simp only [List.zipWith_cons_cons] at this ⊢
    rw [lastD_cons_cons, lastD_cons_cons, lastD_cons_cons, this]
  | [], _, _, h => absurd rfl h
  | [_], [], hl, _ => by simp at hl
  | [_], _ :: _ :: _, hl, _ => by simp at hl
  | _ :: _ :: _, [], hl, _ => by simp at hl
  | _ :: _ :: _, [_], hl, _ => by simp at hl

/-- the acceleration recorded at an instant, for a motor law affine in the motor speed -/
theorem record_acc_affine (c : Cfg) (r : Rec) (hok : RecOK c r) (hnl : r.locked = false) (a b L : Q)
    (hm : ∀ w, c.motorTorque w r.pwm = a - b * w)
    (hL : c.load (lastD r.pos) (lastD r.speed) r.time = L) :
    lastD r.acc = ((a * gain c.links - L) - (b * prodR (c.links.map (·.ratio)) * gain c.links) * lastD r.speed) / inertia c := by
  rw [hok.eom hnl, hok.net]
  have hdl := drive_length c.links r.dtorque hok.drive
  have hll := load_length c.links r.ltorque hok.load
  rw [lastD_zipWith_sub r.dtorque r.ltorque (by omega) (by intro h; rw [h] at hdl; simp at hdl)]
  rw [drive_last c.links r.dtorque hok.drive]
  have hd0 : r.dtorque.headD 0 = a - b * (r.speed.headD 0) := by
    have := hok.drive0
    cases hd : r.dtorque with
    | nil => rw [hd] at hdl; simp at hdl
    | cons d ds => rw [hd] at this; simp at this; simp [this, hm]
  rw [hd0, coupled_head _ _ hok.speed, lastD_of_getLast? hok.loadLast, hL]
  ring

/-- the discrete recursion `ω_{k+1} = ω_k + dt (A − B ω_k)/J` in closed form -/
def iter (A B J dt : Q) (w0 : Q) : Nat → Q
  | 0 => w0
  | k + 1 => iter A B J dt w0 k + dt * (A - B * iter A B J dt w0 k) / J

theorem affine_iter (A B J dt w0 : Q) (hB : B ≠ 0) (hJ : J ≠ 0) (m : Nat) :
    iter A B J dt w0 m - A / B = (1 - B / J * dt) ^ m * (w0 - A / B) := by
  induction m with
  | zero => simp [iter]
  | succ k ih =>
    simp only [iter, pow_succ]
    have : iter A B J dt w0 k = (1 - B / J * dt) ^ k * (w0 - A / B) + A / B := by linarith
    rw [this]; field_simp; ring

/-- dead zone / no speed dependence (`B = 0`): constant acceleration, the discrete speed is exact -/
theorem const_acc_iter (A J dt w0 : Q) (m : Nat) : iter A 0 J dt w0 m = w0 + (m : Q) * (dt * A / J) := by
  induction m with
  | zero => simp [iter]
  | succ k ih => simp only [iter]; rw [ih]; push_cast; ring

open Real in
theorem euler_exp_err (h : ℝ) (n : ℕ) (h0 : 0 ≤ h) (h1 : h ≤ 1) :
    |(1 - h)^n - Real.exp (-(n*h))| ≤ n * h^2 := by
  have e1 : Real.exp (-(n*h)) = (Real.exp (-h))^n := by
    rw [← Real.exp_nat_mul]; ring_nf
  rw [e1]
  have hb := abs_pow_sub_pow_le (a := 1 - h) (b := Real.exp (-h)) (n := n)
  have habs : |(-h)| ≤ 1 := by rw [abs_neg, abs_of_nonneg h0]; exact h1
  have hd := Real.abs_exp_sub_one_sub_id_le habs
  have hd' : |1 - h - Real.exp (-h)| ≤ h^2 := by
    have : 1 - h - Real.exp (-h) = -(Real.exp (-h) - 1 - (-h)) := by ring
    rw [this, abs_neg]; simpa using hd
  have hm : max |1 - h| |Real.exp (-h)| ≤ 1 := by
    apply max_le
    · rw [abs_le]; constructor <;> linarith
    · rw [abs_of_pos (Real.exp_pos _)]; exact Real.exp_le_one_iff.mpr (by linarith)
  have hp : max |1 - h| |Real.exp (-h)| ^ (n - 1) ≤ 1 :=
    pow_le_one₀ (le_max_of_le_left (abs_nonneg _)) hm
  calc |(1 - h)^n - (Real.exp (-h))^n|
      ≤ |1 - h - Real.exp (-h)| * n * max |1 - h| |Real.exp (-h)| ^ (n - 1) := hb
    _ ≤ h^2 * n * 1 := by gcongr
    _ = n * h^2 := by ring

/-- the closed-form solution of `J ω' = A − B ω`, `ω(0) = ω₀` -/
noncomputable def exact (winf w0 κ t : ℝ) : ℝ := winf + (w0 - winf) * Real.exp (-(κ * t))

/-- C04: the simulated speed stays within a bound proportional to `dt` of the closed-form solution
    at every instant: `|ω_m − ω(m dt)| ≤ |ω₀ − ω_∞| · (κ · m dt) · (κ dt)` -/
theorem speed_error_bound (A B J dt w0 : Q) (hB : B ≠ 0) (hJ : J ≠ 0) (m : ℕ)
    (h0 : 0 ≤ B / J * dt) (h1 : B / J * dt ≤ 1) :
    |((iter A B J dt w0 m : Q) : ℝ) - exact ((A / B : Q) : ℝ) (w0 : ℝ) ((B / J : Q) : ℝ) ((m : ℝ) * (dt : ℝ))|
      ≤ |((w0 - A / B : Q) : ℝ)| * ((((B / J : Q) : ℝ) * ((m : ℝ) * (dt : ℝ))) * (((B / J : Q) : ℝ) * (dt : ℝ))) := by
  have hit := affine_iter A B J dt w0 hB hJ m
  have hit' : ((iter A B J dt w0 m : Q) : ℝ) = ((A / B : Q) : ℝ) + (1 - ((B / J * dt : Q) : ℝ)) ^ m * ((w0 - A / B : Q) : ℝ) := by
    have : iter A B J dt w0 m = A / B + (1 - B / J * dt) ^ m * (w0 - A / B) := by linarith
    rw [this]; push_cast; ring
  set h : ℝ := ((B / J * dt : Q) : ℝ) with hh
  have hh0 : 0 ≤ h := by rw [hh]; exact_mod_cast h0
  have hh1 : h ≤ 1 := by rw [hh]; exact_mod_cast h1
  have hk : ((B / J : Q) : ℝ) * (dt : ℝ) = h := by rw [hh]; push_cast; ring
  have hexp : ((B / J : Q) : ℝ) * ((m : ℝ) * (dt : ℝ)) = (m : ℝ) * h := by rw [← hk]; ring
  unfold exact
  rw [hit', hexp, hk]
  have hd : ((w0 : Q) : ℝ) - ((A / B : Q) : ℝ) = ((w0 - A / B : Q) : ℝ) := by push_cast; ring
  have : ((A / B : Q) : ℝ) + (1 - h) ^ m * ((w0 - A / B : Q) : ℝ) - (((A / B : Q) : ℝ) + ((w0 : ℝ) - ((A / B : Q) : ℝ)) * Real.exp (-((m : ℝ) * h)))
      = ((w0 - A / B : Q) : ℝ) * ((1 - h) ^ m - Real.exp (-((m : ℝ) * h))) := by rw [hd]; ring
  rw [this, abs_mul]
  have he := euler_exp_err h m hh0 hh1
  calc |((w0 - A / B : Q) : ℝ)| * |(1 - h) ^ m - Real.exp (-((m : ℝ) * h))|
      ≤ |((w0 - A / B : Q) : ℝ)| * ((m : ℝ) * h ^ 2) := by gcongr
    _ = |((w0 - A / B : Q) : ℝ)| * ((m : ℝ) * h * h) := by ring

/-! ### non-vacuity: A = 2, B = 1, J = 4, dt = 1/2 (κ dt = 1/8), three steps -/
example : iter 2 1 4 (1/2) 0 3 - 2 / 1 = (1 - 1 / 4 * (1/2)) ^ 3 * (0 - 2 / 1) := affine_iter 2 1 4 (1/2) 0 (by norm_num) (by norm_num) 3

end Gearpy.C04
