"""Builds a real gearpy powertrain from a pure-data *spec*, runs a schedule on it, and returns a
*trace* in SI (converted with the independent SI spec, not with the code's tables); renders the
same spec as request lines for the Lean driver and compares the two histories.

A spec is JSON-serialisable so that every case can be written to a replay file and re-run."""
import math
import warnings
from fractions import Fraction as F

from common import R, parse_num
from harness.si_spec import SI, BASE

warnings.filterwarnings('ignore')

import gearpy.units as U  # noqa: E402
from gearpy.mechanical_objects import DCMotor, SpurGear, HelicalGear, WormGear, WormWheel, Flywheel  # noqa: E402
from gearpy.utils import add_fixed_joint, add_gear_mating, add_worm_gear_mating  # noqa: E402
from gearpy.powertrain import Powertrain  # noqa: E402
from gearpy.solver import Solver  # noqa: E402
from gearpy.motor_control import PWMControl  # noqa: E402
from gearpy.motor_control.rules import ConstantPWM, ReachAngularPosition, StartLimitCurrent, \
    StartProportionalToAngularPosition  # noqa: E402
from gearpy.sensors import Timer, AbsoluteRotaryEncoder, Tachometer, Amperometer  # noqa: E402
from gearpy.utils import StopCondition  # noqa: E402

KIND_OF_VAR = {'angular position': 'AngularPosition', 'angular speed': 'AngularSpeed',
               'angular acceleration': 'AngularAcceleration', 'torque': 'Torque', 'driving torque': 'Torque',
               'load torque': 'Torque', 'tangential force': 'Force', 'bending stress': 'Stress',
               'contact stress': 'Stress', 'electric current': 'Current'}
BASE6 = ['angular position', 'angular speed', 'angular acceleration', 'torque', 'driving torque', 'load torque']
TOL = 1e-12      # COMPARISON_TOLERANCE; refreshed from the extracted tables by `code_factor`


def Q(kind, vu):
    """`[value, unit]`, or `[value, unit, other]`: the quantity is built in unit `other` and then re-expressed
    in `unit` **in place** (`q.to(unit, inplace=True)`), the way a user normalises units after the fact"""
    if len(vu) > 2 and vu[2] is not None and vu[2] != vu[1]:
        q = getattr(U, kind)(float(F(vu[0]) * SI[kind][vu[1]] / SI[kind][vu[2]]), vu[2])
        q.to(vu[1], inplace=True)
        return q
    return getattr(U, kind)(vu[0], vu[1])


def si(kind, v, u):
    """SI magnitude through the independent spec"""
    return float(F(v) * SI[kind][u]) if not isinstance(v, float) or math.isfinite(v) else v


def qsi(q):
    k = type(q).__name__
    return si(k, q.value, q.unit)


def from_si(kind, x, unit):
    """value of SI magnitude `x` expressed in `unit`"""
    return float(F(x) / SI[kind][unit])


class Built:
    pass


def make_load(b, coef, unit, gen_id):
    """a new load *function object* (a user replacing `gear.external_torque`); every call is logged with the
    identity of the function that was called"""
    coef = list(coef) + [0.0] * (5 - len(coef))

    def external_torque(angular_position, angular_speed, time):
        if getattr(b, 'load_inplace', None):
            # a user callback that normalises the units of its arguments in place (they are the live objects)
            for q_, u_ in zip((angular_position, angular_speed, time), b.load_inplace):
                if u_ is not None:
                    q_.to(u_, inplace=True)
        p, v, t = qsi(angular_position), qsi(angular_speed), qsi(time)
        b.load_log.append((p, v, t, len(b.pt.time), gen_id))
        val = coef[0] + coef[1] * p + coef[2] * v + coef[3] * t + coef[4] * v * abs(v)
        u_ = unit
        if getattr(b, 'load_units', None):
            u_ = b.load_units[len(b.pt.time) % len(b.load_units)]      # a load function that answers in different torque units
        out = from_si('Torque', val, u_)
        if getattr(b, 'load_numpy', False):
            import numpy as _np
            out = _np.float64(out)      # a load function written with numpy returns numpy scalars (numpy.float64 is a float)
        return U.Torque(out, u_)
    return external_torque


def loads_at(spec, tr):
    """(coefficients, function identity) of the load function in force at every recorded instant"""
    own = owner_at(spec, tr)
    cur, gen_id, per_op = spec['load']['coef'], 0, {}
    for i, op in enumerate(spec['ops']):
        if op['op'] == 'load':
            gen_id += 1
            cur = op['coef']
        per_op[i] = (cur, gen_id)
    return [per_op[i] if i is not None else (spec['load']['coef'], 0) for i in own]


def uniform_cfg(spec):
    """one configuration (controller, load function) for the whole schedule: whole-history model runs need that"""
    return uniform_rules(spec) and not any(op['op'] == 'load' for op in spec['ops'])


def declare(objs, r):
    if r[0] == 'joint':
        add_fixed_joint(objs[r[1]], objs[r[2]])
    elif r[0] == 'gear':
        add_gear_mating(objs[r[1]], objs[r[2]], r[3])
    elif r[0] == 'worm':
        add_worm_gear_mating(objs[r[1]], objs[r[2]], r[3])


def all_rels(spec):
    """every relation declared during the life of the spec's objects, in order: those declared before the
    powertrain is assembled, then those re-declared by `redeclare` ops (same pair, same direction — the element
    tuple is unchanged, ratio / efficiency / roles are those of the last declaration)"""
    return list(spec['rels']) + [op['rel'] for op in spec.get('ops', []) if op['op'] == 'redeclare']


class Runaway(Exception):
    """a run recorded far more instants than T/dt allows (the check must terminate whatever the code does)"""


def expected_steps(dt_vu, T_vu):
    return int((F(T_vu[0]) * SI['TimeInterval'][T_vu[1]]) / (F(dt_vu[0]) * SI['TimeInterval'][dt_vu[1]]) + F(1, 10 ** 9))


def guard_run(pt, dt_vu, T_vu, slack=64):
    """make `pt.update_time` raise `Runaway` once the axis is `slack` instants longer than this run may make it;
    returns a function that removes the guard (no-op if the powertrain has no `update_time`)"""
    orig = getattr(pt, 'update_time', None)
    if orig is None:
        return lambda: None
    limit = len(pt.time) + expected_steps(dt_vu, T_vu) + 1 + slack

    def guarded(*a, **k):
        if len(pt.time) >= limit:
            raise Runaway(f'more than {limit} instants on the time axis')
        return orig(*a, **k)
    try:
        pt.update_time = guarded
    except Exception:  # noqa: BLE001
        return lambda: None

    def undo():
        try:
            del pt.update_time
        except Exception:  # noqa: BLE001
            pass
    return undo


def build(spec):
    """construct the powertrain of a spec; exceptions propagate to the caller"""
    b = Built()
    m = spec['motor']
    kw = {}
    if m.get('i0') is not None:
        kw['no_load_electric_current'] = Q('Current', m['i0'])
    if m.get('imax') is not None:
        kw['maximum_electric_current'] = Q('Current', m['imax'])
    motor = DCMotor(name='motor', inertia_moment=Q('InertiaMoment', m['J']), no_load_speed=Q('AngularSpeed', m['w0']),
                    maximum_torque=Q('Torque', m['tmax']), **kw)
    objs = [motor]
    for i, e in enumerate(spec['elems']):
        name = e.get('name', f'e{i + 1}')
        J = Q('InertiaMoment', e['J'])
        t = e['type']
        opt = {}
        if e.get('module') is not None:
            opt['module'] = Q('Length', e['module'])
        if e.get('fw') is not None:
            opt['face_width'] = Q('Length', e['fw'])
        if e.get('E') is not None and t in ('spur', 'helical'):
            opt['elastic_modulus'] = Q('Stress', e['E'])
        if t == 'fly':
            o = Flywheel(name=name, inertia_moment=J)
        elif t == 'spur':
            o = SpurGear(name=name, n_teeth=e['z'], inertia_moment=J, **opt)
        elif t == 'helical':
            o = HelicalGear(name=name, n_teeth=e['z'], inertia_moment=J, helix_angle=Q('Angle', e['helix']), **opt)
        elif t == 'wormgear':
            kw2 = {}
            if e.get('d') is not None:
                kw2['reference_diameter'] = Q('Length', e['d'])
            o = WormGear(name=name, n_starts=e['starts'], inertia_moment=J, helix_angle=Q('Angle', e['helix']),
                         pressure_angle=Q('Angle', e['pa']), **kw2)
        elif t == 'wormwheel':
            o = WormWheel(name=name, n_teeth=e['z'], inertia_moment=J, helix_angle=Q('Angle', e['helix']),
                          pressure_angle=Q('Angle', e['pa']), **opt)
        else:
            raise ValueError(f'unknown element type {t}')
        objs.append(o)
    for r in spec['rels']:
        declare(objs, r)
    b.objs = objs
    b.motor = motor
    b.pt = Powertrain(motor)
    b.E = list(b.pt.elements)
    b.load_log = []
    b.load_gen = 0
    b.load_inplace = spec['load'].get('inplace')
    b.load_numpy = bool(spec['load'].get('numpy'))
    b.load_units = spec['load'].get('units')
    b.E[-1].external_torque = make_load(b, spec['load']['coef'], spec['load']['unit'], 0)
    ini = spec['init']
    b.E[-1].angular_position = Q(ini.get('pos_kind', 'AngularPosition'), ini['pos'])
    b.E[-1].angular_speed = Q('AngularSpeed', ini['speed'])
    if m.get('pwm0') is not None:
        motor.pwm = m['pwm0']
    b.controls = {}
    b.control = control_for(b, spec.get('rules'))
    return b


_UNSET = object()


def rules_of_op(spec, op):
    """the rule set (list, or None for no controller) in force during a run op: the op's own `rules`
    entry if it has one, else the spec's rule set unless the op switches control off"""
    if 'rules' in op:
        return op['rules']
    return spec.get('rules') if op.get('ctrl', True) else None


def control_for(b, rules):
    """one PWMControl (and one set of rule / sensor objects) per distinct rule-set description: a
    schedule that names the same rule set twice re-uses the same objects, as users do"""
    if rules is None:
        return None
    import json as _json
    key = _json.dumps(rules, sort_keys=True)
    if key not in b.controls:
        c = PWMControl(b.pt)
        for rl in rules:
            c.add_rule(make_rule(b, rl))
        b.controls[key] = c
    return b.controls[key]


def rules_at(spec, tr):
    """rule set in force at every recorded instant (instants recorded before the last reset are gone)"""
    own = owner_at(spec, tr)
    return [rules_of_op(spec, spec['ops'][i]) if i is not None else None for i in own]


def last_reset(spec, tr):
    """index of the last executed reset op (-1 if none): instants recorded before it are gone"""
    k = -1
    err_at = tr['error'][0] if tr.get('error') else None
    for i, (op, rec) in enumerate(zip(spec['ops'], tr.get('ops') or [])):
        if op['op'] == 'reset' and i != err_at:
            k = i
    return k


def owner_at(spec, tr):
    """index of the run op that produced every recorded instant"""
    n = len(tr.get('time') or [])
    out = [None] * n
    lr = last_reset(spec, tr)
    for i, (op, rec) in enumerate(zip(spec['ops'], tr.get('ops') or [])):
        if op['op'] == 'run' and i > lr:
            for j in range(rec['n_before'], min(rec.get('n_after', rec['n_before']), n)):
                out[j] = i
    return out


def uniform_rules(spec):
    """True when every run of the schedule uses the same rule set (whole-history model runs need that)"""
    sets = [rules_of_op(spec, op) for op in spec['ops'] if op['op'] == 'run']
    return all(x == sets[0] for x in sets) if sets else True


def make_rule(b, rl):
    """builds the rule; `rl['late']` = {parameter: unit}: the parameter object handed to the rule (and to its timer) is
    re-expressed **in place** after the rule has been built — same magnitude, another unit"""
    t = rl['type']
    held = {}

    def q(key, kind):
        held[key] = Q(kind, rl[key])
        return held[key]
    if t == 'const':
        rule = ConstantPWM(timer=Timer(start_time=q('start', 'Time'), duration=q('dur', 'TimeInterval')),
                           powertrain=b.pt, target_pwm_value=rl['value'])
    else:
        # element indices are taken modulo the chain length (a re-declared relation can shorten the chain)
        enc = AbsoluteRotaryEncoder(b.E[rl['enc'] % len(b.E)])
        tk = rl.get('target_kind', 'AngularPosition')
        if t == 'reach':
            rule = ReachAngularPosition(encoder=enc, powertrain=b.pt, target_angular_position=q('target', tk),
                                        braking_angle=q('brake', 'Angle'))
        elif t == 'prop':
            rule = StartProportionalToAngularPosition(encoder=enc, powertrain=b.pt, target_angular_position=q('target', tk),
                                                      pwm_min_multiplier=rl['mult'], pwm_min=rl.get('pmin'))
        elif t == 'limit':
            rule = StartLimitCurrent(encoder=enc, tachometer=Tachometer(b.E[rl['tach'] % len(b.E)]), motor=b.motor,
                                     target_angular_position=q('target', tk), limit_electric_current=q('ilim', 'Current'))
        else:
            raise ValueError(t)
    for key, unit in (rl.get('late') or {}).items():
        if key in held:
            held[key].to(unit, inplace=True)
    return rule


def late_unit(rl, key):
    """unit the parameter object carries while the rule is in use"""
    return (rl.get('late') or {}).get(key, rl[key][1])


def make_stop(b, st):
    if st is None:
        return None
    if st['sensor'] == 'enc':
        sen = AbsoluteRotaryEncoder(b.E[st['idx'] % len(b.E)])
        thr = Q(st.get('kind', 'AngularPosition'), st['thr'])
    elif st['sensor'] == 'tac':
        sen = Tachometer(b.E[st['idx'] % len(b.E)])
        thr = Q('AngularSpeed', st['thr'])
    else:
        sen = Amperometer(b.motor)
        thr = Q('Current', st['thr'])
    op = {'gt': StopCondition.greater_than, 'ge': StopCondition.greater_than_or_equal_to, 'eq': StopCondition.equal_to,
          'lt': StopCondition.less_than, 'le': StopCondition.less_than_or_equal_to}[st['op']]
    return StopCondition(sensor=sen, threshold=thr, operator=op)


class LockLog:
    """records the solver's lock flag after every computed instant (in-process wrapper around a
    private method of the Solver *object*; nothing changes in /repo). Falls back to `None`s."""

    def __init__(self):
        self.flags = []

    def attach(self, solver):
        name = '_compute_powertrain_variables'
        orig = getattr(solver, name, None)
        if orig is None or not hasattr(solver, '_Solver__powertrain_is_locked'):
            return False      # internals renamed: the lock flag is not observable, lock-dependent comparisons are skipped
        log = self

        def wrapped(*a, **k):
            r = orig(*a, **k)
            log.flags.append(bool(getattr(solver, '_Solver__powertrain_is_locked', False)))
            return r
        try:
            setattr(solver, name, wrapped)
        except Exception:  # noqa: BLE001
            return False
        return True


def simulate(spec, b=None):
    """run the schedule of a spec on the real code; returns the trace dict"""
    tr = {'error': None, 'build_error': None}
    if b is None:
        try:
            b = build(spec)
        except Exception as ex:  # noqa: BLE001
            tr['build_error'] = type(ex).__name__
            tr['build_msg'] = str(ex)[:200]
            return tr, None
    pt, E, motor = b.pt, b.E, b.motor
    tr['sl_at_build'] = bool(pt.self_locking)
    tr['ids_at_build'] = [id(e) for e in pt.elements]
    solver = Solver(pt)
    lock = LockLog()
    lock.attach(solver)
    tr['ops'] = []
    stops = {}      # the same stop-condition description is the same StopCondition *object* across runs (users reuse them)
    import json as _json
    for i, op in enumerate(spec['ops']):
        rec = {'op': op['op'], 'n_before': len(pt.time), 'pwm_before': float(motor.pwm),
               'locked_before': bool(getattr(solver, '_Solver__powertrain_is_locked', False))}
        try:
            if op['op'] == 'run':
                undo = guard_run(pt, op['dt'], op['T'])
                try:
                    solver.run(time_discretization=Q('TimeInterval', op['dt']), simulation_time=Q('TimeInterval', op['T']),
                               motor_control=control_for(b, rules_of_op(spec, op)),
                               stop_condition=stops.setdefault(_json.dumps(op.get('stop'), sort_keys=True), make_stop(b, op.get('stop'))))
                finally:
                    undo()
            elif op['op'] == 'reset':
                pt.reset()
                lock.flags = []
                b.load_log.clear()
            elif op['op'] == 'init':
                E[-1].angular_position = Q(op.get('pos_kind', 'AngularPosition'), op['pos'])
                E[-1].angular_speed = Q('AngularSpeed', op['speed'])
            elif op['op'] == 'new':
                solver = Solver(pt)
                lock.attach(solver)
            elif op['op'] == 'pwm':
                motor.pwm = op['v']
            elif op['op'] == 'reunit':
                # the user re-expresses a parameter object of a live component in place (same magnitude, another unit)
                o = b.objs[op['obj']]
                q = getattr(o, op['attr'], None)
                if q is not None and hasattr(q, 'to'):
                    q.to(op['unit'], inplace=True)
            elif op['op'] == 'load':
                b.load_gen += 1
                E[-1].external_torque = make_load(b, op['coef'], spec['load']['unit'], b.load_gen)
            elif op['op'] == 'redeclare':
                declare(b.objs, op['rel'])
            elif op['op'] == 'wrap':
                # the user wraps the same chain in another Powertrain object (e.g. to hand it to a plotting helper):
                # the elements and what they recorded belong to the chain, not to the wrapper
                type(pt)(motor)
            elif op['op'] == 'snap':
                # the user looks at the results in the middle of a schedule (read-only: must not influence what follows)
                if len(pt.time) >= 2:
                    t0, t1 = pt.time[0], pt.time[-1]
                    pt.snapshot(target_time=U.Time(t0.value + op.get('frac', 0.5) * (t1.to(t0.unit).value - t0.value), t0.unit),
                                print_data=False)
        except Exception as ex:  # noqa: BLE001
            tr['error'] = (i, type(ex).__name__, str(ex)[:200])
            rec['n_after'] = len(pt.time)
            tr['ops'].append(rec)
            break
        rec['n_after'] = len(pt.time)
        tr['ops'].append(rec)
    tr.update(observe(b, solver, lock))
    return tr, b


def observe(b, solver, lock):
    """everything a property needs from the simulated powertrain, in SI"""
    pt, E, motor = b.pt, b.E, b.motor
    o = {}
    o['n'] = len(E)
    o['time'] = [qsi(t) for t in pt.time]
    o['time_units'] = [t.unit for t in pt.time]
    o['time_raw'] = [t.value for t in pt.time]
    o['ratios'] = [e.master_gear_ratio for e in E[1:]]
    o['effs'] = [e.master_gear_efficiency for e in E[1:]]
    o['inertias'] = [qsi(e.inertia_moment) for e in E]
    o['spur'] = [isinstance(e, SpurGear) for e in E[1:]]
    o['types'] = [type(e).__name__ for e in E]
    o['names'] = [e.name for e in E]
    o['sl'] = bool(pt.self_locking)
    o['ids'] = [id(e) for e in pt.elements]
    o['keys'] = [{k: len(v) for k, v in e.time_variables.items()} for e in E]
    els = []
    bad_kind = []
    for ei, e in enumerate(E):
        d = {}
        for var, lst in e.time_variables.items():
            if var == 'pwm':
                vals = []
                for x in lst:
                    if isinstance(x, (int, float)) and not isinstance(x, bool):
                        vals.append(float(x))
                    else:
                        bad_kind.append((ei, var, type(x).__name__))
                        vals.append(float('nan'))
                d[var] = vals
                continue
            kind = KIND_OF_VAR[var]
            vals = []
            for x in lst:
                if type(x).__name__ != kind and BASE.get(type(x).__name__) != kind:
                    # (a sub-kind is a quantity of the variable's kind: an Angle is an AngularPosition)
                    bad_kind.append((ei, var, type(x).__name__))
                    vals.append(float('nan'))
                else:
                    vals.append(qsi(x))
            d[var] = vals
        els.append(d)
    o['els'] = els
    o['bad_kind'] = bad_kind
    o['units'] = {'pos': E[-1].time_variables['angular position'][0].unit if E[-1].time_variables['angular position'] else None,
                  'speed': E[-1].time_variables['angular speed'][0].unit if E[-1].time_variables['angular speed'] else None}
    o['locked'] = list(lock.flags)
    o['final_locked'] = bool(getattr(solver, '_Solver__powertrain_is_locked')) if hasattr(solver, '_Solver__powertrain_is_locked') else None
    o['load_log'] = list(b.load_log)
    # current attributes (C17: last sample equals the attribute)
    attrs = []
    for e in E:
        a = {}
        for var, attr in (('angular position', 'angular_position'), ('angular speed', 'angular_speed'),
                          ('angular acceleration', 'angular_acceleration'), ('torque', 'torque'),
                          ('driving torque', 'driving_torque'), ('load torque', 'load_torque'),
                          ('tangential force', 'tangential_force'), ('bending stress', 'bending_stress'),
                          ('contact stress', 'contact_stress'), ('electric current', 'electric_current')):
            if var in e.time_variables:
                try:
                    x = getattr(e, attr)
                    a[var] = qsi(x) if x is not None else None
                except Exception as ex:  # noqa: BLE001
                    a[var] = f'!{type(ex).__name__}'
        if 'pwm' in e.time_variables:
            try:
                a['pwm'] = float(e.pwm)
            except Exception as ex:  # noqa: BLE001
                a['pwm'] = f'!{type(ex).__name__}'
        attrs.append(a)
    o['attrs'] = attrs
    o['motor'] = {'w0': qsi(motor.no_load_speed), 'tmax': qsi(motor.maximum_torque),
                  'i0': qsi(motor.no_load_electric_current) if motor.no_load_electric_current is not None else None,
                  'imax': qsi(motor.maximum_electric_current) if motor.maximum_electric_current is not None else None,
                  'tmax_unit': motor.maximum_torque.unit,
                  'imax_unit': motor.maximum_electric_current.unit if motor.maximum_electric_current is not None else None}
    return o


# --------------------------------------------------------------------------------------------
# the same spec for the Lean driver
# --------------------------------------------------------------------------------------------

def ctx(lk, lu, rk, ru):
    """how `left <op> right` behaves at SI level: (exact, tolerance in SI).  CPython runs the right
    operand's reflected method when its class is a proper subclass of the left operand's."""
    if rk in BASE and lk not in BASE:
        f = SI[rk][ru]
    else:
        f = SI[lk][lu]
    return ('1' if lu == ru else '0'), R(F(TOL) * f)


def siR(kind, vu):
    """exact SI rational (as driver token) of a spec quantity, using the *code's* factor (tables.json)
    so that the model sees the doubles the code sees"""
    return R(F(vu[0]) * code_factor(kind, vu[1]))


_CF = {}


def code_factor(kind, unit):
    if not _CF:
        import json
        import os
        from common import BUILD
        t = json.load(open(os.path.join(BUILD, 'tables.json')))
        global TOL
        TOL = t['tol'][0] / t['tol'][1]
        for kk, d in t['kinds'].items():
            for un, f in zip(d['units'], d['factors']):
                _CF[(kk, un)] = F(f[0], f[1])
    return _CF[(kind, unit)]


def model_cfg(spec, tr, dt_unit=None, rules=_UNSET, coef=None):
    """`key=value` tokens describing the configuration to the driver. Ratios, efficiencies and the
    self-locking flag are read from the built objects (they are C10's / C20's subject, checked by
    their own harness); everything else comes from the spec."""
    m = spec['motor']
    pos_u, speed_u = spec['init']['pos'][1], spec['init']['speed'][1]
    toks = [f"J0={siR('InertiaMoment', m['J'])}"]
    links = []
    for e, r, eta, sp in zip(spec_chain(spec, tr), tr['ratios'], tr['effs'], tr['spur']):
        links.append(f"{R(r)}:{R(eta)}:{siR('InertiaMoment', e['J'])}:{1 if sp else 0}")
    toks.append('links=' + ';'.join(links))
    toks.append(f"sl={1 if tr['sl'] else 0}")
    toks.append(f"tolW={R(F(TOL) * SI['AngularSpeed'][speed_u]) if speed_u != 'rad/s' else '0'}")
    tu = m['tmax'][1]
    toks.append(f"tolT={R(F(TOL) * SI['Torque'][tu]) if tu != 'Nm' else '0'}")
    toks.append(f"w0={siR('AngularSpeed', m['w0'])} tmax={siR('Torque', m['tmax'])}")
    if m.get('i0') is not None and m.get('imax') is not None:
        toks.append(f"i0={siR('Current', m['i0'])} imax={siR('Current', m['imax'])}")
    toks.append('load=' + ','.join(R(c) for c in (coef if coef is not None else spec['load']['coef'])))
    if rules is _UNSET:
        runs = [op for op in spec['ops'] if op['op'] == 'run']
        rules = rules_of_op(spec, runs[0]) if runs else spec.get('rules')
    if rules is None:
        toks.append('rules=-')
    else:
        rs = []
        for rl in rules:
            t = rl['type']
            if t == 'const':
                du = dt_unit or first_dt_unit(spec)
                e1, t1 = ctx('Time', du, 'Time', late_unit(rl, 'start'))
                e2, t2 = ctx('Time', du, 'TimeInterval', late_unit(rl, 'dur'))
                rs.append(f"C:{siR('Time', rl['start'])}:{siR('TimeInterval', rl['dur'])}:{R(rl['value'])}:{e1}:{t1}:{e2}:{t2}")
            else:
                tk = rl.get('target_kind', 'AngularPosition')
                e1, t1 = ctx('AngularPosition', pos_u, tk, late_unit(rl, 'target'))
                tg = siR('AngularPosition', rl['target'])
                if t == 'reach':
                    rs.append(f"R:{rl['enc'] % tr['n']}:{tg}:{siR('Angle', rl['brake'])}:{e1}:{t1}")
                elif t == 'prop':
                    pm = R(rl['pmin']) if rl.get('pmin') is not None else '-'
                    rs.append(f"P:{rl['enc'] % tr['n']}:{tg}:{R(rl['mult'])}:{pm}:{e1}:{t1}")
                elif t == 'limit':
                    rs.append(f"L:{rl['enc'] % tr['n']}:{rl['tach'] % tr['n']}:{tg}:{siR('Current', rl['ilim'])}:{e1}:{t1}")
        toks.append('rules=' + (';'.join(rs) if rs else ';'))
    return toks


def first_dt_unit(spec):
    for op in spec['ops']:
        if op['op'] == 'run':
            return op['dt'][1]
    return 'sec'


def spec_chain(spec, tr):
    """spec entries of the chain elements after the motor, in powertrain order (by name)"""
    names = {e.get('name', f'e{i + 1}'): e for i, e in enumerate(spec['elems'])}
    return [names[n] for n in tr['names'][1:]]


def model_stop(spec, st, tr):
    if st is None:
        return None
    pos_u, speed_u = spec['init']['pos'][1], spec['init']['speed'][1]
    if st['sensor'] == 'enc':
        k = st.get('kind', 'AngularPosition')
        e, t = ctx('AngularPosition', pos_u, k, st['thr'][1])
        return f"enc,{st['idx'] % tr['n']},{st['op']},{siR('AngularPosition', st['thr'])},{e},{t}"
    if st['sensor'] == 'tac':
        e, t = ctx('AngularSpeed', speed_u, 'AngularSpeed', st['thr'][1])
        return f"tac,{st['idx'] % tr['n']},{st['op']},{siR('AngularSpeed', st['thr'])},{e},{t}"
    e, t = ctx('Current', spec['motor']['imax'][1], 'Current', st['thr'][1])
    return f"amp,0,{st['op']},{siR('Current', st['thr'])},{e},{t}"


def model_ops(spec, tr):
    """schedule for the driver: step counts come from the unit-carrying grid model via `n` computed
    exactly from the SI magnitudes (the same arithmetic as `Gearpy.nSteps`)"""
    out = []
    for op in spec['ops']:
        if op['op'] == 'run':
            dt = F(op['dt'][0]) * code_factor('TimeInterval', op['dt'][1])
            T = F(op['T'][0]) * code_factor('TimeInterval', op['T'][1])
            n = int((T / dt + F(1, 10 ** 9)) // 1)
            s = f'run,{R(dt)},{n}'
            st = model_stop(spec, op.get('stop'), tr)
            if st:
                s += ',' + st
            out.append(s)
        elif op['op'] == 'reset':
            out.append('reset')
        elif op['op'] == 'init':
            out.append(f"init,{siR('AngularPosition', op['pos'])},{siR('AngularSpeed', op['speed'])}")
        elif op['op'] == 'new':
            out.append('new')
        elif op['op'] == 'pwm':
            out.append(f"pwm,{R(op['v'])}")
    return out


def hist_line(spec, tr):
    toks = model_cfg(spec, tr)
    toks.append(f"pos={siR('AngularPosition', spec['init']['pos'])} speed={siR('AngularSpeed', spec['init']['speed'])}")
    if spec['motor'].get('pwm0') is not None:
        toks.append(f"pwm0={R(spec['motor']['pwm0'])}")
    toks.append('ops=' + ';'.join(model_ops(spec, tr)))
    return 's hist ' + ' '.join(toks)


def parse_list(s):
    s = s.strip('[]')
    return [parse_num(x) for x in s.split(',')] if s else []


def parse_hist(line):
    """-> (status dict, [records])"""
    parts = line.split(' | ')
    head = parts[0].split()
    st = {'ok': head[0] == 'ok'}
    for w in head[1:]:
        if '=' in w:
            k, v = w.split('=')
            st[k] = v
        elif head[0] == 'err' and 'cls' not in st:
            st['cls'] = w
    recs = []
    for p in parts[1:]:
        w = p.split()
        if len(w) < 10:
            continue
        recs.append({'time': parse_num(w[0]), 'pos': parse_list(w[1]), 'speed': parse_list(w[2]), 'acc': parse_list(w[3]),
                     'dT': parse_list(w[4]), 'lT': parse_list(w[5]), 'T': parse_list(w[6]), 'pwm': parse_num(w[7]),
                     'cur': None if w[8] == '-' else parse_num(w[8]), 'locked': w[9] == '1', 'raw': w})
    return st, recs


VARS6 = [('pos', 'angular position'), ('speed', 'angular speed'), ('acc', 'angular acceleration'),
         ('dT', 'driving torque'), ('lT', 'load torque'), ('T', 'torque')]


def compare_hist(tr, st, recs, rel=1e-7):
    """None if the model history equals the implementation's, else a description of the first difference"""
    impl_err = tr['error']
    if impl_err is not None and st['ok']:
        return f'implementation raised {impl_err[1]} at op {impl_err[0]}, model finished'
    if impl_err is None and not st['ok']:
        return f"model raised {st.get('cls')} at op {st.get('at')}, implementation finished"
    if impl_err is not None and not st['ok']:
        # the model's schedule has no entry for the ops that only touch the objects (re-declaration, in-place
        # re-expression, load replacement, snapshot): count the model-visible ops before the failing one
        MODEL_OPS = ('run', 'reset', 'init', 'new', 'pwm')
        at = sum(1 for r in (tr.get('ops') or [])[:impl_err[0]] if r['op'] in MODEL_OPS)
        if impl_err[1] != st.get('cls') or str(at) != st.get('at'):
            return f"different errors: implementation {impl_err[1]}@{impl_err[0]}, model {st.get('cls')}@{st.get('at')}"
        return None     # a failed run leaves a partly appended instant; histories are not compared
    n = len(tr['time'])
    if len(recs) != n:
        return f'{n} instants recorded, model has {len(recs)}'
    scale = {}
    for mk, var in VARS6:
        scale[mk] = max([abs(x) for e in tr['els'] for x in e[var]] + [1e-9])
    for j in range(n):
        r = recs[j]
        if abs(r['time'] - tr['time'][j]) > rel * max(1.0, abs(r['time'])):
            return f"instant {j}: time {tr['time'][j]} vs model {r['time']}"
        for mk, var in VARS6:
            for ei, e in enumerate(tr['els']):
                a, m = e[var][j], r[mk][ei]
                if not (abs(a - m) <= rel * scale[mk]):
                    return f'instant {j} element {ei} {var}: {a} vs model {m}'
        if abs(tr['els'][0]['pwm'][j] - r['pwm']) > 1e-9:
            return f"instant {j}: pwm {tr['els'][0]['pwm'][j]} vs model {r['pwm']}"
        cur = tr['els'][0].get('electric current')
        if cur is not None and r['cur'] is not None:
            sc = max([abs(x) for x in cur] + [1e-9])
            if not abs(cur[j] - r['cur']) <= rel * sc:
                return f"instant {j}: current {cur[j]} vs model {r['cur']}"
        if tr['locked'] and len(tr['locked']) == n and tr['locked'][j] != r['locked']:
            return f"instant {j}: lock flag {tr['locked'][j]} vs model {r['locked']}"
        if tr.get('gears_in_model'):
            g = compare_gear_vars(tr, j, r['raw'])
            if g is not None:
                return g
    if st.get('locked') is not None and tr['final_locked'] is not None and (st['locked'] == '1') != tr['final_locked']:
        return f"final lock flag {tr['final_locked']} vs model {st['locked']}"
    return None


# --------------------------------------------------------------------------------------------
# lock-step correspondence: the implementation's state at instant j-1 is fed to the model's step
# and the model's instant j is compared with the implementation's (no error accumulation, no
# growth of the exact rationals; the shape the inductive theorems have)
# --------------------------------------------------------------------------------------------

def lockstep_requests(spec, tr, max_steps=None):
    """[(instant index, request line)] for every instant that follows directly from recorded state"""
    n = min(len(tr['els'][0]['angular position']), len(tr['time']))
    if not tr['locked'] or len(tr['locked']) < n:
        return []
    last = tr['els'][-1]
    mot = tr['els'][0]
    out = []
    dirty = False
    first_op = True
    lr = last_reset(spec, tr)
    init = spec['init']          # initial conditions in force for a start from an empty history
    for oi, (op, rec) in enumerate(zip(spec['ops'], tr['ops'])):
        if oi <= lr:
            first_op = False
            if oi == lr:
                init = None      # reset restores the first record of the lost history: not observable
            continue
        if op['op'] != 'run':
            dirty = True
            first_op = False
            if op['op'] == 'init':
                init = op
            continue
        a, b = rec['n_before'], min(rec.get('n_after', rec['n_before']), n)
        dt = F(op['dt'][0]) * code_factor('TimeInterval', op['dt'][1])
        coef = spec['load']['coef']
        for prev in spec['ops'][:oi]:
            if prev['op'] == 'load':
                coef = prev['coef']
        base = ' '.join(model_cfg(spec, tr, rules=rules_of_op(spec, op), coef=coef))
        for j in range(a, b):
            if j == 0:
                if init is None:
                    continue
                toks = [f"initial=1 pos={siR('AngularPosition', init['pos'])} speed={siR('AngularSpeed', init['speed'])}",
                        f"acc=0 pwm={R(rec['pwm_before'])} locked=0 t=0 dt={R(dt)}"]
            else:
                if j == a and dirty:
                    continue
                try:
                    toks = [f"pos={R(last['angular position'][j - 1])} speed={R(last['angular speed'][j - 1])}",
                            f"acc={R(last['angular acceleration'][j - 1])} mtorque={R(mot['torque'][j - 1])} pwm={R(mot['pwm'][j - 1])}",
                            f"locked={1 if tr['locked'][j - 1] else 0} fl0={R(mot['load torque'][0])} "
                            # the instant with the code's own unit factor, so that exact hits of a timer edge given in the same unit stay exact
                            f"t={R(F(tr['time_raw'][j]) * code_factor('Time', tr['time_units'][j]))} dt={R(dt)}"]
                except (ValueError, OverflowError, IndexError, KeyError, TypeError):
                    continue       # a sample that is not a finite number of the right kind: the oracles report it
            out.append((j, 's step ' + base + ' ' + ' '.join(toks)))
        dirty = False
        first_op = False
    if max_steps is not None and len(out) > max_steps:
        stride = len(out) / max_steps
        out = [out[int(i * stride)] for i in range(max_steps)]
    return out


def compare_step(tr, j, answer, rel=1e-9):
    """None if the model's instant equals the implementation's instant j"""
    w = answer.split()
    if w[0] != 'ok':
        return f'instant {j}: model answered {answer[:80]}'
    w = w[1:]
    r = {'pos': parse_list(w[1]), 'speed': parse_list(w[2]), 'acc': parse_list(w[3]), 'dT': parse_list(w[4]),
         'lT': parse_list(w[5]), 'T': parse_list(w[6]), 'pwm': parse_num(w[7]),
         'cur': None if w[8] == '-' else parse_num(w[8]), 'locked': w[9] == '1'}
    # close to the no-load speed the motor torque T_max (1 - w / (D w0)) cancels: its relative rounding error — and that of
    # everything computed from it — is amplified by (stall torque) / |motor torque|
    amp = 1.0
    Tm = abs(tr['els'][0]['driving torque'][j])
    stall = abs(tr['motor']['tmax'])
    if 0 < Tm < stall:
        amp = min(stall / Tm, 1e6)
    for mk, var in VARS6:
        sc = max([abs(e[var][j]) for e in tr['els']] + [abs(e[var][max(j - 1, 0)]) for e in tr['els']] + [1e-9])
        if mk in ('dT', 'T', 'acc'):
            sc *= amp
        if mk in ('T',):
            sc = max([sc] + [abs(e['driving torque'][j]) for e in tr['els']] + [abs(e['load torque'][j]) for e in tr['els']])
        if mk == 'acc':
            sc = max(sc, 1e-6)
            # acceleration = (driving - load) / inertia: near equilibrium the difference cancels, and its relative
            # rounding error is amplified by max(|driving|, |load|) / |net| on the last element
            lastel = tr['els'][-1]
            net = abs(lastel['torque'][j])
            big = max(abs(lastel['driving torque'][j]), abs(lastel['load torque'][j]))
            if net > 0 and big > net:
                sc *= min(big / net, 1e6)
        for ei, e in enumerate(tr['els']):
            a, m = e[var][j], r[mk][ei]
            if not (abs(a - m) <= rel * sc):
                return f'instant {j} element {ei} {var}: {a} vs model {m} (one step from the recorded state)'
    if abs(tr['els'][0]['pwm'][j] - r['pwm']) > 1e-9:
        return f"instant {j}: pwm {tr['els'][0]['pwm'][j]} vs model {r['pwm']}"
    cur = tr['els'][0].get('electric current')
    if cur is not None and r['cur'] is not None:
        sc = max(abs(cur[j]), abs(r['cur']), 1e-9) * amp
        if not abs(cur[j] - r['cur']) <= 1e-8 * sc:
            return f"instant {j}: current {cur[j]} vs model {r['cur']}"
    if tr['locked'][j] != r['locked']:
        return f"instant {j}: lock flag {tr['locked'][j]} vs model {r['locked']}"
    return None


# --------------------------------------------------------------------------------------------
# declarations -> assembly -> simulation inside the model (`s pipe`): ratios, efficiencies, the
# chain order and the self-locking flag are *computed by the model* from the declared relations
# --------------------------------------------------------------------------------------------

PIPE_KIND = {'fly': 'flywheel', 'spur': 'spur', 'helical': 'helical', 'wormgear': 'wormGear', 'wormwheel': 'wormWheel'}


def _qty_token(kind, vu):
    if vu is None:
        return '-'
    from harness.units_h import uidx
    return f'{kind}:{R(vu[0])}:{uidx(kind, vu[1])}'


def pipe_line(spec, tr, b):
    toks = ['motor,0,0,-,-,-,1,0,0,0,0,0']
    for i, e in enumerate(spec['elems']):
        o = b.objs[i + 1]
        t = e['type']
        worm = t in ('wormgear', 'wormwheel')
        toks.append(','.join([
            PIPE_KIND[t], str(i + 1), str(e.get('z', e.get('starts', 0))), _qty_token('Length', e.get('module')),
            _qty_token('Angle', e.get('helix')) if t in ('helical', 'wormgear', 'wormwheel') else '-',
            _qty_token('Angle', e.get('pa')) if worm else '-',
            R(o.pressure_angle.cos()) if worm else '1', R(o.helix_angle.tan()) if worm else '0',
            '1' if e.get('module') else '0', '1' if e.get('fw') else '0', '1' if (e.get('E') and t in ('spur', 'helical')) else '0',
            '1' if e.get('d') else '0']))
    decls = ';'.join(','.join([r[0], str(r[1]), str(r[2])] + ([R(r[3])] if len(r) > 3 else [])) for r in all_rels(spec))
    inertias = ','.join([siR('InertiaMoment', spec['motor']['J'])] + [siR('InertiaMoment', e['J']) for e in spec['elems']])
    cfg = [t for t in model_cfg(spec, tr) if not t.startswith(('J0=', 'links=', 'sl='))]
    rest = [f"pos={siR('AngularPosition', spec['init']['pos'])} speed={siR('AngularSpeed', spec['init']['speed'])}"]
    if spec['motor'].get('pwm0') is not None:
        rest.append(f"pwm0={R(spec['motor']['pwm0'])}")
    rest.append('ops=' + ';'.join(model_ops(spec, tr)))
    return 's pipe elems=' + ';'.join(toks) + ' decls=' + decls + ' inertias=' + inertias + ' ' + ' '.join(cfg) + ' ' + gear_tokens(b) + ' ' + ' '.join(rest)


def parse_pipe(line, spec, tr):
    """-> (chain mismatch message or None, status, records)"""
    if not line.startswith('chain='):
        return f'model could not assemble the chain: {line[:80]}', {'ok': False}, []
    head, rest = line.split(' ', 1)
    chain = [int(x) for x in head[len('chain='):].split(',') if x]
    names = ['motor'] + [e.get('name', f'e{i + 1}') for i, e in enumerate(spec['elems'])]
    want = [names.index(n) for n in tr['names']]
    st, recs = parse_hist(rest)
    if chain != want:
        return f'model chain {chain}, implementation chain {want}', st, recs
    return None, st, recs


# --------------------------------------------------------------------------------------------
# gear data for the model's `_compute_force` / `_compute_stress` (read from the built objects)
# --------------------------------------------------------------------------------------------

def gear_tokens(b):
    from gearpy.mechanical_objects import GearBase, MatingMaster, MatingSlave
    toks = []
    for o in b.E:
        role = getattr(o, 'mating_role', None)
        rtok = 'master' if role is MatingMaster else 'slave' if role is MatingSlave else '-'
        is_worm = isinstance(o, WormGear)
        if not (isinstance(o, GearBase) or is_worm):
            toks.append('-,-,1,-,-,1,1')
            continue
        mate = getattr(o, 'drives', None) if role is MatingMaster else getattr(o, 'driven_by', None) if role is MatingSlave else None
        d = k = den = ct = '-'
        k = '1'
        mm = me = '1'
        if o.tangential_force_is_computable:
            dq = o.reference_diameter
            dF = F(dq.value) * code_factor('Length', dq.unit)
            d = R(dF)
            k = R(o.helix_angle.tan()) if is_worm else '1'
            if isinstance(o, GearBase) and o.bending_stress_is_computable:
                bF = F(o.face_width.value) * code_factor('Length', o.face_width.unit)
                Y = F(float(o.lewis_factor))
                if isinstance(o, WormWheel):
                    dw = F(mate.reference_diameter.value) * code_factor('Length', mate.reference_diameter.unit)
                    pn = F(math.pi) * dw * F(mate.helix_angle.sin()) / o.n_teeth
                    beff = min(bF, F(0.67) * dw)
                    den = R(pn * beff * Y)
                else:
                    mF = F(o.module.value) * code_factor('Length', o.module.unit)
                    den = R(mF * bF * Y)
                if o.contact_stress_is_computable:
                    beta = qsi(o.helix_angle) if isinstance(o, HelicalGear) else 0.0
                    at = math.atan(math.tan(math.radians(20)) / math.cos(beta)) if isinstance(o, HelicalGear) else None
                    sinA = math.sin(at) if at is not None else U.Angle(20, 'deg').sin()
                    cosA = math.cos(at) if at is not None else U.Angle(20, 'deg').cos()
                    E1 = F(o.elastic_modulus.value) * code_factor('Stress', o.elastic_modulus.unit)
                    mm = '1' if (mate is not None and getattr(mate, 'module', None) is not None) else '0'
                    me = '1' if (mate is not None and getattr(mate, 'elastic_modulus', None) is not None) else '0'
                    E2 = F(mate.elastic_modulus.value) * code_factor('Stress', mate.elastic_modulus.unit) if me == '1' else F(0)
                    d2 = F(mate.reference_diameter.value) * code_factor('Length', mate.reference_diameter.unit) if mm == '1' else F(0)
                    ct = '~'.join(R(x) for x in (E1, E2, dF, d2, bF, sinA, cosA, math.cos(beta)))
        toks.append(','.join([rtok, d, k, den, ct, mm, me]))
    return 'gears=' + ';'.join(toks)


def parse_opt_list(s):
    s = s.strip('[]')
    return [None if x == '-' else parse_num(x) for x in s.split(',')] if s else []


def compare_gear_vars(tr, j, w):
    """model's force / bending / contact² lists (tokens w[10..12]) against instant j of the implementation"""
    if len(w) < 13:
        return None
    lists = {'tangential force': parse_opt_list(w[10]), 'bending stress': parse_opt_list(w[11]), 'contact stress': parse_opt_list(w[12])}
    for var, ml in lists.items():
        for ei, e in enumerate(tr['els']):
            has = var in e
            mv = ml[ei] if ei < len(ml) else None
            if has != (mv is not None):
                return f"instant {j} element {ei}: {var} " + ('recorded by the implementation only' if has else 'computed by the model only')
            if has:
                a = e[var][j]
                if var == 'contact stress':
                    a = a * a
                # (a force that cancels to exactly 0.0 in floats is a tiny non-zero rational in the model: the scale is the
                # size this variable reaches on this element during the history, not the size of the cancelled value)
                hist = max((abs(x) for x in e[var] if isinstance(x, (int, float)) and x == x), default=0.0)
                if var == 'contact stress':
                    hist = hist * hist
                sc = max(abs(a), abs(mv), hist, 1e-12)
                if not abs(a - mv) <= 1e-8 * sc:
                    return f'instant {j} element {ei} {var}' + (' (squared)' if var == 'contact stress' else '') + f': {a} vs model {mv}'
    return None
