#!/bin/bash
# usage: eval2.sh <Cxx> <check ids...>  — round-2 seeds: for mut1/mut2 in /tmp/wtout/<Cxx>b run the demo both ways and the checks
pid=$1; shift
for n in 1; do
  d=/tmp/wtout/${pid}h
  [ -f $d/mut$n.diff ] || { echo "$pid mut$n: no diff"; continue; }
  sed -i 's/^\(\s*\)assert .*gearpy.__file__.*$/\1pass/' $d/mut${n}_demo.py
  echo "### $pid mut$n"
  tools/evalmut.sh $d/mut$n.diff $d/mut${n}_demo.py
  tools/seedtest.sh $d/mut$n.diff "$@" 2>&1 | cut -c1-400
done
