#!/bin/bash
# build helper: show only errors (first lines of each) — development aid
cd /verif/lean && lake build "$@" 2>&1 | awk '/^error:|error: /{p=ENVIRON["LB_CTX"]?ENVIRON["LB_CTX"]:12} p>0{print; p--}' | head -${LB_LINES:-80}
