#!/usr/bin/env python3
"""Print a Python source file without docstrings (reading aid only)."""
import ast, sys
for path in sys.argv[1:]:
    tree = ast.parse(open(path).read())
    for node in ast.walk(tree):
        if isinstance(node, (ast.FunctionDef, ast.ClassDef, ast.Module, ast.AsyncFunctionDef)):
            b = node.body
            if b and isinstance(b[0], ast.Expr) and isinstance(getattr(b[0], 'value', None), ast.Constant) and isinstance(b[0].value.value, str):
                node.body = b[1:] or [ast.Pass()]
    print(f"# ==== {path}")
    print(ast.unparse(tree))
