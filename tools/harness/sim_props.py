"""Property oracles on simulated histories + campaigns for C01 C02 C03 C11 C12 C13 C14 C15 C16 C17."""
import json
import math
import os
import tempfile
from fractions import Fraction as F

from common import BUILD
from harness import gen, sim
from harness.si_spec import SI

REL = 1e-9


def _tables():
    return json.load(open(os.path.join(BUILD, 'tables.json')))


def prep():
    gen.set_tables(_tables())


def near(a, b, scale, rel=REL):
    return abs(a - b) <= rel * max(scale, 1e-300)


def vscale(tr, var):
    return max([abs(x) for e in tr['els'] for x in e.get(var, []) if isinstance(x, float) and math.isfinite(x)] + [1e-12])


def n_inst(tr):
    """number of completely recorded instants"""
    return min(len(tr['els'][0]['angular position']), len(tr['time']))


# ---------------------------------------------------------------------------------------------
# oracles: each returns a list of (message, detail) — empty when the property holds on the trace
# ---------------------------------------------------------------------------------------------

def oracle_C01(spec, tr):
    out = []
    n = n_inst(tr)
    for var in ('angular position', 'angular speed', 'angular acceleration'):
        sc = vscale(tr, var)
        for j in range(n):
            for i in range(tr['n'] - 1):
                up, down = tr['els'][i][var][j], tr['els'][i + 1][var][j]
                r = tr['ratios'][i]
                if not near(up, r * down, max(sc, abs(r * down))):
                    out.append((f'{var} of element {i} is not ratio x element {i + 1} at instant {j}',
                                {'up': up, 'down': down, 'ratio': r}))
                    return out
    return out


def motor_law(m, w, D):
    """the documented characteristic (property C08 / C02)"""
    if m['i0'] is None or m['imax'] is None:
        return m['tmax'] * (1 - w / m['w0'])
    pmin = m['i0'] / m['imax']
    if abs(D) <= pmin:
        return 0.0
    if D > 0:
        tm = m['tmax'] * (D * m['imax'] - m['i0']) / (m['imax'] - m['i0'])
    else:
        tm = m['tmax'] * (D * m['imax'] + m['i0']) / (m['imax'] - m['i0'])
    return tm * (1 - w / (D * m['w0']))


def current_law(m, D, T):
    pmin = m['i0'] / m['imax']
    if abs(D) <= pmin:
        return D * m['imax']
    if D > 0:
        tm = m['tmax'] * (D * m['imax'] - m['i0']) / (m['imax'] - m['i0'])
        return (D * m['imax'] - m['i0']) * T / tm + m['i0'] if tm != 0 else m['i0']
    tm = m['tmax'] * (D * m['imax'] + m['i0']) / (m['imax'] - m['i0'])
    return (D * m['imax'] + m['i0']) * T / tm - m['i0'] if tm != 0 else -m['i0']


def deadzone_margin(m, D):
    if m['i0'] is None or m['imax'] is None:
        return 1.0
    return abs(abs(D) - m['i0'] / m['imax'])


def load_value(spec, p, v, t):
    c = spec['load']['coef'] + [0.0] * 5
    return c[0] + c[1] * p + c[2] * v + c[3] * t + c[4] * v * abs(v)


def oracle_C02(spec, tr):
    out = []
    n = n_inst(tr)
    m = tr['motor']
    E = tr['els']
    last = tr['n'] - 1
    sT = max(vscale(tr, 'driving torque'), vscale(tr, 'load torque'))
    calls = {c[3] - 1: c for c in tr['load_log']}      # instant index -> (pos, speed, time)
    for j in range(n):
        D = E[0]['pwm'][j]
        w = E[0]['angular speed'][j]
        if deadzone_margin(m, D) > 1e-9:
            want = motor_law(m, w, D)
            if not near(E[0]['driving torque'][j], want, max(sT, abs(want))):
                out.append((f'motor driving torque at instant {j} is not its characteristic at the recorded speed and duty cycle',
                            {'got': E[0]['driving torque'][j], 'want': want, 'w': w, 'D': D}))
                return out
        for i in range(1, tr['n']):
            want = E[i - 1]['driving torque'][j] * tr['effs'][i - 1] * tr['ratios'][i - 1]
            if not near(E[i]['driving torque'][j], want, max(sT, abs(want))):
                out.append((f'driving torque of element {i} at instant {j} is not driver x efficiency x ratio',
                            {'got': E[i]['driving torque'][j], 'want': want}))
                return out
            wantl = E[i]['load torque'][j] / tr['effs'][i - 1] / tr['ratios'][i - 1]
            if not near(E[i - 1]['load torque'][j], wantl, max(sT, abs(wantl))):
                out.append((f'load torque of element {i - 1} at instant {j} is not follower / efficiency / ratio',
                            {'got': E[i - 1]['load torque'][j], 'want': wantl}))
                return out
        for i in range(tr['n']):
            want = E[i]['driving torque'][j] - E[i]['load torque'][j]
            if not near(E[i]['torque'][j], want, sT):
                out.append((f'net torque of element {i} at instant {j} is not driving - load', {'got': E[i]['torque'][j], 'want': want}))
                return out
        c = calls.get(j)
        if c is None:
            out.append((f'the load function was not evaluated at instant {j}', {}))
            return out
        p, v, t = c[0], c[1], c[2]
        rp, rv, rt = E[last]['angular position'][j], E[last]['angular speed'][j], tr['time'][j]
        if not (near(p, rp, max(abs(rp), vscale(tr, 'angular position'))) and near(v, rv, vscale(tr, 'angular speed'))
                and near(t, rt, max(1e-9, abs(rt)))):
            out.append((f'load function evaluated at (pos, speed, time) = {(p, v, t)} but instant {j} records {(rp, rv, rt)}', {}))
            return out
        want = load_value(spec, rp, rv, rt)
        if not near(E[last]['load torque'][j], want, max(sT, abs(want))):
            out.append((f'load torque of the last element at instant {j} is not the load function at its recorded state',
                        {'got': E[last]['load torque'][j], 'want': want}))
            return out
    return out


def run_segments(spec, tr):
    """for every run op: (dt_si, first new instant index, end index, n planned, clean-predecessor flag)"""
    segs = []
    dirty = True      # True when the state was changed by the user since the last recorded instant
    for op, rec in zip(spec['ops'], tr['ops']):
        if op['op'] == 'run':
            dt = float(F(op['dt'][0]) * SI['TimeInterval'][op['dt'][1]])
            T = float(F(op['T'][0]) * SI['TimeInterval'][op['T'][1]])
            segs.append({'dt': dt, 'T': T, 'a': rec['n_before'], 'b': rec.get('n_after', rec['n_before']),
                         'fresh': rec['n_before'] == 0, 'dirty': dirty, 'op': op, 'pwm_before': rec['pwm_before'],
                         'locked_before': rec['locked_before']})
            dirty = False
        elif op['op'] in ('init', 'pwm', 'reset', 'new'):
            dirty = True
    return segs


def jeq(tr):
    J = tr['inertias'][0]
    for r, Ji in zip(tr['ratios'], tr['inertias'][1:]):
        J = J * r + Ji
    return J


def oracle_C03(spec, tr):
    out = []
    n = n_inst(tr)
    last = tr['els'][-1]
    J = jeq(tr)
    locked = tr['locked'] if len(tr['locked']) >= n else None
    sa = vscale(tr, 'angular acceleration')
    for j in range(n):
        is_locked = locked[j] if locked is not None else (tr['sl'] and all(e['angular speed'][j] == 0 and e['angular acceleration'][j] == 0 for e in tr['els']))
        if not is_locked:
            want = last['torque'][j] / J
            if not near(last['angular acceleration'][j], want, max(sa, abs(want))):
                out.append((f'acceleration of the last element at instant {j} is not net torque / equivalent inertia',
                            {'got': last['angular acceleration'][j], 'want': want, 'J': J}))
                return out
    sp, sv = vscale(tr, 'angular position'), vscale(tr, 'angular speed')
    for sg in run_segments(spec, tr):
        a, b, dt = sg['a'], min(sg['b'], n), sg['dt']
        for j in range(max(a, 1), b):
            if j == a and sg['dirty']:
                continue
            v = last['angular speed'][j - 1] + last['angular acceleration'][j - 1] * dt
            wantp = last['angular position'][j - 1] + v * dt
            if not near(last['angular position'][j], wantp, max(sp, abs(wantp))):
                out.append((f'position at instant {j} is not previous + advanced speed x dt', {'got': last['angular position'][j], 'want': wantp, 'dt': dt}))
                return out
            got = last['angular speed'][j]
            is_locked = locked[j] if locked is not None else (tr['sl'] and got == 0)
            wantv = 0.0 if is_locked else v
            if not near(got, wantv, max(sv, abs(v))):
                out.append((f'speed at instant {j} is not previous + previous acceleration x dt', {'got': got, 'want': wantv, 'dt': dt}))
                return out
    return out


def oracle_C13(spec, tr):
    out = []
    n = n_inst(tr)
    E = tr['els']
    locked = tr['locked'] if len(tr['locked']) >= n else None
    if not tr['sl']:
        if locked is not None and any(locked[:n]):
            out.append(('a powertrain without self-locking mating was clamped', {'instant': locked.index(True)}))
        return out
    sv = vscale(tr, 'angular speed')
    tol = 1e-9 * sv
    # duty cycle in force at instant j: the one recorded at j-1, or the attribute before the run
    before = {}
    for sg in run_segments(spec, tr):
        if sg['fresh']:
            before[0] = sg['pwm_before']
    for j in range(n):
        D = E[0]['pwm'][j - 1] if j > 0 else before.get(0, 1.0)
        w = E[0]['angular speed'][j]
        if (D == 0 and w != 0) or (D > 0 and w < -tol) or (D < 0 and w > tol):
            out.append((f'self-locking powertrain: motor speed {w} at instant {j} against duty cycle in force {D}', {}))
            return out
        if locked is not None and locked[j]:
            if any(e['angular speed'][j] != 0 or e['angular acceleration'][j] != 0 for e in E):
                out.append((f'held at instant {j} but some speed or acceleration is not zero', {}))
                return out
            if j > 0 and locked[j - 1] and not any(sg['a'] == j and sg['dirty'] for sg in run_segments(spec, tr)):
                for e in E:
                    if not near(e['angular position'][j], e['angular position'][j - 1], max(abs(e['angular position'][j]), 1e-9)):
                        out.append((f'position moved between held instants {j - 1} and {j}', {}))
                        return out
        if locked is not None and j > 0 and locked[j - 1] and not locked[j]:
            T0, D0 = E[0]['torque'][j - 1], E[0]['pwm'][j - 1]
            if not ((T0 > 0 and D0 > 0) or (T0 < 0 and D0 < 0)) and not any(sg['a'] == j and sg['dirty'] for sg in run_segments(spec, tr)):
                out.append((f'released at instant {j} although the motor net torque {T0} does not point in the commanded direction {D0}', {}))
                return out
    return out


def expected_steps(sg):
    return int(math.floor(sg['T'] / sg['dt'] + 1e-9))


def oracle_C11(spec, tr):
    out = []
    t = tr['time']
    for sg in run_segments(spec, tr):
        a, b, dt, T = sg['a'], sg['b'], sg['dt'], sg['T']
        q = T / dt
        if abs(q - round(q)) > 1e-6:
            continue     # the property quantifies over T = n*dt
        nsteps = round(q)
        start = 0.0 if sg['fresh'] else t[a - 1]
        appended = t[a:b]
        if sg['fresh']:
            if not appended or appended[0] != 0.0:
                out.append(('a fresh run does not start at time 0', {'first': appended[:1]}))
                return out
            appended = appended[1:]
        stopped = sg['op'].get('stop') is not None
        if (len(appended) != nsteps and not stopped) or len(appended) > nsteps:
            out.append((f'run of T/dt = {nsteps} steps appended {len(appended)} instants', {'dt': dt, 'T': T}))
            return out
        for i, x in enumerate(appended):
            want = start + (i + 1) * dt
            if not near(x, want, max(abs(want), dt), 1e-10):
                out.append((f'instant {i + 1} of the run is at {x}, expected {want}', {'dt': dt}))
                return out
        if appended and appended[-1] > start + T + 1e-9 * max(T, 1e-9):
            out.append(('the axis overruns the requested simulation time', {'last': appended[-1], 'end': start + T}))
            return out
    return out


def oracle_C17(spec, tr, b=None):
    out = []
    n = len(tr['time'])
    if tr['error'] is not None:
        return out      # a run that raised mid-instant is outside the property's operations
    for ei, keys in enumerate(tr['keys']):
        for var, ln in keys.items():
            if ln != n:
                out.append((f"element {ei} ({tr['types'][ei]}) advertises {var!r} with {ln} samples for {n} instants", {}))
                return out
    if tr['bad_kind']:
        out.append((f'a sample has the wrong kind: {tr["bad_kind"][0]}', {}))
        return out
    if n:
        for ei, (e, a) in enumerate(zip(tr['els'], tr['attrs'])):
            for var, val in a.items():
                lastv = e[var][-1] if e.get(var) else None
                if isinstance(val, str) or val is None or lastv is None or not (val == lastv or near(val, lastv, abs(lastv), 1e-12)):
                    out.append((f'last sample of {var!r} of element {ei} ({lastv}) is not the current attribute ({val})', {}))
                    return out
    if b is not None and n:
        try:
            with tempfile.TemporaryDirectory() as d:
                b.pt.export_time_variables(folder_path=d)
        except Exception as ex:  # noqa: BLE001
            out.append((f'export_time_variables failed: {type(ex).__name__}: {str(ex)[:120]}', {}))
            return out
        try:
            b.pt.snapshot(target_time=b.pt.time[len(b.pt.time) // 2], print_data=False)
        except Exception as ex:  # noqa: BLE001
            out.append((f'snapshot failed: {type(ex).__name__}: {str(ex)[:120]}', {}))
    return out


def sensor_series(spec, tr, st):
    if st['sensor'] == 'enc':
        return tr['els'][st['idx']]['angular position'], float(F(st['thr'][0]) * SI['AngularPosition'][st['thr'][1]])
    if st['sensor'] == 'tac':
        return tr['els'][st['idx']]['angular speed'], float(F(st['thr'][0]) * SI['AngularSpeed'][st['thr'][1]])
    return tr['els'][0]['electric current'], float(F(st['thr'][0]) * SI['Current'][st['thr'][1]])


CMP = {'gt': lambda a, b: a > b, 'ge': lambda a, b: a >= b, 'eq': lambda a, b: a == b,
       'lt': lambda a, b: a < b, 'le': lambda a, b: a <= b}


def oracle_C16(spec, tr):
    """returns (violations, near_threshold flag)"""
    out = []
    n = n_inst(tr)
    nearflag = False
    for sg in run_segments(spec, tr):
        st = sg['op'].get('stop')
        if st is None:
            continue
        series, thr = sensor_series(spec, tr, st)
        a, b = sg['a'], min(sg['b'], n)
        first = a + 1 if sg['fresh'] else a
        planned = expected_steps(sg)
        tested = list(range(first, b))
        sc = max([abs(x) for x in series] + [abs(thr), 1e-12])
        if st['op'] == 'eq':
            nearflag = nearflag or any(0 < abs(series[j] - thr) <= 1e-9 * sc for j in tested)
        else:
            nearflag = nearflag or any(abs(series[j] - thr) <= 1e-9 * sc for j in tested)
        if nearflag:
            continue
        ended_early = len(tested) < planned
        for k, j in enumerate(tested):
            holds = CMP[st['op']](series[j], thr)
            is_last = (k == len(tested) - 1)
            if holds and not is_last:
                out.append((f'stop condition already true at instant {j} but the run went on to instant {b - 1}', {'value': series[j], 'thr': thr}))
                return out, nearflag
            if is_last and ended_early and not holds:
                out.append((f'run ended early at instant {j} although the stop condition is false there', {'value': series[j], 'thr': thr}))
                return out, nearflag
        if not tested and planned > 0 and tr['error'] is None:
            out.append(('run with a stop condition recorded no instant', {}))
    return out, nearflag


ORACLES = {'C01': oracle_C01, 'C02': oracle_C02, 'C03': oracle_C03, 'C11': oracle_C11, 'C13': oracle_C13}


# ---------------------------------------------------------------------------------------------
# campaigns
# ---------------------------------------------------------------------------------------------

def dynamics_spec(rng, ctx, *, sl_bias=0.35, schedule=True):
    """a random model with a short schedule (whole-history correspondence: <= 16 steps in total)"""
    ru = rng.random() < 0.7
    spec = gen.gen_spec(rng, random_units=ru, sl_bias=sl_bias)
    dt = 2.0 ** -rng.randint(3, 6)
    total = rng.randint(5, 16)
    if spec['load']['coef'][4] != 0:
        # a quadratic load doubles the size of the exact rationals at every step: keep such histories short
        total = rng.randint(4, 6)
    unit = rng.choice(['sec', 'ms']) if ru else 'sec'
    if rng.random() < 0.6:
        spec['rules'] = gen.const_rules(rng, total * dt, random_units=False)
        if unit != 'sec':
            for r in spec['rules']:
                r['start'] = [r['start'][0] * 1000, 'ms'] if rng.random() < 0.5 else r['start']
    ops = []
    kind = rng.choice(['single', 'split', 'split', 'reset', 'stop']) if schedule else 'single'
    if kind == 'single':
        op, _, _ = gen.run_op(rng, dt_si=dt, steps=(total, total), unit=unit)
        ops = [op]
    elif kind == 'split':
        n1 = rng.randint(2, total - 2)
        o1, _, _ = gen.run_op(rng, dt_si=dt, steps=(n1, n1), unit=unit)
        o2, _, _ = gen.run_op(rng, dt_si=dt, steps=(total - n1, total - n1), unit=unit)
        ops = [o1, o2]
    elif kind == 'reset':
        n1 = rng.randint(2, total // 2)
        o1, _, _ = gen.run_op(rng, dt_si=dt, steps=(n1, n1), unit=unit)
        o2, _, _ = gen.run_op(rng, dt_si=dt, steps=(total - n1, total - n1), unit=unit)
        ops = [o1, {'op': 'reset'}, {'op': 'init', 'pos': spec['init']['pos'], 'speed': spec['init']['speed']}]
        if rng.random() < 0.5:
            ops.append({'op': 'new'})
        ops.append(o2)
    else:
        op, _, _ = gen.run_op(rng, dt_si=dt, steps=(total, total), unit=unit)
        op['stop'] = random_stop(rng, spec)
        ops = [op]
    spec['ops'] = ops
    return spec


def random_stop(rng, spec, thr_si=None):
    n_el = len(spec['elems']) + 1      # every element of these chains is in the powertrain
    s = rng.choice(['enc', 'tac', 'amp'] if spec['motor']['i0'] is not None else ['enc', 'tac'])
    op = rng.choice(['gt', 'ge', 'lt', 'le', 'eq'] if rng.random() < 0.2 else ['gt', 'ge', 'lt', 'le'])
    idx = rng.randrange(n_el)
    if s == 'enc':
        v = thr_si if thr_si is not None else rng.uniform(-3, 6)
        return {'sensor': 'enc', 'idx': idx, 'op': op, 'thr': gen.in_unit(rng, 'AngularPosition', v, True)}
    if s == 'tac':
        v = thr_si if thr_si is not None else rng.uniform(-5, 20)
        return {'sensor': 'tac', 'idx': idx, 'op': op, 'thr': gen.in_unit(rng, 'AngularSpeed', v, True)}
    v = thr_si if thr_si is not None else rng.uniform(0.05, 3)
    return {'sensor': 'amp', 'idx': 0, 'op': op, 'thr': gen.in_unit(rng, 'Current', v, True)}


def near_threshold(spec, tr):
    """a discrete decision of this history lies within rounding distance of its threshold, so exact
    and floating-point arithmetic may legitimately decide differently"""
    n = n_inst(tr)
    E = tr['els']
    sv = vscale(tr, 'angular speed')
    sT = vscale(tr, 'torque')
    if tr['sl']:
        for j in range(n):
            w = E[0]['angular speed'][j]
            if 0 < abs(w) <= 1e-9 * sv:
                return 'motor speed within rounding of zero on a self-locking chain'
            T0 = E[0]['torque'][j]
            if 0 < abs(T0) <= 1e-9 * sT:
                return 'motor torque within rounding of zero on a self-locking chain'
    m = tr['motor']
    if m['i0'] is not None:
        for j in range(n):
            if 0 < deadzone_margin(m, E[0]['pwm'][j]) <= 1e-12:
                return 'duty cycle within rounding of the dead-zone boundary'
    for rl in spec.get('rules') or []:
        if rl['type'] == 'const':
            s = float(F(rl['start'][0]) * SI['Time'][rl['start'][1]])
            d = float(F(rl['dur'][0]) * SI['TimeInterval'][rl['dur'][1]])
            for t in tr['time']:
                for edge in (s, s + d):
                    if 0 < abs(t - edge) <= 1e-9 * max(1.0, abs(edge)):
                        return 'instant within rounding of a timer window edge'
    _, nf = oracle_C16(spec, tr)
    if nf:
        return 'stop-condition reading within rounding of its threshold'
    return None


def eval_dynamics(ctx, specs, props, with_model=True, c17=False):
    """simulate every spec, evaluate the oracles of `props`, compare whole histories with the model"""
    traces = []
    lines = []
    for spec in specs:
        tr, b = sim.simulate(spec)
        traces.append((spec, tr, b))
        if tr['build_error'] is None and with_model and ctx.driver.available:
            lines.append(sim.hist_line(spec, tr))
    answers = ctx.driver.ask(lines) if lines else []
    k = 0
    for spec, tr, b in traces:
        case = {'t': 'sim', 'spec': spec}
        if tr['build_error'] is not None:
            ctx.count('build rejected: ' + tr['build_error'])
            ctx.violation(case, {'why': f"a generated valid powertrain was rejected: {tr['build_error']}: {tr.get('build_msg')}"})
            ctx.case_done(case, nontrivial=False)
            continue
        ctx.count(f"chain length {tr['n']}")
        for ty in set(tr['types']):
            ctx.count(f'element {ty}')
        ctx.count('self-locking' if tr['sl'] else 'not self-locking')
        ctx.count('locked instants', sum(1 for x in tr['locked'] if x))
        ctx.count('schedule ' + '+'.join(o['op'] for o in spec['ops']))
        if tr['error'] is not None:
            ctx.count('run error ' + tr['error'][1])
        ctx.case_done(case, nontrivial=n_inst(tr) >= 3)
        for pid in props:
            if pid == 'C16':
                viol, _ = oracle_C16(spec, tr)
            elif pid == 'C17':
                viol = oracle_C17(spec, tr, b if c17 else None)
            else:
                viol = ORACLES[pid](spec, tr)
            for msg, det in viol[:1]:
                ctx.violation(case, {'why': msg, **det, 'property': pid})
        if with_model and ctx.driver.available:
            st, recs = sim.parse_hist(answers[k])
            k += 1
            diff = sim.compare_hist(tr, st, recs)
            if diff is not None:
                why = near_threshold(spec, tr)
                if why is not None:
                    ctx.count('history excluded: ' + why)
                else:
                    ctx.mismatch(case, diff, answers[k - 1][:300])


def run_dynamics(ctx, props, sl_bias=0.35, quick=120, thorough=3000):
    prep()
    n = ctx.budget(quick, thorough) * ctx.boost
    batch = 200
    done = 0
    while done < n:
        specs = [dynamics_spec(ctx.rng, ctx, sl_bias=sl_bias) for _ in range(min(batch, n - done))]
        eval_dynamics(ctx, specs, props)
        done += len(specs)
    ctx.rule = ('random chains of 2-12 elements (motor, flywheels, spur/helical/worm matings in both orientations), '
                'every input in a random unit, affine + quadratic loads, ConstantPWM controllers, schedules '
                'run / run+continue / run+reset+rerun (same or new solver) / run with stop condition, <= 16 steps; '
                'the whole history is compared with the Lean model and the property oracle is evaluated on it; '
                'non-trivial = at least 3 recorded instants')


def replay_dynamics(ctx, case, props):
    prep()
    eval_dynamics(ctx, [case['spec']], props)


def run_C01(ctx):
    run_dynamics(ctx, ['C01'])


def run_C02(ctx):
    run_dynamics(ctx, ['C02'])


def run_C03(ctx):
    run_dynamics(ctx, ['C03'])


def run_C13(ctx):
    run_dynamics(ctx, ['C13'], sl_bias=0.8)


def replay_C01(ctx, case):
    replay_dynamics(ctx, case, ['C01'])


def replay_C02(ctx, case):
    replay_dynamics(ctx, case, ['C02'])


def replay_C03(ctx, case):
    replay_dynamics(ctx, case, ['C03'])


def replay_C13(ctx, case):
    replay_dynamics(ctx, case, ['C13'])
