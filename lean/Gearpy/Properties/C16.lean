import Gearpy.Proofs.Solver
import Gearpy.Model.Control
/-!
# C16 — a stop condition ends the run at the first instant it holds

`stop_prefix`: the loop with a stop predicate `f` returns exactly what the loop without it returns
over a prefix `us` of the grid (`ts = us ++ vs`); `f` is false on the record of every strict
non-empty prefix of `us` (every earlier computed instant), and if the run ended early (`vs ≠ []`)
`f` is true on the last record.  Nothing is recorded after it (`stop_times`).  The initial
instant of a fresh run is never tested (`fresh_run_records_two`).
`run_stop_steps` lifts this to `Solver.run`, fresh or continued: the stopped run of `n` steps *is* the unstopped run
of `m ≤ n` steps, true at its end if `m < n`, false at the end of every run of `1 ≤ k < m` steps;
`stop_steps_unique`: that `m` is unique.
`stopCond` instantiates `f` with a sensor reading, one of the five operators and a threshold.
-/

namespace Gearpy.C16
open Gearpy

theorem stop_prefix (c : Cfg) (dt : Q) (f : Rec → Bool) (ts : List Q) (s s' : St)
    (h : loop c dt (some f) ts s = .ok s') :
    ∃ us vs, ts = us ++ vs ∧ loop c dt none us s = .ok s' ∧
      (vs ≠ [] → stopNow (some f) s' = true) ∧
      (∀ us1 us2 sm, us = us1 ++ us2 → us1 ≠ [] → us2 ≠ [] → loop c dt none us1 s = .ok sm →
          stopNow (some f) sm = false) := by
  induction ts generalizing s with
  | nil =>
    simp [loop] at h; subst h
    exact ⟨[], [], rfl, by simp [loop], by simp, by intro us1 us2 sm h1 h2; simp at h1; simp [h1.1] at h2⟩
  | cons t ts ih =>
    simp only [loop] at h
    cases h1 : stepAt c dt s t with
    | error e => simp [h1] at h
    | ok s1 =>
      simp only [h1] at h
      by_cases hs : stopNow (some f) s1 = true
      · simp only [hs, if_true, Except.ok.injEq] at h; subst h
        refine ⟨[t], ts, rfl, by simp [loop, h1, stopNow], fun _ => hs, ?_⟩
        intro us1 us2 sm he h1' h2'
        have := congrArg List.length he
        simp at this
        have l1 : 0 < us1.length := List.length_pos_iff.mpr h1'
        have l2 : 0 < us2.length := List.length_pos_iff.mpr h2'
        omega
      · simp only [hs] at h
        obtain ⟨us, vs, hts, hl, hv, hp⟩ := ih s1 (by simpa using h)
        refine ⟨t :: us, vs, by simp [hts], ?_, hv, ?_⟩
        · simp only [loop, h1, stopNow]; simpa using hl
        · intro us1 us2 sm he hne1 hne2 hlm
          cases us1 with
          | nil => exact absurd rfl hne1
          | cons a us1' =>
            simp only [List.cons_append, List.cons.injEq] at he
            obtain ⟨rfl, he'⟩ := he
            simp only [loop, h1, stopNow] at hlm
            by_cases hn : us1' = []
            · subst hn; simp [loop] at hlm; subst hlm; simpa using hs
            · exact hp us1' us2 sm he' hn hne2 (by simpa using hlm)

/-- the time axis of a stopped run is the old axis followed by a prefix of the grid -/
theorem stop_times (c : Cfg) (dt : Q) (f : Rec → Bool) (ts : List Q) (s s' : St)
    (h : loop c dt (some f) ts s = .ok s') :
    ∃ us vs, ts = us ++ vs ∧ s'.recs.map (·.time) = s.recs.map (·.time) ++ us := by
  obtain ⟨us, vs, hts, hl, _, _⟩ := stop_prefix c dt f ts s s' h
  exact ⟨us, vs, hts, loop_times c dt us s s' hl⟩

/-- the initial instant of a fresh run is never tested: whatever the stop predicate says about it, a
    fresh run of `n ≥ 1` steps that does not fail records the initial instant **and at least one more** -/
theorem fresh_run_records_two (c : Cfg) (dt : Q) (n : Nat) (f : Rec → Bool) (s s' : St) (h0 : s.recs = [])
    (h : run c dt (n + 1) (some f) s = .ok s') : 2 ≤ s'.recs.length := by
  unfold run at h
  have : lastTime s = none := by simp [lastTime, h0]
  simp only [this] at h
  split at h
  · simp at h
  · rename_i s0 hc
    obtain ⟨r0, hr0, _⟩ := compute_rec c _ s0 0 hc
    obtain ⟨us, vs, hts, hl, _, _⟩ := stop_prefix c dt f _ s0 s' h
    have hus : us ≠ [] := by
      intro he
      -- an empty prefix means the loop returned before its first step: impossible on a non-empty grid
      subst he
      simp only [List.nil_append] at hts
      have hg : grid 0 dt (n + 1) ≠ [] := by unfold grid; simp [List.range_succ]
      -- the stopped loop over a non-empty grid always performs the first step
      unfold grid at h hg
      cases hgr : (List.range (n + 1)).map (fun i => (0 : Q) + ((i + 1 : Nat) : Q) * dt) with
      | nil => rw [hgr] at hg; exact hg rfl
      | cons t ts =>
        rw [hgr] at h
        simp only [loop] at h
        cases h1 : stepAt c dt s0 t with
        | error e => simp [h1] at h
        | ok s1 =>
          obtain ⟨r1, hr1, _⟩ := stepAt_recs c dt s0 s1 t h1
          simp only [loop, Except.ok.injEq] at hl
          -- `hl : s0 = s'`, while the stopped loop went through `s1` whose history is longer
          subst hl
          simp only [h1] at h
          split at h
          · simp only [Except.ok.injEq] at h
            have := congrArg (fun x => x.recs.length) h
            simp [hr1] at this
          · -- the loop continued from s1: its result has at least s1's records
            have hmono : ∀ (ts : List Q) (a b : St), loop c dt (some f) ts a = .ok b → a.recs.length ≤ b.recs.length := by
              intro ts
              induction ts with
              | nil => intro a b hab; simp [loop] at hab; subst hab; exact le_refl _
              | cons u us ih =>
                intro a b hab
                simp only [loop] at hab
                cases h2 : stepAt c dt a u with
                | error e => simp [h2] at hab
                | ok a1 =>
                  obtain ⟨ra, hra, _⟩ := stepAt_recs c dt a a1 u h2
                  simp only [h2] at hab
                  split at hab
                  · simp only [Except.ok.injEq] at hab; subst hab; simp [hra]
                  · have := ih a1 b hab; simp [hra] at this ⊢; omega
            have := hmono ts s1 s0 h
            simp [hr1] at this
    have hlen := loop_times c dt us s0 s' hl
    have : (s'.recs.map (·.time)).length = (s0.recs.map (·.time)).length + us.length := by rw [hlen]; simp
    simp only [List.length_map, hr0, h0, List.nil_append, List.length_singleton] at this
    have : 0 < us.length := List.length_pos_iff.mpr hus
    omega

/-- the predicate tested is the comparison of the sensor's reading of the record just appended -/
theorem stopNow_stopCond (cx : CmpCtx) (sen : Sensor) (op : Cmp) (thr : Q) (s : St) (r : Rec)
    (h : s.recs.getLast? = some r) :
    stopNow (some (stopCond cx sen op thr)) s = cmpSI cx op (sen.read r) thr := by
  simp [stopNow, h, stopCond]

/-! ### at the level of `Solver.run`: the stopped run is the unstopped run of the first step count that satisfies the condition -/
theorem grid_take (t0 dt : Q) (n m : Nat) (h : m ≤ n) : (grid t0 dt n).take m = grid t0 dt m := by
  simp [grid, ← List.map_take, List.take_range, Nat.min_eq_left h]

/-- the stopped loop over `n` grid points is the unstopped loop over the first `m ≤ n` of them, `m` being the
    **first** step count at which the predicate holds -/
theorem loop_stop_steps (c : Cfg) (dt : Q) (f : Rec → Bool) (t0 : Q) (n : Nat) (s s' : St)
    (h : loop c dt (some f) (grid t0 dt n) s = .ok s') :
    ∃ m, m ≤ n ∧ loop c dt none (grid t0 dt m) s = .ok s' ∧ (m < n → stopNow (some f) s' = true) ∧
      ∀ k sm, 0 < k → k < m → loop c dt none (grid t0 dt k) s = .ok sm → stopNow (some f) sm = false := by
  obtain ⟨us, vs, hts, hl, hv, hp⟩ := stop_prefix c dt f _ s s' h
  have hlen : us.length + vs.length = n := by
    have := congrArg List.length hts; simp [grid] at this; omega
  have hus : us = grid t0 dt us.length := by
    have := congrArg (List.take us.length) hts
    rw [grid_take t0 dt n us.length (by omega)] at this
    simpa using this.symm
  refine ⟨us.length, by omega, by rw [← hus]; exact hl, ?_, ?_⟩
  · intro hm; apply hv; intro he; subst he; simp at hlen; omega
  · intro k sm hk hkm hlk
    have hk' : grid t0 dt k = us.take k := by
      have := grid_take t0 dt us.length k (by omega)
      rw [← hus] at this; exact this.symm
    refine hp (us.take k) (us.drop k) sm (List.take_append_drop k us).symm ?_ ?_ (by rw [← hk']; exact hlk)
    · intro he
      have : (us.take k).length = 0 := by rw [he]; rfl
      rw [List.length_take] at this; omega
    · intro he
      have : (us.drop k).length = 0 := by rw [he]; rfl
      rw [List.length_drop] at this; omega

/-- **C16 at the level of `Solver.run`** (fresh or continued): a run of `n` steps with a stop condition returns
    exactly what the run of `m ≤ n` steps without one returns; if it ended early (`m < n`) the comparison is true at
    the last recorded instant; and it is false at the end of every shorter run of `1 ≤ k < m` steps — i.e. at every
    earlier computed instant.  The initial instant (`k = 0`) is not tested. -/
theorem run_stop_steps (c : Cfg) (dt : Q) (n : Nat) (f : Rec → Bool) (s s' : St)
    (h : run c dt n (some f) s = .ok s') :
    ∃ m, m ≤ n ∧ run c dt m none s = .ok s' ∧ (m < n → stopNow (some f) s' = true) ∧
      ∀ k sm, 0 < k → k < m → run c dt k none s = .ok sm → stopNow (some f) sm = false := by
  unfold run at h
  cases hl : lastTime s with
  | some t0 =>
    simp only [hl] at h
    obtain ⟨m, hm, h1, h2, h3⟩ := loop_stop_steps c dt f t0 n s s' h
    refine ⟨m, hm, by simp only [run, hl]; exact h1, h2, ?_⟩
    intro k sm hk hkm hr
    simp only [run, hl] at hr
    exact h3 k sm hk hkm hr
  | none =>
    simp only [hl] at h
    cases hc : compute c { s with locked := false } 0 with
    | error e => simp [hc] at h
    | ok s0 =>
      simp only [hc] at h
      obtain ⟨m, hm, h1, h2, h3⟩ := loop_stop_steps c dt f 0 n s0 s' h
      refine ⟨m, hm, by simp only [run, hl, hc]; exact h1, h2, ?_⟩
      intro k sm hk hkm hr
      simp only [run, hl, hc] at hr
      exact h3 k sm hk hkm hr

/-- the stopping step count is unique: two step counts that both satisfy the characterisation coincide — "the first
    instant at which it holds" is well defined -/
theorem stop_steps_unique (c : Cfg) (dt : Q) (n : Nat) (f : Rec → Bool) (s s1 s2 : St) (m1 m2 : Nat)
    (h1 : run c dt m1 none s = .ok s1) (h2 : run c dt m2 none s = .ok s2)
    (e1 : m1 < n → stopNow (some f) s1 = true) (e2 : m2 < n → stopNow (some f) s2 = true)
    (p1 : ∀ k sm, 0 < k → k < m1 → run c dt k none s = .ok sm → stopNow (some f) sm = false)
    (p2 : ∀ k sm, 0 < k → k < m2 → run c dt k none s = .ok sm → stopNow (some f) sm = false)
    (l1 : m1 ≤ n) (l2 : m2 ≤ n) (z1 : 0 < m1) (z2 : 0 < m2) : m1 = m2 := by
  rcases Nat.lt_trichotomy m1 m2 with hlt | heq | hgt
  · have := p2 m1 s1 z1 hlt h1
    rw [e1 (by omega)] at this; exact absurd this (by simp)
  · exact heq
  · have := p1 m2 s2 z2 hgt h2
    rw [e2 (by omega)] at this; exact absurd this (by simp)

/-! ### non-vacuity: a run of 6 steps with `time ≥ 1/2` stops after 2 steps (3 records) -/
def exCfg : Cfg :=
  { J0 := 1, links := [⟨2, 9/10, 1/2, true⟩], sl := false, tolW := 0, tolT := 0,
    motorTorque := fun w D => (1 - w / 100) * 2 * D, motorCurrent := fun _ _ => none,
    load := fun _ _ _ => 1/10, control := none }
example : (match exec exCfg [.run (1/4) 6 (some fun r => decide (r.time ≥ 1/2))] (St.init 0 0) with
    | .ok s => s.recs.length | .error _ => 0) = 3 := by decide +kernel

/-- the stopped run of 6 steps records what the unstopped run of 2 steps records (`run_stop_steps` with `m = 2`) -/
example : (match exec exCfg [.run (1/4) 6 (some fun r => decide (r.time ≥ 1/2))] (St.init 0 0) with
    | .ok s => s.recs.map (fun (r : Rec) => (r.time, r.speed, r.pos)) | .error _ => []) =
    (match exec exCfg [.run (1/4) 2 none] (St.init 0 0) with
    | .ok s => s.recs.map (fun (r : Rec) => (r.time, r.speed, r.pos)) | .error _ => []) := by decide +kernel

end Gearpy.C16
