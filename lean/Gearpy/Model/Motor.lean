import Gearpy.Model.Basic
/-!
# Gearpy.Model.Motor — DC motor laws (SI level), mirrors `dc_motor.py`
`compute_torque`, `compute_electric_current`, the constructor's checks and the `pwm` setter.

All quantities are SI magnitudes; that this is sound is the unit-congruence result of
`Gearpy.Properties.C06` (the code combines them only through the unit-aware operators) plus the
explicit raw-value sites listed in `Gearpy.Properties.C07`.
-/

namespace Gearpy

structure MotorP where
  w0 : Q                  -- no-load speed  (> 0)
  tmax : Q                -- maximum torque (> 0)
  cur : Option (Q × Q)    -- (i0 ≥ 0, imax > 0), i0 < imax; `none` unless *both* currents were given
  deriving Repr, Inhabited

/-- reduced maximum torque at duty cycle `D` outside the dead zone (`D > pmin` / `D < -pmin`) -/
def tmaxPos (m : MotorP) (i0 imax D : Q) : Q := m.tmax * ((D * imax - i0) / (imax - i0))
def tmaxNeg (m : MotorP) (i0 imax D : Q) : Q := m.tmax * ((D * imax + i0) / (imax - i0))

/-- `compute_torque` -/
def torque (m : MotorP) (w D : Q) : Q :=
  match m.cur with
  | none => (1 - w / m.w0) * m.tmax
  | some (i0, imax) =>
    let pmin := i0 / imax
    if qabs D ≤ pmin then 0
    else if pmin < D then (1 - w / (D * m.w0)) * tmaxPos m i0 imax D
    else (1 - w / (D * m.w0)) * tmaxNeg m i0 imax D

/-- `compute_electric_current`, given the driving torque attribute `T`.
    `none` = the motor has no current data (the solver then does not call it). -/
def current (m : MotorP) (D T : Q) : Option Q :=
  match m.cur with
  | none => none
  | some (i0, imax) =>
    let pmin := i0 / imax
    if qabs D ≤ pmin then
      if pmin = 0 then some 0 else some (D / pmin * i0)
    else if pmin < D then
      let tm := tmaxPos m i0 imax D
      if tm = 0 then some i0 else some ((D * imax - i0) * (T / tm) + i0)
    else
      let tm := tmaxNeg m i0 imax D
      if tm = 0 then some (-i0) else some ((D * imax + i0) * (T / tm) - i0)

/-- constructor checks on raw values (`dc_motor.py`), in the code's order; the comparison
    `i0 >= imax` is unit-aware in the code and is passed in as its boolean result -/
def motorCtor (w0 tmax : Q) (i0 imax : Option Q) (i0GeImax : Bool) : Except Err Unit :=
  if w0 ≤ 0 then .error .valueE
  else if tmax ≤ 0 then .error .valueE
  else if (match i0 with | some x => decide (x < 0) | none => false) then .error .valueE
  else if (match imax with | some x => decide (x ≤ 0) | none => false) then .error .valueE
  else if i0.isSome && imax.isSome && i0GeImax then .error .valueE
  else .ok ()

/-- the `pwm` setter: accepts exactly the values within [-1, 1] -/
def setPwm (p : Q) : Except Err Q := if -1 ≤ p ∧ p ≤ 1 then .ok p else .error .valueE

end Gearpy
