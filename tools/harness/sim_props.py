"""Property oracles on simulated histories + campaigns for C01 C02 C03 C11 C12 C13 C14 C15 C16 C17."""
import json
import math
import os
import tempfile
from fractions import Fraction as F

from common import BUILD
from harness import gen, sim
from harness.si_spec import SI

REL = 1e-9


def _tables():
    return json.load(open(os.path.join(BUILD, 'tables.json')))


def prep():
    gen.set_tables(_tables())


def near(a, b, scale, rel=REL):
    return abs(a - b) <= rel * max(scale, 1e-300)


def vscale(tr, var):
    return max([abs(x) for e in tr['els'] for x in e.get(var, []) if isinstance(x, float) and math.isfinite(x)] + [1e-12])


def n_inst(tr):
    """number of completely recorded instants that can be judged: a history that blows up numerically (an unstable
    time step on numpy scalars overflows to inf where Python floats raise OverflowError) is judged up to there"""
    n = min(len(tr['els'][0]['angular position']), len(tr['time']))
    if '_finite_n' not in tr:
        m = n
        for j in range(n):
            if any(math.isinf(x) or abs(x) > 1e150 for e in tr['els'] for v in sim.BASE6 for x in e.get(v, [])[j:j + 1]
                   if isinstance(x, float) and not math.isnan(x)):
                m = j
                break
        tr['_finite_n'] = m
    return min(n, tr['_finite_n'])


# ---------------------------------------------------------------------------------------------
# oracles: each returns a list of (message, detail) — empty when the property holds on the trace
# ---------------------------------------------------------------------------------------------

def declared_ratios(spec, tr):
    """gear ratio of every chain element to its driver as the property defines it, from the *last*
    relation declared with that element as slave: slave teeth / master teeth, wheel teeth / worm
    starts or its inverse, exactly 1 for a fixed joint"""
    names = [e.get('name', f'e{i + 1}') for i, e in enumerate(spec['elems'])]

    def teeth(idx):
        e = spec['elems'][idx - 1]
        return e.get('z', e.get('starts'))
    out = []
    for nm in tr['names'][1:]:
        idx = names.index(nm) + 1
        r = None
        for rel in sim.all_rels(spec):
            if rel[2] == idx:
                r = 1.0 if rel[0] == 'joint' else teeth(rel[2]) / teeth(rel[1])
        out.append(r)
    return out


def oracle_C01(spec, tr):
    out = []
    n = n_inst(tr)
    for i, (want, got) in enumerate(zip(declared_ratios(spec, tr), tr['ratios'])):
        if want is not None and not (got is not None and abs(got - want) <= 1e-12 * abs(want)):
            out.append((f'gear ratio of element {i + 1} to its driver is {got}, the declared relation gives {want}', {}))
            return out
    for var in ('angular position', 'angular speed', 'angular acceleration'):
        sc = vscale(tr, var)
        for j in range(n):
            for i in range(tr['n'] - 1):
                up, down = tr['els'][i][var][j], tr['els'][i + 1][var][j]
                r = tr['ratios'][i]
                if not near(up, r * down, max(sc, abs(r * down))):
                    out.append((f'{var} of element {i} is not ratio x element {i + 1} at instant {j}',
                                {'up': up, 'down': down, 'ratio': r}))
                    return out
    return out


def motor_law(m, w, D):
    """the documented characteristic (property C08 / C02)"""
    if m['i0'] is None or m['imax'] is None:
        return m['tmax'] * (1 - w / m['w0'])
    pmin = m['i0'] / m['imax']
    if abs(D) <= pmin:
        return 0.0
    if D > 0:
        tm = m['tmax'] * (D * m['imax'] - m['i0']) / (m['imax'] - m['i0'])
    else:
        tm = m['tmax'] * (D * m['imax'] + m['i0']) / (m['imax'] - m['i0'])
    return tm * (1 - w / (D * m['w0']))


def current_law(m, D, T):
    pmin = m['i0'] / m['imax']
    if abs(D) <= pmin:
        return D * m['imax']
    if D > 0:
        tm = m['tmax'] * (D * m['imax'] - m['i0']) / (m['imax'] - m['i0'])
        return (D * m['imax'] - m['i0']) * T / tm + m['i0'] if tm != 0 else m['i0']
    tm = m['tmax'] * (D * m['imax'] + m['i0']) / (m['imax'] - m['i0'])
    return (D * m['imax'] + m['i0']) * T / tm - m['i0'] if tm != 0 else -m['i0']


def deadzone_margin(m, D):
    if m['i0'] is None or m['imax'] is None:
        return 1.0
    return abs(abs(D) - m['i0'] / m['imax'])


def load_value(spec, p, v, t, coef=None):
    c = list(coef if coef is not None else spec['load']['coef']) + [0.0] * 5
    return c[0] + c[1] * p + c[2] * v + c[3] * t + c[4] * v * abs(v)


def oracle_C02(spec, tr):
    out = []
    n = n_inst(tr)
    m = tr['motor']
    E = tr['els']
    last = tr['n'] - 1
    sT = max(vscale(tr, 'driving torque'), vscale(tr, 'load torque'))
    calls = {c[3] - 1: c for c in tr['load_log']}      # instant index -> (pos, speed, time, -, function identity)
    in_force = sim.loads_at(spec, tr)
    for j in range(n):
        D = E[0]['pwm'][j]
        w = E[0]['angular speed'][j]
        if deadzone_margin(m, D) > 1e-9:
            want = motor_law(m, w, D)
            if not near(E[0]['driving torque'][j], want, max(sT, abs(want))):
                out.append((f'motor driving torque at instant {j} is not its characteristic at the recorded speed and duty cycle',
                            {'got': E[0]['driving torque'][j], 'want': want, 'w': w, 'D': D}))
                return out
        for i in range(1, tr['n']):
            want = E[i - 1]['driving torque'][j] * tr['effs'][i - 1] * tr['ratios'][i - 1]
            if not near(E[i]['driving torque'][j], want, max(sT, abs(want))):
                out.append((f'driving torque of element {i} at instant {j} is not driver x efficiency x ratio',
                            {'got': E[i]['driving torque'][j], 'want': want}))
                return out
            wantl = E[i]['load torque'][j] / tr['effs'][i - 1] / tr['ratios'][i - 1]
            if not near(E[i - 1]['load torque'][j], wantl, max(sT, abs(wantl))):
                out.append((f'load torque of element {i - 1} at instant {j} is not follower / efficiency / ratio',
                            {'got': E[i - 1]['load torque'][j], 'want': wantl}))
                return out
        for i in range(tr['n']):
            want = E[i]['driving torque'][j] - E[i]['load torque'][j]
            if not near(E[i]['torque'][j], want, sT):
                out.append((f'net torque of element {i} at instant {j} is not driving - load', {'got': E[i]['torque'][j], 'want': want}))
                return out
        c = calls.get(j)
        if c is None:
            out.append((f'the load function was not evaluated at instant {j}', {}))
            return out
        p, v, t = c[0], c[1], c[2]
        if len(c) > 4 and c[4] != in_force[j][1]:
            out.append((f'instant {j} was computed with a load function that the user had replaced before that run', {}))
            return out
        rp, rv, rt = E[last]['angular position'][j], E[last]['angular speed'][j], tr['time'][j]
        if not (near(p, rp, max(abs(rp), vscale(tr, 'angular position'))) and near(v, rv, vscale(tr, 'angular speed'))
                and near(t, rt, max(1e-9, abs(rt)))):
            out.append((f'load function evaluated at (pos, speed, time) = {(p, v, t)} but instant {j} records {(rp, rv, rt)}', {}))
            return out
        want = load_value(spec, rp, rv, rt, in_force[j][0])
        if not near(E[last]['load torque'][j], want, max(sT, abs(want))):
            out.append((f'load torque of the last element at instant {j} is not the load function at its recorded state',
                        {'got': E[last]['load torque'][j], 'want': want}))
            return out
    return out


def run_segments(spec, tr):
    """for every run op: (dt_si, first new instant index, end index, n planned, clean-predecessor flag)"""
    segs = []
    dirty = True      # True when the user changed anything (state, duty cycle, solver) since the last recorded instant
    dirty_state = True    # True when the user changed the kinematic state (initial conditions, reset)
    for op, rec in zip(spec['ops'], tr['ops']):
        if op['op'] == 'run':
            dt = float(F(op['dt'][0]) * SI['TimeInterval'][op['dt'][1]])
            T = float(F(op['T'][0]) * SI['TimeInterval'][op['T'][1]])
            segs.append({'dt': dt, 'T': T, 'a': rec['n_before'], 'b': rec.get('n_after', rec['n_before']),
                         'fresh': rec['n_before'] == 0, 'dirty': dirty, 'dirty_state': dirty_state, 'op': op,
                         'pwm_before': rec['pwm_before'], 'locked_before': rec['locked_before']})
            dirty = False
            dirty_state = False
        elif op['op'] in ('init', 'reset'):
            dirty = True
            dirty_state = True
        elif op['op'] in ('pwm', 'new'):
            dirty = True
    return segs


def jeq(tr):
    J = tr['inertias'][0]
    for r, Ji in zip(tr['ratios'], tr['inertias'][1:]):
        J = J * r + Ji
    return J


def oracle_C03(spec, tr):
    out = []
    n = n_inst(tr)
    last = tr['els'][-1]
    J = jeq(tr)
    locked = tr['locked'] if len(tr['locked']) >= n else None
    sa = vscale(tr, 'angular acceleration')
    for j in range(n):
        is_locked = locked[j] if locked is not None else (tr['sl'] and all(e['angular speed'][j] == 0 and e['angular acceleration'][j] == 0 for e in tr['els']))
        if not is_locked:
            want = last['torque'][j] / J
            if not near(last['angular acceleration'][j], want, max(sa, abs(want))):
                out.append((f'acceleration of the last element at instant {j} is not net torque / equivalent inertia',
                            {'got': last['angular acceleration'][j], 'want': want, 'J': J}))
                return out
    sp, sv = vscale(tr, 'angular position'), vscale(tr, 'angular speed')
    own = sim.owner_at(spec, tr)
    if locked is not None and n > 0 and locked[0] and own and own[0] is not None:
        # held at the very first instant (of the history that is left): only for a null duty cycle or an initial
        # motion against it
        oi = own[0]
        D = tr['ops'][oi]['pwm_before']
        ini = spec['init']
        for op in spec['ops'][:oi]:
            if op['op'] == 'init':
                ini = op
            elif op['op'] == 'reset':
                ini = None
        if ini is not None and D != 0:
            w_last = float(F(ini['speed'][0]) * SI['AngularSpeed'][ini['speed'][1]])
            wm = w_last
            for r in reversed(tr['ratios']):
                wm *= r
            if wm == 0 or (abs(wm) > 1e-9 * max(sv, abs(wm)) and not D * wm < 0):
                out.append((f'the powertrain is held at the initial instant although the duty cycle in force ({D}) is not null and the '
                            f'initial motor speed ({wm}) does not oppose it', {}))
                return out
    for sg in run_segments(spec, tr):
        a, b, dt = sg['a'], min(sg['b'], n), sg['dt']
        for j in range(max(a, 1), b):
            if j == a and sg['dirty_state']:
                continue
            v = last['angular speed'][j - 1] + last['angular acceleration'][j - 1] * dt
            wantp = last['angular position'][j - 1] + v * dt
            if not near(last['angular position'][j], wantp, max(sp, abs(wantp))):
                out.append((f'position at instant {j} is not previous + advanced speed x dt', {'got': last['angular position'][j], 'want': wantp, 'dt': dt}))
                return out
            got = last['angular speed'][j]
            is_locked = locked[j] if locked is not None else (tr['sl'] and got == 0)
            if locked is not None and locked[j] and not locked[j - 1]:
                # "clamped to zero only if self-locking engages at that instant": the hold begins only when the duty
                # cycle in force is null or the (advanced, not yet clamped) motor speed opposes it
                D = sg['pwm_before'] if j == a else tr['els'][0]['pwm'][j - 1]
                wm = v
                for r in reversed(tr['ratios']):
                    wm *= r
                if D != 0 and abs(wm) > 1e-9 * max(sv, abs(wm)) and not (D * wm < 0):
                    out.append((f'the powertrain is held from instant {j} on although the duty cycle in force ({D}) is not null and the '
                                f'motor speed ({wm}) does not oppose it', {}))
                    return out
                if D != 0 and wm == 0:
                    out.append((f'the powertrain is held from instant {j} on although the duty cycle in force ({D}) is not null and the motor is at rest', {}))
                    return out
            wantv = 0.0 if is_locked else v
            if not near(got, wantv, max(sv, abs(v))):
                out.append((f'speed at instant {j} is not previous + previous acceleration x dt', {'got': got, 'want': wantv, 'dt': dt}))
                return out
    return out


def spec_self_locking(spec, tr):
    """does the assembled chain contain a worm mating with f > cos(alpha) tan(beta) (decided from the
    declared data, not from the powertrain's own flag); None when within rounding of the threshold"""
    names = [e.get('name', f'e{i + 1}') for i, e in enumerate(spec['elems'])]
    chain = set(tr['names'][1:])
    res = False
    for rel in sim.all_rels(spec):
        if rel[0] != 'worm':
            continue
        a, b = spec['elems'][rel[1] - 1], spec['elems'][rel[2] - 1]
        worm = a if a['type'] == 'wormgear' else b
        if worm.get('name') not in chain:
            continue
        alpha = float(F(worm['pa'][0]) * SI['Angle'][worm['pa'][1]])
        beta = float(F(worm['helix'][0]) * SI['Angle'][worm['helix'][1]])
        thr = math.cos(alpha) * math.tan(beta)
        if abs(rel[3] - thr) <= 1e-9:
            return None
        if rel[3] > thr:
            res = True
    return res


def oracle_C13(spec, tr):
    out = []
    n = n_inst(tr)
    E = tr['els']
    locked = tr['locked'] if len(tr['locked']) >= n else None
    sl = spec_self_locking(spec, tr)
    if sl is None:
        return out
    if not sl:
        if locked is not None and any(locked[:n]):
            out.append(('a powertrain without self-locking mating was clamped', {'instant': locked.index(True)}))
        return out
    sv = vscale(tr, 'angular speed')
    tol = 1e-9 * sv
    # duty cycle in force at instant j: the one recorded at j-1, or the attribute before the run
    before = {}
    own0 = sim.owner_at(spec, tr)
    for sg in run_segments(spec, tr):
        if sg['a'] < n and own0[sg['a']] is not None and spec['ops'][own0[sg['a']]] is sg['op']:
            before[sg['a']] = sg['pwm_before']
    for j in range(n):
        D = before[j] if j in before else (E[0]['pwm'][j - 1] if j > 0 else 1.0)
        w = E[0]['angular speed'][j]
        if (D == 0 and w != 0) or (D > 0 and w < -tol) or (D < 0 and w > tol):
            out.append((f'self-locking powertrain: motor speed {w} at instant {j} against duty cycle in force {D}', {}))
            return out
        if locked is not None and locked[j]:
            if any(e['angular speed'][j] != 0 or e['angular acceleration'][j] != 0 for e in E):
                out.append((f'held at instant {j} but some speed or acceleration is not zero', {}))
                return out
            if j > 0 and locked[j - 1] and not any(sg['a'] == j and sg['dirty_state'] for sg in run_segments(spec, tr)):
                for e in E:
                    if not near(e['angular position'][j], e['angular position'][j - 1], max(abs(e['angular position'][j]), 1e-9)):
                        out.append((f'position moved between held instants {j - 1} and {j}', {}))
                        return out
        if locked is not None and j > 0 and locked[j - 1] and not locked[j]:
            T0, D0 = E[0]['torque'][j - 1], D
            dirty_here = any(sg['a'] == j and (sg['dirty_state'] or sg['op'] is not None and any(o['op'] == 'new' for o in spec['ops'])) for sg in run_segments(spec, tr))
            if not ((T0 > 0 and D0 > 0) or (T0 < 0 and D0 < 0)) and not dirty_here:
                out.append((f'released at instant {j} although the motor net torque {T0} does not point in the commanded direction {D0}', {}))
                return out
            # ... the motor's net torque while held being its characteristic at standstill minus its load torque,
            # recomputed here from the documented law (not read from the recorded torque)
            m = tr['motor']
            # (only where the duty cycle in force is the one the held torque was recorded under: after the user has set another
            # duty cycle by hand between two runs, "the motor's net torque" of the property is the recorded one, judged above)
            if not dirty_here and deadzone_margin(m, D0) > 1e-9 and E[0]['pwm'][j - 1] == D0:
                # the load torque on the motor at the held instant, recomputed from the user's load function at the recorded
                # state and time and carried upstream through the matings
                last_i = tr['n'] - 1
                lt = load_value(spec, E[last_i]['angular position'][j - 1], E[last_i]['angular speed'][j - 1], tr['time'][j - 1],
                                sim.loads_at(spec, tr)[j - 1][0])
                for eta_, r_ in zip(reversed(tr['effs']), reversed(tr['ratios'])):
                    lt = lt / eta_ / r_
                Ttrue = motor_law(m, 0.0, D0) - lt
                sT = max(abs(motor_law(m, 0.0, D0)), abs(lt), 1e-12)
                if abs(Ttrue) > 1e-9 * sT and not ((Ttrue > 0 and D0 > 0) or (Ttrue < 0 and D0 < 0)):
                    out.append((f'released at instant {j} although the motor net torque at standstill ({Ttrue}) does not point in the '
                                f'commanded direction ({D0})', {}))
                    return out
    return out


def expected_steps(sg):
    return int(math.floor(sg['T'] / sg['dt'] + 1e-9))


def oracle_C11(spec, tr):
    out = []
    t = tr['time']
    for sg in run_segments(spec, tr):
        a, b, dt, T = sg['a'], sg['b'], sg['dt'], sg['T']
        q = T / dt
        if abs(q - round(q)) > 1e-6:
            continue     # the property quantifies over T = n*dt
        nsteps = round(q)
        start = 0.0 if sg['fresh'] else t[a - 1]
        appended = t[a:b]
        if sg['fresh']:
            if not appended or appended[0] != 0.0:
                out.append(('a fresh run does not start at time 0', {'first': appended[:1]}))
                return out
            appended = appended[1:]
        stopped = sg['op'].get('stop') is not None
        if (len(appended) != nsteps and not stopped) or len(appended) > nsteps:
            out.append((f'run of T/dt = {nsteps} steps appended {len(appended)} instants', {'dt': dt, 'T': T}))
            return out
        for i, x in enumerate(appended):
            want = start + (i + 1) * dt
            if not near(x, want, max(abs(want), dt), 1e-10):
                out.append((f'instant {i + 1} of the run is at {x}, expected {want}', {'dt': dt}))
                return out
        if appended and appended[-1] > start + T + 1e-9 * max(T, 1e-9) + 8 * math.ulp(abs(start + T)):      # (+ the rounding of the sum itself)
            out.append(('the axis overruns the requested simulation time', {'last': appended[-1], 'end': start + T}))
            return out
    return out


def oracle_C17(spec, tr, b=None):
    out = []
    n = len(tr['time'])
    if tr['error'] is not None:
        return out      # a run that raised mid-instant is outside the property's operations
    for ei, keys in enumerate(tr['keys']):
        for var, ln in keys.items():
            if ln != n:
                out.append((f"element {ei} ({tr['types'][ei]}) advertises {var!r} with {ln} samples for {n} instants", {}))
                return out
    if tr['bad_kind']:
        out.append((f'a sample has the wrong kind: {tr["bad_kind"][0]}', {}))
        return out
    if n:
        for ei, (e, a) in enumerate(zip(tr['els'], tr['attrs'])):
            for var, val in a.items():
                lastv = e[var][-1] if e.get(var) else None
                if isinstance(val, str) or val is None or lastv is None or not (val == lastv or near(val, lastv, abs(lastv), 1e-12)):
                    out.append((f'last sample of {var!r} of element {ei} ({lastv}) is not the current attribute ({val})', {}))
                    return out
    if b is not None and n:
        try:
            with tempfile.TemporaryDirectory() as d:
                b.pt.export_time_variables(folder_path=d)
        except Exception as ex:  # noqa: BLE001
            out.append((f'export_time_variables failed: {type(ex).__name__}: {str(ex)[:120]}', {}))
            return out
        try:
            b.pt.snapshot(target_time=b.pt.time[len(b.pt.time) // 2], print_data=False)
        except Exception as ex:  # noqa: BLE001
            out.append((f'snapshot failed: {type(ex).__name__}: {str(ex)[:120]}', {}))
    return out


def sensor_series(spec, tr, st):
    if st['sensor'] == 'enc':
        return tr['els'][st['idx'] % tr['n']]['angular position'], float(F(st['thr'][0]) * SI['AngularPosition'][st['thr'][1]])
    if st['sensor'] == 'tac':
        return tr['els'][st['idx'] % tr['n']]['angular speed'], float(F(st['thr'][0]) * SI['AngularSpeed'][st['thr'][1]])
    return tr['els'][0]['electric current'], float(F(st['thr'][0]) * SI['Current'][st['thr'][1]])


CMP = {'gt': lambda a, b: a > b, 'ge': lambda a, b: a >= b, 'eq': lambda a, b: a == b,
       'lt': lambda a, b: a < b, 'le': lambda a, b: a <= b}


def oracle_C16(spec, tr):
    """returns (violations, near_threshold flag)"""
    out = []
    n = n_inst(tr)
    nearflag = False
    for sg in run_segments(spec, tr):
        st = sg['op'].get('stop')
        if st is None:
            continue
        series, thr = sensor_series(spec, tr, st)
        a, b = sg['a'], min(sg['b'], n)
        first = a + 1 if sg['fresh'] else a
        planned = expected_steps(sg)
        tested = list(range(first, b))
        sc = max([abs(x) for x in series] + [abs(thr), 1e-12])
        if st['op'] == 'eq' or st.get('exact'):
            # exact hits are decided exactly when the threshold carries the reading's own unit
            nearflag = nearflag or any(0 < abs(series[j] - thr) <= 1e-9 * sc for j in tested)
        else:
            nearflag = nearflag or any(abs(series[j] - thr) <= 1e-9 * sc for j in tested)
        if nearflag:
            continue
        ended_early = len(tested) < planned
        for k, j in enumerate(tested):
            holds = CMP[st['op']](series[j], thr)
            is_last = (k == len(tested) - 1)
            if holds and not is_last:
                out.append((f'stop condition already true at instant {j} but the run went on to instant {b - 1}', {'value': series[j], 'thr': thr}))
                return out, nearflag
            if is_last and ended_early and not holds:
                out.append((f'run ended early at instant {j} although the stop condition is false there', {'value': series[j], 'thr': thr}))
                return out, nearflag
        if not tested and planned > 0 and tr['error'] is None:
            out.append(('run with a stop condition recorded no instant', {}))
    return out, nearflag


ORACLES = {'C01': oracle_C01, 'C02': oracle_C02, 'C03': oracle_C03, 'C11': oracle_C11, 'C13': oracle_C13}


# ---------------------------------------------------------------------------------------------
# campaigns
# ---------------------------------------------------------------------------------------------

def dynamics_spec(rng, ctx, *, sl_bias=0.35, schedule=True, kind=None, same_solver=None, redeclare=None):
    """a random model with a short schedule (whole-history correspondence: <= 16 steps in total)"""
    ru = rng.random() < 0.7
    spec = gen.gen_spec(rng, random_units=ru, sl_bias=sl_bias, reuse=0.25)
    dt = 2.0 ** -rng.randint(3, 6)
    total = rng.randint(5, 16)
    if spec['load']['coef'][4] != 0:
        # a quadratic load doubles the size of the exact rationals at every step: keep such histories short
        total = rng.randint(4, 6)
    unit = rng.choice(['sec', 'ms']) if ru else 'sec'
    if rng.random() < 0.6:
        spec['rules'] = gen.const_rules(rng, total * dt, random_units=False)
        if unit != 'sec':
            for r in spec['rules']:
                r['start'] = [r['start'][0] * 1000, 'ms'] if rng.random() < 0.5 else r['start']
    ops = []
    kind = kind or (rng.choice(['single', 'split', 'split', 'reset', 'stop']) if schedule else 'single')
    if kind == 'single':
        op, _, _ = gen.run_op(rng, dt_si=dt, steps=(total, total), unit=unit)
        ops = [op]
    elif kind == 'split':
        n1 = rng.randint(2, total - 2)
        o1, _, _ = gen.run_op(rng, dt_si=dt, steps=(n1, n1), unit=unit)
        # the continuation may use another time step
        o2, _, _ = gen.run_op(rng, dt_si=dt * rng.choice([1, 1, 0.5, 2]), steps=(total - n1, total - n1), unit=unit)
        ops = [o1, o2]
    elif kind == 'reset':
        n1 = rng.randint(2, total // 2)
        o1, _, _ = gen.run_op(rng, dt_si=dt, steps=(n1, n1), unit=unit)
        o2, _, _ = gen.run_op(rng, dt_si=dt, steps=(total - n1, total - n1), unit=unit)
        ops = [o1, {'op': 'reset'}, {'op': 'init', 'pos': spec['init']['pos'], 'speed': spec['init']['speed']}]
        if rng.random() < 0.4:
            # the rerun starts from other initial conditions (often at rest)
            ops[2] = {'op': 'init', 'pos': gen.in_unit(rng, 'AngularPosition', gen.dy(rng, -2, 2), ru),
                      'speed': gen.in_unit(rng, 'AngularSpeed', 0.0 if rng.random() < 0.6 else gen.dy(rng, -3, 3), ru)}
            gen.angle_init(rng, ops[2], p=0.3)
        if (rng.random() < 0.5) if same_solver is None else (not same_solver):
            ops.append({'op': 'new'})
        ops.append(o2)
    else:
        op, _, _ = gen.run_op(rng, dt_si=dt, steps=(total, total), unit=unit)
        op['stop'] = random_stop(rng, spec)
        ops = [op]
    spec['ops'] = ops
    if rng.random() < 0.08 and spec['motor']['i0'] is not None and spec['motor']['i0'][0] > 0:
        # coasting: no load at all and the supply cut after a while (dead zone: the motor torque is exactly zero),
        # so the net torque and the acceleration become exactly null while the chain keeps turning
        spec['load']['coef'] = [0.0, 0.0, 0.0, 0.0, 0.0]
        k = rng.randint(1, max(1, total // 2))
        spec['rules'] = [{'type': 'const', 'start': [0.0, 'sec'], 'dur': [k * dt, 'sec'], 'value': 1.0},
                         {'type': 'const', 'start': [(k + 1) * dt, 'sec'], 'dur': [1e6, 'sec'], 'value': 0}]
    if kind == 'split' and spec.get('rules') is None and rng.random() < 0.35:
        # the user assigns another duty cycle by hand between a run and its continuation (no controller)
        ops.insert(1, {'op': 'pwm', 'v': rng.choice([0, 0.0, 1, -1, gen.dy(rng, -1, 1, 3)])})
    if kind in ('split', 'reset') and rng.random() < 0.2:
        # the user replaces the load function between two runs on the same powertrain and solver
        c0 = spec['load']['coef']
        newc = [c0[0] * rng.choice([0.5, 2, -1]) + rng.choice([0, 0.25]), c0[1], c0[2] * rng.choice([1, 0, 2]), c0[3], 0.0 if len(c0) < 5 else c0[4]]
        at = len(ops) - 1
        ops.insert(at, {'op': 'load', 'coef': newc})
    if redeclare is None:
        redeclare = rng.random() < 0.15
    if redeclare:
        inject_redeclare(rng, spec, ops)
    if rng.random() < 0.25:
        inject_reunit(rng, spec, ops)
    return spec


REUNIT = {'motor': [('inertia_moment', 'InertiaMoment'), ('no_load_speed', 'AngularSpeed'), ('maximum_torque', 'Torque'),
                    ('no_load_electric_current', 'Current'), ('maximum_electric_current', 'Current')],
          'fly': [('inertia_moment', 'InertiaMoment')],
          'spur': [('inertia_moment', 'InertiaMoment'), ('module', 'Length'), ('face_width', 'Length'), ('elastic_modulus', 'Stress')],
          'helical': [('inertia_moment', 'InertiaMoment'), ('module', 'Length'), ('face_width', 'Length'), ('elastic_modulus', 'Stress'),
                      ('helix_angle', 'Angle')],
          'wormgear': [('inertia_moment', 'InertiaMoment'), ('reference_diameter', 'Length'), ('helix_angle', 'Angle')],
          'wormwheel': [('inertia_moment', 'InertiaMoment'), ('module', 'Length'), ('face_width', 'Length'), ('helix_angle', 'Angle')]}


def inject_reunit(rng, spec, ops, k=None):
    """1-3 parameter objects of live components are converted in place to another unit, before a run of the
    schedule (after the Powertrain and the Solver exist): nothing physical changes"""
    runs = [i for i, op in enumerate(ops) if op['op'] == 'run']
    if not runs:
        return
    at = runs[-1] if rng.random() < 0.6 else rng.choice(runs)      # mostly between two runs: caches are warm by then
    # a later re-declaration compares modules / helix angles of the pair for equality: a there-and-back conversion
    # moves them by an ulp, so these are left alone in schedules that re-declare a relation
    later_decl = any(op['op'] == 'redeclare' for op in ops)
    for _ in range(k or rng.randint(1, 3)):
        oi = 0 if rng.random() < 0.4 else rng.randrange(len(spec['elems']) + 1)
        ty = 'motor' if oi == 0 else spec['elems'][oi - 1]['type']
        cands = [(a, kd) for a, kd in REUNIT[ty] if not (later_decl and a in ('module', 'helix_angle'))]
        attr, kind = rng.choice(cands)
        ops.insert(at, {'op': 'reunit', 'obj': oi, 'attr': attr, 'unit': rng.choice(list(SI[kind].keys()))})


def redeclarable(spec):
    """indices of the gear matings that can be declared again without changing anybody's role or mate: neither gear
    takes part in a later mating (an idler's role and mate are those of the mating declared last)"""
    out = []
    for k, r in enumerate(spec['rels']):
        if r[0] != 'gear':
            continue
        later = [q for q in spec['rels'][k + 1:] if q[0] in ('gear', 'worm') and (set(q[1:3]) & set(r[1:3]))]
        if not later:
            out.append(k)
    return out


def inject_redeclare(rng, spec, ops):
    """the relation of one gear pair is declared again after the Powertrain and the Solver exist (an efficiency
    sweep, or a pair first joined rigidly and then mated): same elements, new efficiency / ratio / roles.
    Changes the spec's initial declaration and inserts the `redeclare` op into `ops`; returns True if done."""
    gears = redeclarable(spec)
    if not gears:
        return False
    k = rng.choice(gears)
    final = list(spec['rels'][k])
    no_force = all(spec['elems'][i - 1].get('module') is None for i in final[1:3] if i >= 1)
    if rng.random() < 0.6 and no_force:
        # (a gear with a module but no mating role cannot be simulated: its tooth force is computable but undefined)
        spec['rels'][k] = ['joint', final[1], final[2]]
    else:
        spec['rels'][k] = final[:3] + [rng.choice([1.0, gen.dy(rng, 0.3, 1.0, 4)])]
    at = 0
    for i, op in enumerate(ops):
        if op['op'] in ('init', 'new') and rng.random() < 0.7:
            at = i + 1
    ops.insert(at, {'op': 'redeclare', 'rel': final})
    return True


def random_stop(rng, spec, thr_si=None):
    n_el = len(spec['elems']) + 1      # every element of these chains is in the powertrain
    s = rng.choice(['enc', 'tac', 'amp'] if spec['motor']['i0'] is not None else ['enc', 'tac'])
    op = rng.choice(['gt', 'ge', 'lt', 'le', 'eq'] if rng.random() < 0.2 else ['gt', 'ge', 'lt', 'le'])
    idx = rng.randrange(n_el)
    if s == 'enc':
        v = thr_si if thr_si is not None else rng.uniform(-3, 6)
        if v >= 0 and rng.random() < 0.3:
            # the threshold is an Angle (the non-negative sub-kind of AngularPosition), in any angle unit
            return {'sensor': 'enc', 'idx': idx, 'op': op, 'kind': 'Angle', 'thr': gen.in_unit(rng, 'Angle', v, True)}
        return {'sensor': 'enc', 'idx': idx, 'op': op, 'thr': gen.in_unit(rng, 'AngularPosition', v, True)}
    if s == 'tac':
        v = thr_si if thr_si is not None else rng.uniform(-5, 20)
        return {'sensor': 'tac', 'idx': idx, 'op': op, 'thr': gen.in_unit(rng, 'AngularSpeed', v, True)}
    v = thr_si if thr_si is not None else rng.uniform(0.05, 3)
    return {'sensor': 'amp', 'idx': 0, 'op': op, 'thr': gen.in_unit(rng, 'Current', v, True)}


def _dyadic(fr):
    fr = F(fr)
    return fr.denominator & (fr.denominator - 1) == 0 and fr.denominator <= 2 ** 40


def timer_hit_exact(t_si, unit, rl):
    """an instant that hits a timer edge exactly, all operands in the same unit: floats decide like exact arithmetic only
    if the instant, the start and the duration are exactly representable in that unit (0.0625 s is, 1/960 min is not:
    `t - start <= duration` then depends on the rounding of the subtraction)"""
    try:
        return all(_dyadic(x) for x in (F(t_si) / SI['Time'][unit], F(rl['start'][0]), F(rl['dur'][0])))
    except (KeyError, ZeroDivisionError, ValueError):
        return False


def near_threshold(spec, tr):
    """a discrete decision of this history lies within rounding distance of its threshold, so exact
    and floating-point arithmetic may legitimately decide differently"""
    n = n_inst(tr)
    E = tr['els']
    sv = vscale(tr, 'angular speed')
    sT = vscale(tr, 'torque')
    if tr['sl']:
        for j in range(n):
            w = E[0]['angular speed'][j]
            if 0 < abs(w) <= 1e-9 * sv:
                return 'motor speed within rounding of zero on a self-locking chain'
            T0 = E[0]['torque'][j]
            if 0 < abs(T0) <= 1e-9 * sT:
                return 'motor torque within rounding of zero on a self-locking chain'
    m = tr['motor']
    if m['i0'] is not None:
        for j in range(n):
            if 0 < deadzone_margin(m, E[0]['pwm'][j]) <= 1e-12:
                return 'duty cycle within rounding of the dead-zone boundary'
    for rl in spec.get('rules') or []:
        if rl['type'] == 'const':
            s = float(F(rl['start'][0]) * SI['Time'][rl['start'][1]])
            d = float(F(rl['dur'][0]) * SI['TimeInterval'][rl['dur'][1]])
            own = sim.owner_at(spec, tr)
            cb = (spec['load'].get('inplace') or [None, None, None])[2]
            for j, (t, tu) in enumerate(zip(tr['time'], tr['time_units'])):
                # every unit the instant has been expressed in: the one it was created in (the time step's), the one a
                # load callback may have converted it to, the one it carries now
                units = {tu, rl['start'][1], rl['dur'][1], sim.late_unit(rl, 'start'), sim.late_unit(rl, 'dur')}
                if j < len(own) and own[j] is not None:
                    units.add(spec['ops'][own[j]]['dt'][1])
                if cb is not None:
                    units.add(cb)
                for edge, eu in ((s, rl['start'][1]), (s + d, rl['dur'][1])):
                    # in equal units an exact hit is decided identically by floats and rationals;
                    # across units the code converts first, so an exact hit is within rounding too
                    mixed = len(units) > 1 or not timer_hit_exact(t, tu, rl)
                    if (0 < abs(t - edge) or mixed) and abs(t - edge) <= 1e-9 * max(1.0, abs(edge)):
                        return 'instant within rounding of a timer window edge'
    _, nf = oracle_C16(spec, tr)
    if nf:
        return 'stop-condition reading within rounding of its threshold'
    # an exact hit of a threshold given in the reading's own unit is decided exactly by the code, but the
    # exact-arithmetic model's reading differs from the float reading by rounding
    n = n_inst(tr)
    for sg in run_segments(spec, tr):
        st = sg['op'].get('stop')
        if st is not None and st.get('exact'):
            series, thr = sensor_series(spec, tr, st)
            if any(series[j] == thr for j in range(sg['a'], min(sg['b'], n))):
                return 'stop-condition reading exactly on its threshold'
    return None


def eval_dynamics(ctx, specs, props, with_model=True, c17=False):
    """simulate every spec, evaluate the oracles of `props`, compare whole histories with the model"""
    traces = []
    lines = []
    for spec in specs:
        tr, b = sim.simulate(spec)
        traces.append((spec, tr, b))
        if tr['build_error'] is None and with_model and ctx.driver.available and not spec.get('long'):
            if sim.uniform_cfg(spec):
                # declarations -> assembly -> simulation all inside the model
                lines.append(sim.pipe_line(spec, tr, b))
            else:
                # the controller / load function changes between runs: the model follows in lock-step
                tr['_lockstep'] = sim.lockstep_requests(spec, tr)
                lines.extend(ln for _, ln in tr['_lockstep'])
    answers = ctx.driver.ask(lines) if lines else []
    k = 0
    for spec, tr, b in traces:
        case = {'t': 'sim', 'spec': spec}
        if tr['build_error'] is not None:
            ctx.count('build rejected: ' + tr['build_error'])
            ctx.violation(case, {'why': f"a generated valid powertrain was rejected: {tr['build_error']}: {tr.get('build_msg')}"})
            ctx.case_done(case, nontrivial=False)
            continue
        ctx.count(f"chain length {tr['n']}")
        for ty in set(tr['types']):
            ctx.count(f'element {ty}')
        ctx.count('self-locking' if tr['sl'] else 'not self-locking')
        ctx.count('locked instants', sum(1 for x in tr['locked'] if x))
        ctx.count('schedule ' + '+'.join(o['op'] for o in spec['ops']))
        if tr['error'] is not None:
            ctx.count('run error ' + tr['error'][1])
        ctx.case_done(case, nontrivial=n_inst(tr) >= 3)
        for pid in props:
            if pid == 'C16':
                viol, _ = oracle_C16(spec, tr)
            elif pid == 'C17':
                viol = oracle_C17(spec, tr, b if c17 else None)
            else:
                viol = ORACLES[pid](spec, tr)
            for msg, det in viol[:1]:
                ctx.violation(case, {'why': msg, **det, 'property': pid})
        if with_model and ctx.driver.available and '_lockstep' in tr:
            reqs = tr.pop('_lockstep')
            diff = None
            for (j, _), ans in zip(reqs, answers[k:k + len(reqs)]):
                diff = diff or sim.compare_step(tr, j, ans)
            k += len(reqs)
            ctx.count('model in lock-step (configuration changes between runs)')
            if diff is not None:
                why = near_threshold(spec, tr)
                if why is not None:
                    ctx.count('history excluded: ' + why)
                else:
                    ctx.mismatch(case, diff, 'lock-step')
        elif with_model and ctx.driver.available:
            cm, st, recs = sim.parse_pipe(answers[k], spec, tr)
            tr['gears_in_model'] = True
            k += 1
            diff = cm or sim.compare_hist(tr, st, recs)
            if diff is not None:
                why = near_threshold(spec, tr)
                if why is not None:
                    ctx.count('history excluded: ' + why)
                else:
                    ctx.mismatch(case, diff, answers[k - 1][:300])


def run_dynamics(ctx, props, sl_bias=0.35, quick=120, thorough=8000):
    prep()
    n = ctx.budget(quick, thorough) * ctx.boost
    batch = 200
    done = 0
    while done < n:
        specs = [dynamics_spec(ctx.rng, ctx, sl_bias=sl_bias) for _ in range(min(batch, n - done))]
        eval_dynamics(ctx, specs, props)
        done += len(specs)
    # relations re-declared (joint -> mating, or another efficiency) after the Powertrain and the Solver were built
    specs = [dynamics_spec(ctx.rng, ctx, sl_bias=sl_bias, redeclare=True) for _ in range(ctx.budget(20, 400))]
    eval_dynamics(ctx, specs, props)
    # an uncontrolled motor (its duty cycle is never assigned again) whose parameter objects are re-expressed in place
    # between a run and its continuation
    specs = []
    for _ in range(ctx.budget(12, 200)):
        spec = dynamics_spec(ctx.rng, ctx, sl_bias=sl_bias, kind='split', redeclare=False)
        spec['rules'] = None
        spec['ops'] = [op for op in spec['ops'] if op['op'] == 'run']
        for attr, kind in ctx.rng.sample(REUNIT['motor'][1:], 2):
            spec['ops'].insert(1, {'op': 'reunit', 'obj': 0, 'attr': attr, 'unit': ctx.rng.choice(list(SI[kind].keys()))})
        specs.append(spec)
    eval_dynamics(ctx, specs, props)
    # long runs (thorough: many, quick: a few): oracles on every instant, model in lock-step on sampled instants
    nlong = ctx.budget(6, 400) * ctx.boost
    for _ in range(nlong):
        spec = gen.gen_spec(ctx.rng, random_units=ctx.rng.random() < 0.7, sl_bias=sl_bias, reuse=0.2)
        dt = 2.0 ** -ctx.rng.randint(4, 8)
        if ctx.rng.random() < 0.5:
            spec['rules'] = gen.const_rules(ctx.rng, 4.0, random_units=False)
        op, _, _ = gen.run_op(ctx.rng, dt_si=dt, steps=(60, 300), unit='sec')
        spec['ops'] = [op]
        if ctx.rng.random() < 0.4:
            op2, _, _ = gen.run_op(ctx.rng, dt_si=dt, steps=(20, 80), unit=ctx.rng.choice(['sec', 'ms']))
            spec['ops'].append(op2)
        tr, b = sim.simulate(spec)
        case = {'t': 'sim', 'spec': spec}
        if tr['build_error'] is not None:
            ctx.violation(case, {'why': f"a generated valid powertrain was rejected: {tr.get('build_msg')}"})
            continue
        ctx.case_done(case, nontrivial=True)
        ctx.count('long runs')
        ctx.count('locked instants', sum(1 for x in tr['locked'] if x))
        for pid in props:
            viol = oracle_C16(spec, tr)[0] if pid == 'C16' else oracle_C17(spec, tr, None) if pid == 'C17' else ORACLES[pid](spec, tr)
            for msg, det in viol[:1]:
                ctx.violation(case, {'why': msg, **det, 'property': pid})
        if ctx.driver.available:
            reqs = sim.lockstep_requests(spec, tr, max_steps=30)
            for (j, _), ans in zip(reqs, ctx.driver.ask([ln for _, ln in reqs])):
                d = sim.compare_step(tr, j, ans)
                if d is not None:
                    if near_threshold(spec, tr):
                        ctx.count('history excluded: decision within rounding of its threshold')
                    else:
                        ctx.mismatch(case, d, ans[:200])
                    break
    ctx.rule = ('random chains of 2-12 elements (motor, flywheels, spur/helical/worm matings in both orientations), '
                'every input in a random unit, affine + quadratic loads, ConstantPWM controllers, schedules '
                'run / run+continue / run+reset+rerun (same or new solver) / run with stop condition, <= 16 steps, plus runs of 60-380 '
                'steps checked by the oracle at every instant and by the model in lock-step; '
                'the whole history is compared with the Lean model and the property oracle is evaluated on it; '
                'non-trivial = at least 3 recorded instants')


def replay_dynamics(ctx, case, props):
    prep()
    eval_dynamics(ctx, [case['spec']], props)


def run_C01(ctx):
    run_dynamics(ctx, ['C01'])


def run_C02(ctx):
    run_dynamics(ctx, ['C02'])


def run_C03(ctx):
    run_dynamics(ctx, ['C03'])
    eval_unit_step(ctx, ctx.budget(150, 5000))
    ctx.rule += '; plus single calls of Solver._time_integration on quantities in random units against the unit-level model'


def run_C13(ctx):
    run_dynamics(ctx, ['C13'], sl_bias=0.8)


def replay_C01(ctx, case):
    replay_dynamics(ctx, case, ['C01'])


def replay_C02(ctx, case):
    replay_dynamics(ctx, case, ['C02'])


def replay_C03(ctx, case):
    replay_dynamics(ctx, case, ['C03'])


def replay_C13(ctx, case):
    replay_dynamics(ctx, case, ['C13'])


# ---------------------------------------------------------------------------------------------
# C11: the time axis (sweep of decimal time steps; physics patched out inside this process)
# ---------------------------------------------------------------------------------------------

def axis_only_solver(b):
    """a Solver on `b.pt` whose per-instant physics is replaced by no-ops *on this object*, so that
    `run` only builds the time axis (nothing changes in /repo). Returns (solver, patched?)."""
    from gearpy.solver import Solver
    s = Solver(b.pt)
    names = ('_compute_powertrain_variables', '_time_integration', '_compute_powertrain_inertia')
    if not all(hasattr(s, name) for name in names):
        return s, False       # internals renamed: patch nothing, the sweep runs the full physics
    for name in names:
        setattr(s, name, lambda *a, **k: None)
    return s, True


def tiny_chain():
    spec = {'motor': {'w0': [100.0, 'rad/s'], 'tmax': [1.0, 'Nm'], 'J': [1.0, 'kgm^2'], 'i0': None, 'imax': None, 'pwm0': None},
            'elems': [{'type': 'spur', 'z': 20, 'J': [1.0, 'kgm^2'], 'module': None, 'fw': None, 'E': None, 'name': 'e1'}],
            'rels': [['joint', 0, 1]], 'load': {'coef': [0.1, 0, 0, 0, 0], 'unit': 'Nm'},
            'init': {'pos': [0.0, 'rad'], 'speed': [0.0, 'rad/s']}, 'rules': None, 'ops': []}
    return spec


def eval_axis(ctx, cases):
    """each case: dt, T (quantities), optional first run (continued), literal flag"""
    import gearpy.units as U
    lines, impl = [], []
    for c in cases:
        spec = tiny_chain()
        b = sim.build(spec)
        solver, patched = axis_only_solver(b)
        if not patched:
            ctx.note('solver internals renamed: time-axis sweep runs the full physics')
        ops = []
        if c.get('first') is not None:
            ops.append({'op': 'run', 'dt': c['first']['dt'], 'T': c['first']['T']})
        ops.append({'op': 'run', 'dt': c['dt'], 'T': c['T']})
        err = None
        recs = []
        for op in ops:
            before = len(b.pt.time)
            undo = sim.guard_run(b.pt, op['dt'], op['T'])
            try:
                solver.run(time_discretization=sim.Q('TimeInterval', op['dt']), simulation_time=sim.Q('TimeInterval', op['T']))
            except Exception as ex:  # noqa: BLE001
                err = type(ex).__name__
                break
            finally:
                undo()
            recs.append({'op': 'run', 'n_before': before, 'n_after': len(b.pt.time), 'pwm_before': 1.0, 'locked_before': False})
        t = [sim.qsi(x) for x in b.pt.time]
        spec['ops'] = [{'op': 'run', 'dt': o['dt'], 'T': o['T'], 'stop': None} for o in ops]
        tr = {'time': t, 'ops': recs, 'els': [{'angular position': t}], 'error': None}
        impl.append((spec, tr, err))
        last = '-'
        if c.get('first') is not None and recs:
            lt = b.pt.time[recs[0]['n_after'] - 1]
            last = f"Time:{R(lt.value)}:{sim_unit_index('Time', lt.unit)}"
        lines.append(f"grid dt=TimeInterval:{R(c['dt'][0])}:{sim_unit_index('TimeInterval', c['dt'][1])} "
                     f"sim=TimeInterval:{R(c['T'][0])}:{sim_unit_index('TimeInterval', c['T'][1])} last={last}")
    answers = ctx.driver.ask(lines) if ctx.driver.available else [None] * len(lines)
    for c, (spec, tr, err), ans in zip(cases, impl, answers):
        ctx.case_done(c, nontrivial=err is None and len(tr['time']) > 2)
        ctx.count('unit ' + c['dt'][1] + '/' + c['T'][1])
        ctx.count('continued' if c.get('first') else 'fresh')
        if c.get('inplace'):
            ctx.count('dt / T re-expressed in place before the run')
        if err is not None:
            ctx.count('run rejected ' + err)
            dtsi = float(F(c['dt'][0]) * SI['TimeInterval'][c['dt'][1]])
            Tsi = float(F(c['T'][0]) * SI['TimeInterval'][c['T'][1]])
            if err == 'Runaway':
                ctx.violation(c, {'why': f'the time axis overruns: more than {sim.expected_steps(c["dt"], c["T"])} + 64 instants were appended'})
            elif not (err == 'ValueError' and dtsi >= Tsi * (1 - 1e-9)):
                ctx.violation(c, {'why': f'run raised {err} for dt < T'})
            continue
        for msg, det in oracle_C11(spec, tr)[:1]:
            ctx.violation(c, {'why': msg, **det})
        if ans is not None:
            w = ans.split()
            if w[0] != 'ok':
                ctx.mismatch(c, 'run accepted', ans)
                continue
            kv = dict(x.split('=') for x in w[1:])
            seg = tr['ops'][-1]
            appended = seg['n_after'] - seg['n_before'] - (1 if seg['n_before'] == 0 else 0)
            if int(kv['n']) != appended:
                q = float(F(c['T'][0]) * SI['TimeInterval'][c['T'][1]] / (F(c['dt'][0]) * SI['TimeInterval'][c['dt'][1]]))
                if abs(q + 1e-9 - round(q + 1e-9)) < 1e-12 * max(1.0, q):
                    ctx.count('step count on the guard boundary (rounding)')
                else:
                    ctx.mismatch(c, f'{appended} instants appended', ans)
            elif kv['last'] != '-' and not near(parse_num_(kv['last']), tr['time'][-1], max(abs(tr['time'][-1]), 1e-12), 1e-10):
                ctx.mismatch(c, f"last instant {tr['time'][-1]}", ans)


def parse_num_(s):
    from common import parse_num
    return parse_num(s)


def sim_unit_index(kind, unit):
    t = _tables()
    return t['kinds'][kind]['units'].index(unit)


from common import R  # noqa: E402


def run_C11(ctx):
    prep()
    rng = ctx.rng
    cases = []
    units = ['sec', 'ms', 'min', 'hour']
    npairs = ctx.budget(400, 40000) * ctx.boost
    nmax = ctx.budget(120, 400)
    for _ in range(npairs):
        e = rng.randint(0, 4)
        m = rng.randint(1, 999)
        dt = m / (10 ** e)          # decimal time step m*10^-e
        n = rng.randint(2, nmax) if rng.random() < 0.9 else rng.randint(nmax, 5 * nmax)
        literal = rng.random() < 0.5
        T = float(F(m * n, 10 ** e)) if literal else dt * n
        u1, u2 = rng.choice(units), rng.choice(units)
        if rng.random() < 0.6:
            u2 = u1
        c = {'t': 'axis', 'dt': [float(F(dt) / SI['Time'][u1]) if u1 != 'sec' else dt, u1],
             'T': [float(F(T) / SI['Time'][u2]) if u2 != 'sec' else T, u2], 'literal': literal}
        if rng.random() < 0.3:
            n0 = rng.randint(2, 40)
            u0 = rng.choice(units)
            c['first'] = {'dt': [float(F(dt) / SI['Time'][u0]) if u0 != 'sec' else dt, u0],
                          'T': [float(F(dt * n0) / SI['Time'][u0]) if u0 != 'sec' else dt * n0, u0]}
        if rng.random() < 0.2:
            # dt and / or T were created in another unit and re-expressed in place before the run
            for d in [c] + ([c['first']] if c.get('first') else []):
                for k in ('dt', 'T'):
                    if rng.random() < 0.6:
                        d[k] = d[k] + [rng.choice([u for u in units if u != d[k][1]])]
            c['inplace'] = True
        cases.append(c)
    # the input that used to overrun, and its relatives
    cases += [{'t': 'axis', 'dt': [0.35, 'sec'], 'T': [10.5, 'sec'], 'literal': True},
              {'t': 'axis', 'dt': [350.0, 'ms'], 'T': [10.5, 'sec'], 'literal': True},
              {'t': 'axis', 'dt': [0.1, 'sec'], 'T': [0.3, 'sec'], 'literal': True},
              {'t': 'axis', 'dt': [1000.0, 'ms'], 'T': [5000.0, 'ms'], 'literal': True, 'first': {'dt': [1.0, 'sec'], 'T': [5.0, 'sec']}},
              {'t': 'axis', 'dt': [0.5, 'min'], 'T': [2.0, 'min'], 'literal': True, 'first': {'dt': [1.0, 'sec'], 'T': [60.0, 'sec']}}]
    # a long coarse run continued with a very fine time step (previous final time / dt beyond 1e7): the number of appended
    # instants is T/dt whatever the instant the continuation starts from
    for _ in range(ctx.budget(12, 200)):
        big = rng.choice([[1.0, 'hour'], [50.0, 'min'], [2.5, 'hour'], [1000.0, 'sec']])
        nb = rng.randint(2, 4)
        m = rng.choice([1, 3, 7, 9, 11, 13])
        n = rng.randint(3, 40)
        u = rng.choice(['ms', 'ms', 'sec'])
        dt_ms = m / 10.0
        dt = [dt_ms, 'ms'] if u == 'ms' else [float(F(m, 10000)), 'sec']
        T = [float(F(m * n, 10)), 'ms'] if u == 'ms' else [float(F(m * n, 10000)), 'sec']
        cases_fine = {'t': 'axis', 'dt': dt, 'T': T, 'literal': True, 'first': {'dt': big, 'T': [big[0] * nb, big[1]]}}
        eval_axis(ctx, [cases_fine])
    for i in range(0, len(cases), 500):
        eval_axis(ctx, cases[i:i + 500])
    # the axis of complete simulations (with stop conditions) as well
    specs = [dynamics_spec(ctx.rng, ctx) for _ in range(ctx.budget(40, 600))]
    # run, reset, run again on the same Solver object: the axis restarts at 0
    specs += [dynamics_spec(ctx.rng, ctx, kind='reset', same_solver=True) for _ in range(ctx.budget(12, 150))]
    eval_dynamics(ctx, specs, ['C11'])
    # several Solver objects on one powertrain, used in turn: every run continues from the powertrain's last instant
    for _ in range(ctx.budget(15, 300)):
        eval_solvers(ctx, {'t': 'solvers', 'order': [rng.randrange(2) for _ in range(rng.randint(3, 5))],
                           'runs': [(lambda dt, n, u: {'dt': [float(F(dt) / SI['TimeInterval'][u]), u], 'T': [float(F(dt * n) / SI['TimeInterval'][u]), u]})(
                               2.0 ** -rng.randint(2, 5), rng.randint(2, 6), rng.choice(['sec', 'sec', 'ms'])) for _ in range(5)]})
    ctx.rule = ('decimal time steps m*10^-e (m <= 999, e <= 4) x step counts, T given as dt*n or as a decimal literal, '
                'dt and T in any of the four time units (also created in one unit and converted in place to another), fresh and continued runs, through the real Solver.run with the '
                'per-instant physics replaced by no-ops inside the harness process; plus complete simulations; '
                'non-trivial = more than 2 instants recorded')


def eval_solvers(ctx, c):
    from gearpy.solver import Solver
    spec = tiny_chain()
    b = sim.build(spec)
    solvers = [Solver(b.pt), Solver(b.pt)]
    b.E[-1].angular_position = sim.Q('AngularPosition', spec['init']['pos'])
    b.E[-1].angular_speed = sim.Q('AngularSpeed', spec['init']['speed'])
    ops, recs, err = [], [], None
    for k, r in zip(c['order'], c['runs']):
        before = len(b.pt.time)
        undo = sim.guard_run(b.pt, r['dt'], r['T'])
        try:
            solvers[k].run(time_discretization=sim.Q('TimeInterval', r['dt']), simulation_time=sim.Q('TimeInterval', r['T']))
        except Exception as ex:  # noqa: BLE001
            err = type(ex).__name__
            break
        finally:
            undo()
        ops.append({'op': 'run', 'dt': r['dt'], 'T': r['T'], 'stop': None})
        recs.append({'op': 'run', 'n_before': before, 'n_after': len(b.pt.time), 'pwm_before': 1.0, 'locked_before': False})
    t = [sim.qsi(x) for x in b.pt.time]
    spec['ops'] = ops
    tr = {'time': t, 'ops': recs, 'els': [{'angular position': t}], 'error': None}
    ctx.case_done(c, nontrivial=len(t) > 4)
    ctx.count('two solvers used in turn ' + ''.join('AB'[k] for k in c['order']))
    if err is not None:
        ctx.violation(c, {'why': f'run raised {err}'})
        return
    for msg, det in oracle_C11(spec, tr)[:1]:
        ctx.violation(c, {'why': msg, **det})


def replay_C11(ctx, case):
    prep()
    if case.get('t') == 'solvers':
        eval_solvers(ctx, case)
    elif case.get('t') == 'axis':
        eval_axis(ctx, [case])
    else:
        eval_dynamics(ctx, [case['spec']], ['C11'])


# ---------------------------------------------------------------------------------------------
# C12: continuation and reset / rerun
# ---------------------------------------------------------------------------------------------

def hist_equal(tr1, tr2, rel=1e-9, exact=False):
    """None if the recorded histories coincide, else a description"""
    if tr1['error'] is not None or tr2['error'] is not None:
        if (tr1['error'] is None) != (tr2['error'] is None):
            return f"one schedule failed: {tr1['error']} vs {tr2['error']}"
        return None
    n1, n2 = len(tr1['time']), len(tr2['time'])
    if n1 != n2:
        return f'{n1} vs {n2} recorded instants'
    for j in range(n1):
        if not near(tr1['time'][j], tr2['time'][j], max(abs(tr1['time'][j]), 1e-9), 1e-12):
            return f"time axis differs at instant {j}: {tr1['time'][j]} vs {tr2['time'][j]}"
    for ei, (e1, e2) in enumerate(zip(tr1['els'], tr2['els'])):
        if set(e1) != set(e2):
            return f'element {ei} records different variables'
        for var in e1:
            sc = max(vscale(tr1, var), 1e-12) if var != 'pwm' else 1.0
            for j, (a, b) in enumerate(zip(e1[var], e2[var])):
                same = (a == b) if exact else (a == b or near(a, b, sc, rel))
                if not same and not (math.isnan(a) and math.isnan(b)):
                    return f'{var} of element {ei} differs at instant {j}: {a} vs {b}'
    return None


def run_C12(ctx):
    prep()
    rng = ctx.rng
    n = ctx.budget(60, 4000) * ctx.boost
    for _ in range(n):
        ru = rng.random() < 0.7
        spec = gen.gen_spec(rng, random_units=ru, sl_bias=0.5)
        dt = 2.0 ** -rng.randint(3, 6)
        total = rng.randint(6, 30)
        if rng.random() < 0.6:
            spec['rules'] = gen.const_rules(rng, total * dt, random_units=False)
        kind = rng.choice(['split', 'split-units', 'rerun', 'rerun-new', 'rerun', 'split-stop'])
        case = {'t': 'c12', 'kind': kind, 'spec': spec}
        if kind.startswith('rerun') and rng.random() < 0.45:
            # state-dependent control rules; the rule / sensor objects are the same before and after the reset
            from harness import ctl_h
            spec['load']['coef'] = [abs(spec['load']['coef'][0]), 0.0, 0.0, 0.0, 0.0]
            rules = ctl_h.gen_rules(rng, spec, total * dt, len(spec['elems']) + 1)
            if spec['motor']['i0'] is not None and rng.random() < 0.6:
                # a soft start from rest whose target is passed during the first schedule
                spec['init'] = {'pos': [0.0, spec['init']['pos'][1]], 'speed': [0.0, spec['init']['speed'][1]]}
                spec['load']['coef'] = [min(spec['load']['coef'][0], 0.01), 0.0, 0.0, 0.0, 0.0]
                probe, _ = sim.simulate(dict(spec, rules=None, ops=[gen.run_op(rng, dt_si=dt, steps=(total, total), unit='sec')[0]]))
                if not probe['build_error'] and not probe['error'] and probe['els']:
                    enc = rng.randrange(len(probe['els']))
                    ps = probe['els'][enc]['angular position']
                    tgt = ps[max(1, len(ps) // 6)]
                    if tgt > ps[0] and tgt > 0:
                        rules = [{'type': 'prop', 'enc': enc, 'target': gen.in_unit(rng, 'AngularPosition', tgt, True),
                                  'mult': rng.uniform(1.1, 3), 'pmin': 0.2}]
            spec['rules'] = rules
            case['kind'] = kind = kind + '-state-rules'
        if kind == 'split-stop':
            # a run ended early by a stop condition, then a continuation to the same final time = one uninterrupted run
            one, _, _ = gen.run_op(rng, dt_si=dt, steps=(total, total), unit='sec')
            probe, _ = sim.simulate(dict(spec, ops=[one]))
            if probe['build_error'] or probe['error'] or len(probe['time']) < 4:
                continue
            st = random_stop(rng, spec)
            series, _ = sensor_series(spec, probe, st)
            kk = rng.randrange(1, len(series) - 1)
            lo, hi = sorted([series[kk], series[kk + 1]])
            thr = (lo + hi) / 2
            st.pop('kind', None)
            knd = {'enc': 'AngularPosition', 'tac': 'AngularSpeed', 'amp': 'Current'}[st['sensor']]
            st['thr'] = gen.in_unit(rng, knd, thr, True)
            stopped = dict(one, stop=st)
            trs, _ = sim.simulate(dict(spec, ops=[stopped]))
            k = len(trs.get('time') or []) - 1
            if trs.get('error') or k < 1 or k > total - 2:      # a continuation needs at least two steps (dt < T)
                continue
            rest, _, _ = gen.run_op(rng, dt_si=dt, steps=(total - k, total - k), unit='sec')
            case['ops_a'] = [one]
            case['ops_b'] = [stopped, rest]
            eval_c12(ctx, case)
            continue
        if kind.startswith('split'):
            n1 = rng.randint(2, total - 2)
            u1 = 'sec'
            u2 = rng.choice(['ms', 'min', 'hour']) if kind == 'split-units' else 'sec'
            one, _, _ = gen.run_op(rng, dt_si=dt, steps=(total, total), unit=u1)
            a, _, _ = gen.run_op(rng, dt_si=dt, steps=(n1, n1), unit=u1)
            b2, _, _ = gen.run_op(rng, dt_si=dt, steps=(total - n1, total - n1), unit=u2)
            case['ops_a'] = [one]
            case['ops_b'] = [a, b2]
        else:
            n1 = rng.randint(3, total)
            one, _, _ = gen.run_op(rng, dt_si=dt, steps=(n1, n1), unit='sec')
            sched = [one]
            if rng.random() < 0.4:
                two, _, _ = gen.run_op(rng, dt_si=dt, steps=(3, 8), unit='sec')
                sched.append(two)
            if rng.random() < 0.25:
                # the user replaces the load function after the solver has been built, before the first run: the rerun
                # (same or new solver) sees the same, current, load
                c0 = spec['load']['coef']
                sched = [{'op': 'load', 'coef': [c0[0] * rng.choice([0.5, 2, -1]) + rng.choice([0, 0.25]), c0[1], c0[2], c0[3],
                                                   0.0 if len(c0) < 5 else c0[4]]}] + sched
            case['ops_a'] = sched
            tail = [{'op': 'reset'}, {'op': 'init', 'pos': spec['init']['pos'], 'speed': spec['init']['speed']}]
            if kind == 'rerun-new':
                tail.append({'op': 'new'})
            case['ops_b'] = sched + tail + sched
        eval_c12(ctx, case)
    # self-locking chains whose controller has switched the motor off (or reversed it) by the end of the schedule, with and
    # without current data: reset must put the duty cycle back before the rerun
    for _ in range(ctx.budget(12, 300)):
        spec = gen.gen_spec(rng, random_units=rng.random() < 0.5, sl_bias=1.0, currents=rng.random() < 0.5)
        dt = 2.0 ** -rng.randint(3, 6)
        total = rng.randint(6, 16)
        k = rng.randint(2, total - 2)
        spec['rules'] = [{'type': 'const', 'start': [k * dt, 'sec'], 'dur': [1e6, 'sec'], 'value': rng.choice([0, 0, -1, -0.5])}]
        one, _, _ = gen.run_op(rng, dt_si=dt, steps=(total, total), unit='sec')
        kind = rng.choice(['rerun', 'rerun-new'])
        tail = [{'op': 'reset'}, {'op': 'init', 'pos': spec['init']['pos'], 'speed': spec['init']['speed']}]
        if kind == 'rerun-new':
            tail.append({'op': 'new'})
        eval_c12(ctx, {'t': 'c12', 'kind': kind + '-switched-off', 'spec': spec, 'ops_a': [one], 'ops_b': [one] + tail + [one]})
    ctx.rule = ('random models (half of them self-locking, most with ConstantPWM controllers, time-dependent loads): '
                'one run vs run + continuation at every split point (continuation also in ms / min / hour), and '
                'schedule vs schedule + reset + re-applied initial conditions + same schedule (same or new solver, also with state-dependent '
                'control rules whose objects are re-used), run ended by a stop condition + continuation vs one uninterrupted run; '
                'histories compared sample by sample; non-trivial = at least 3 instants')


def eval_c12(ctx, case):
    spec = case['spec']
    sa = dict(spec, ops=case['ops_a'])
    sb = dict(spec, ops=case['ops_b'])
    tra, ba = sim.simulate(sa)
    trb, bb = sim.simulate(sb)
    if tra['build_error'] or trb['build_error']:
        ctx.violation(case, {'why': f"a generated valid powertrain was rejected: {tra.get('build_msg')}"})
        return
    ctx.case_done(case, nontrivial=n_inst(tra) >= 3)
    ctx.count('kind ' + case['kind'])
    # the longer of the two schedules against the Lean model (whole history, when short enough)
    total = sum(r.get('n_after', 0) - r['n_before'] for r in trb['ops'] if r['op'] == 'run')
    simple_rules = all(r['type'] == 'const' for r in (spec.get('rules') or []))
    load_replaced = any(o['op'] == 'load' for o in sb['ops'])
    if ctx.driver.available and (not simple_rules or load_replaced):
        # state-dependent rules: lock-step (exact rationals of whole histories explode); also when the load function is
        # replaced during the schedule (the whole-history request carries one load function)
        reqs = sim.lockstep_requests(sb, trb, max_steps=40)
        for (j, _), ans in zip(reqs, ctx.driver.ask([ln for _, ln in reqs])):
            d = sim.compare_step(trb, j, ans)
            if d is not None:
                if near_threshold(sb, trb):
                    ctx.count('history excluded: decision within rounding of its threshold')
                else:
                    ctx.mismatch(case, d, ans[:200])
                break
    elif ctx.driver.available and total <= 18 and sb['load']['coef'][4] == 0:
        st, recs = sim.parse_hist(ctx.driver.ask([sim.hist_line(sb, trb)])[0])
        d = sim.compare_hist(trb, st, recs)
        if d is not None:
            if near_threshold(sb, trb):
                ctx.count('history excluded: decision within rounding of its threshold')
            else:
                ctx.mismatch(case, d, 'model history differs')
    ctx.count('self-locking' if tra['sl'] else 'not self-locking')
    if tra['locked'] and tra['locked'][-1]:
        ctx.count('first schedule ends locked')
    diff = hist_equal(tra, trb, exact=False)
    if diff is None and case['kind'].startswith('split') and not tra['error'] and not trb['error'] and len(tra['time']) >= 3:
        # the two histories read back the way users read them: a snapshot at the same physical instant, the exported files
        from harness import meta_h
        diff = meta_h.snapshots_differ(ctx, tra, ba, trb, bb) or meta_h.exports_differ(ctx, ba, bb)
    if diff is None:
        return
    if case['kind'].startswith('rerun'):
        # K3: reset restores the duty cycle *recorded* at the first instant (after control), while the
        # first lock check of the original run saw the attribute as it was before the run
        pwm_before = tra['ops'][0]['pwm_before']
        pwm0 = tra['els'][0]['pwm'][0] if tra['els'][0].get('pwm') else None
        after_reset = None
        for op_, rec_ in zip(case['ops_b'], trb['ops']):
            if op_['op'] == 'init':
                after_reset = rec_['pwm_before']      # the attribute right after `reset` (before the initial conditions are re-applied)
        if tra['sl'] and spec.get('rules') is not None and pwm0 is not None and pwm0 != pwm_before and after_reset == pwm0:
            ops_c = list(case['ops_b'])
            k = next(i for i, o in enumerate(ops_c) if o['op'] == 'init')
            ops_c.insert(k + 1, {'op': 'pwm', 'v': pwm_before})
            trc, _ = sim.simulate(dict(spec, ops=ops_c))
            if hist_equal(tra, trc) is None:
                ctx.known_finding('K3', case)
                return
    if near_threshold(sa, tra) or near_threshold(sb, trb):
        ctx.count('pair excluded: decision within rounding of its threshold')
        return
    ctx.violation(case, {'why': 'the two schedules record different histories: ' + diff})


def replay_C12(ctx, case):
    prep()
    eval_c12(ctx, case)


# ---------------------------------------------------------------------------------------------
# C16: stop conditions placed inside the reachable range
# ---------------------------------------------------------------------------------------------

def run_C16(ctx):
    prep()
    rng = ctx.rng
    n = ctx.budget(160, 6000) * ctx.boost
    specs = []
    n_rest = ctx.budget(15, 300)
    for it in range(n):
        spec = gen.gen_spec(rng, random_units=rng.random() < 0.7, sl_bias=0.2, currents=True if it < n_rest else None)
        dt = 2.0 ** -rng.randint(3, 6)
        total = rng.randint(6, 16)
        if spec['load']['coef'][4] != 0:
            total = rng.randint(4, 6)
        if it < n_rest:
            # a drive at rest with the supply off and no load: every speed, acceleration and the current read exactly zero
            spec['load']['coef'] = [0.0, 0.0, 0.0, 0.0, 0.0]
            spec['motor']['pwm0'] = 0.0
            spec['init']['speed'] = [0.0, spec['init']['speed'][1]]
        op, _, _ = gen.run_op(rng, dt_si=dt, steps=(total, total), unit=rng.choice(['sec', 'ms']))
        spec['ops'] = [op]
        # learn the reachable range of the sensed quantity from the unstopped run
        tr0, b0 = sim.simulate(spec)
        if tr0['build_error'] or tr0['error']:
            continue
        st = random_stop(rng, spec)
        series, _ = sensor_series(spec, tr0, st)
        where = rng.choice(['inside', 'inside', 'inside', 'before', 'beyond', 'exact', 'exact', 'exact']) if it >= n_rest else 'exact'
        vals = sorted(set(series[1:])) or [0.0]
        if where == 'exact' and len(series) > 2:
            # threshold exactly equal to a reading, in the reading's own unit: the comparison is exact, so
            # the five operators are told apart (>= vs >, <= vs <, ==)
            k = rng.randrange(1, len(series))
            zeros = [i for i in range(1, len(series)) if series[i] == 0]
            if zeros and rng.random() < 0.6:
                k = rng.choice(zeros)       # a reading of exactly zero against a threshold of exactly zero
            var = {'enc': 'angular position', 'tac': 'angular speed', 'amp': 'electric current'}[st['sensor']]
            q = b0.E[st['idx'] % len(b0.E) if st['sensor'] != 'amp' else 0].time_variables[var][k]
            st['thr'] = [q.value, q.unit]
            st.pop('kind', None)
            if st['sensor'] == 'enc' and q.value >= 0 and rng.random() < 0.3:
                st['kind'] = 'Angle'
            st['op'] = ['ge', 'le', 'eq', 'gt', 'lt'][len(specs) % 5]      # every operator gets its exact hits
            st['exact'] = True
            op['stop'] = st
            spec['_unstopped'] = True
            specs.append(spec)
            continue
        if where == 'inside' and len(vals) >= 2:
            k = rng.randrange(len(vals) - 1)
            thr = (vals[k] + vals[k + 1]) / 2
        elif where == 'before':
            thr = min(series) - abs(min(series)) * 0.1 - 1.0
        else:
            thr = max(series) + abs(max(series)) * 0.1 + 1.0
        kind = {'enc': 'AngularPosition', 'tac': 'AngularSpeed', 'amp': 'Current'}[st['sensor']]
        st.pop('kind', None)
        if st['sensor'] == 'enc' and thr >= 0 and rng.random() < 0.35:
            kind = st['kind'] = 'Angle'
        st['thr'] = gen.in_unit(rng, kind, thr, True)
        op['stop'] = st
        spec['_unstopped'] = True
        r = rng.random()
        if r < 0.25:
            # the same StopCondition object reused after reset and re-applied initial conditions
            init2 = {'op': 'init', 'pos': spec['init']['pos'], 'speed': spec['init']['speed']}
            if rng.random() < 0.5 and spec['init'].get('pos_kind') is None:
                # ... given in other units this time (the readings of the second simulation carry those units)
                init2 = {'op': 'init', 'pos': gen.in_unit(rng, 'AngularPosition', float(F(spec['init']['pos'][0]) * SI['AngularPosition'][spec['init']['pos'][1]]), True),
                         'speed': gen.in_unit(rng, 'AngularSpeed', float(F(spec['init']['speed'][0]) * SI['AngularSpeed'][spec['init']['speed'][1]]), True)}
            spec['ops'] = [op, {'op': 'reset'}, init2, dict(op)]
        elif r < 0.4:
            # ... or for a continuation
            op2, _, _ = gen.run_op(rng, dt_si=dt, steps=(2, 5), unit='sec')
            op2['stop'] = st
            spec['ops'] = [op, op2]
        specs.append(spec)
    for i in range(0, len(specs), 200):
        batch = specs[i:i + 200]
        for s in batch:
            s.pop('_unstopped', None)
        eval_dynamics(ctx, batch, ['C16'])
        # the stopped run is a prefix of the unstopped one
        for s in batch:
            if len(s['ops']) != 1:
                continue
            trs, _ = sim.simulate(s)
            s0 = json.loads(json.dumps(s))
            s0['ops'][0]['stop'] = None
            tr0, _ = sim.simulate(s0)
            if trs['error'] or tr0['error'] or trs['build_error']:
                continue
            k = len(trs['time'])
            ctx.count('stopped early' if k < len(tr0['time']) else 'ran to the end')
            cut = dict(tr0, time=tr0['time'][:k], els=[{v: x[:k] for v, x in e.items()} for e in tr0['els']])
            d = hist_equal(trs, cut, exact=True)
            if d is not None:
                ctx.violation({'t': 'sim', 'spec': s}, {'why': 'the stopped run is not a prefix of the unstopped run: ' + d})
    # runs of more than a thousand steps stopped early (judged on the recorded series only; too long for exact rationals)
    long_specs = []
    for _ in range(ctx.budget(4, 40)):
        spec = gen.gen_spec(rng, random_units=rng.random() < 0.5, sl_bias=0.0, currents=None, max_stages=1)
        spec['load']['coef'] = [abs(spec['load']['coef'][0]), 0.0, 0.0, 0.0, 0.0]
        spec['rules'] = None
        dt = 2.0 ** -rng.randint(8, 10)
        total = rng.randint(1050, 2600)
        op, _, _ = gen.run_op(rng, dt_si=dt, steps=(total, total), unit=rng.choice(['sec', 'ms']))
        spec['ops'] = [op]
        spec['long'] = True
        tr0, b0 = sim.simulate(spec)
        if tr0['build_error'] or tr0['error']:
            continue
        st = random_stop(rng, spec)
        if st['sensor'] == 'amp':
            continue
        series, _ = sensor_series(spec, tr0, st)
        k = rng.randint(5, min(len(series) - 2, rng.choice([900, 1900])))
        lo, hi = sorted((series[k], series[k + 1]))
        if not lo < hi:
            continue
        thr = (lo + hi) / 2
        # the series is judged as it is: the first crossing of the chosen threshold may come earlier than instant k
        st['op'] = 'ge' if series[k + 1] > series[k] else 'le'
        st.pop('kind', None)
        st['thr'] = gen.in_unit(rng, {'enc': 'AngularPosition', 'tac': 'AngularSpeed'}[st['sensor']], thr, True)
        op['stop'] = st
        long_specs.append(spec)
        ctx.count('run of more than 1000 steps with a stop condition')
    eval_dynamics(ctx, long_specs, ['C16'], with_model=False)
    ctx.rule = ('encoder / tachometer on any element, amperometer, five operators, thresholds placed between two '
                'consecutive readings of the unstopped run (inside), below all of them and beyond all of them, in any '
                'unit; the comparison is re-evaluated on the recorded series and the stopped history is compared with '
                'the prefix of the unstopped one and with the Lean model; non-trivial = at least 3 instants')


def replay_C16(ctx, case):
    replay_dynamics(ctx, case, ['C16'])


# ---------------------------------------------------------------------------------------------
# C17: every element kind x every subset of optional data x schedules
# ---------------------------------------------------------------------------------------------

VAR_ORDER = ['angular position', 'angular speed', 'angular acceleration', 'torque', 'driving torque', 'load torque',
             'tangential force', 'bending stress', 'contact stress', 'electric current', 'pwm']


def info_token(spec, tr, ei):
    """ElemInfo of element `ei` of the powertrain for the driver"""
    if ei == 0:
        m = spec['motor']
        return f"motor,0,0,0,0,{1 if (m['i0'] is not None and m['imax'] is not None) else 0},-"
    e = sim.spec_chain(spec, tr)[ei - 1]
    kind = {'fly': 'flywheel', 'spur': 'spur', 'helical': 'helical', 'wormgear': 'wormGear', 'wormwheel': 'wormWheel'}[e['type']]
    b = lambda k: 1 if e.get(k) is not None else 0  # noqa: E731
    mate = '-'
    if e['type'] == 'wormwheel':
        # the worm it is mated with (driver or driven)
        idx = spec['elems'].index(e) + 1
        for r in sim.all_rels(spec):
            if r[0] == 'worm' and idx in (r[1], r[2]):
                other = r[2] if r[1] == idx else r[1]
                mate = str(1 if spec['elems'][other - 1].get('d') is not None else 0)
    return f"{kind},{b('module')},{b('fw')},{b('E') if e['type'] in ('spur', 'helical') else 0},{b('d')},0,{mate}"


def run_C17(ctx):
    prep()
    rng = ctx.rng
    n = ctx.budget(70, 5000) * ctx.boost
    for _ in range(n):
        spec = gen.gen_spec(rng, random_units=rng.random() < 0.5, sl_bias=0.3, optional_data=rng.choice([0.3, 0.6, 0.9]))
        if rng.random() < 0.3:
            # element names are free text (dots, several words): they name the exported files and the snapshot rows
            for k, e in enumerate(spec['elems']):
                e['name'] = rng.choice([f'stage {k // 2 + 1}.{k % 2 + 1}', f'shaft.{k}.out', f'gear {k} (z = {e.get("z", 0)}, v1.{k})'])
        dt = 2.0 ** -rng.randint(3, 6)
        ops = []
        recops = []
        for _k in range(rng.randint(1, 4)):
            r = rng.random()
            if r < 0.6 or not ops:
                op, _, nn = gen.run_op(rng, dt_si=dt, steps=(2, 7), unit=rng.choice(['sec', 'sec', 'ms', 'min']))
                if rng.random() < 0.3:
                    op['stop'] = random_stop(rng, spec)
                ops.append(op)
            elif r < 0.85:
                ops += [{'op': 'reset'}, {'op': 'init', 'pos': spec['init']['pos'], 'speed': spec['init']['speed']}]
            else:
                ops.append({'op': 'new'})
        if len(ops) >= 2 and rng.random() < 0.3:
            # a mating is declared again, word for word, in the middle of the schedule (histories must survive it)
            cands = [r for k, r in enumerate(spec['rels']) if r[0] in ('gear', 'worm') and not
                     [q for q in spec['rels'][k + 1:] if q[0] in ('gear', 'worm') and (set(q[1:3]) & set(r[1:3]))]]
            if cands:
                ops.insert(rng.randrange(1, len(ops)), {'op': 'redeclare', 'rel': list(rng.choice(cands))})
        if len(ops) >= 2 and rng.random() < 0.25:
            ops.insert(rng.randrange(1, len(ops) + 1), {'op': 'wrap'})
        spec['ops'] = ops
        if rng.random() < 0.5:
            # with a controller (for all runs, or only for some of them)
            spec['rules'] = gen.const_rules(rng, 16 * dt, random_units=False)
            for op in ops:
                if op['op'] == 'run' and rng.random() < 0.25:
                    op['rules'] = None
        tr, b = sim.simulate(spec)
        case = {'t': 'sim', 'spec': spec}
        if tr['build_error']:
            ctx.violation(case, {'why': f"a generated valid powertrain was rejected: {tr.get('build_msg')}"})
            continue
        ctx.case_done(case, nontrivial=len(tr['time']) >= 2)
        for ty in tr['types']:
            ctx.count('element ' + ty)
        for msg, det in oracle_C17(spec, tr, b)[:1]:
            ctx.violation(case, {'why': msg, **det})
        if tr['error'] is not None or not ctx.driver.available:
            continue
        # bookkeeping model: one update per recorded instant of each run, resets in between
        seq = []
        for op, rec in zip(spec['ops'], tr['ops']):
            if op['op'] == 'run':
                seq += ['u'] * (rec['n_after'] - rec['n_before'])
            elif op['op'] == 'reset':
                seq.append('r')
        lines = [f"t elem={info_token(spec, tr, ei)} ops={','.join(seq)}" for ei in range(tr['n'])]
        for ei, ans in enumerate(ctx.driver.ask(lines)):
            w = ans.split()
            kv = dict(x.split('=') for x in w[1:])
            model = {v: (None if c == '-' else int(c)) for v, c in zip(VAR_ORDER, kv['tv'].split(','))}
            impl = {v: tr['keys'][ei].get(v) for v in VAR_ORDER}
            if model != impl or int(kv['n']) != len(tr['time']):
                ctx.mismatch(case, {'element': ei, 'type': tr['types'][ei], 'keys': impl, 'n': len(tr['time'])}, ans)
    ctx.rule = ('all six element kinds with random subsets of the optional data (module, face width, elastic modulus, worm '
                'reference diameter, motor currents), random topologies, schedules of runs / early stops / resets / new '
                'solvers; lengths, kinds, last-sample-equals-attribute, export and snapshot checked on every simulated '
                'powertrain and the key/length bookkeeping compared with the Lean model; non-trivial = at least 2 instants')


def replay_C17(ctx, case):
    prep()
    spec = case['spec']
    tr, b = sim.simulate(spec)
    ctx.case_done(case)
    if tr['build_error']:
        ctx.violation(case, {'why': 'build failed'})
        return
    for msg, det in oracle_C17(spec, tr, b)[:1]:
        ctx.violation(case, {'why': msg, **det})


# ---------------------------------------------------------------------------------------------
# C03 / C07: the solver's arithmetic on unit-carrying quantities, one statement at a time
# ---------------------------------------------------------------------------------------------

def eval_unit_step(ctx, n):
    """`Solver._time_integration` called on a real powertrain whose last element carries position, speed
    and acceleration in random units, with dt in a random unit: result quantities (kind, value, unit)
    against the unit-level Lean model `integrateU` and against the SI update"""
    import gearpy.units as U
    from gearpy.solver import Solver
    from harness.units_h import uidx, uname
    rng = ctx.rng
    lines, impl, cases = [], [], []
    for _ in range(n):
        b = sim.build(tiny_chain())
        solver = Solver(b.pt)
        if not hasattr(solver, '_time_integration'):
            ctx.note('Solver._time_integration not found: unit-level step stream skipped')
            return
        import inspect
        try:
            if 'time_discretization' not in inspect.signature(solver._time_integration).parameters:
                ctx.note('Solver._time_integration has another signature: unit-level step stream skipped')
                return
        except (TypeError, ValueError):
            return
        last = b.E[-1]
        c = {'t': 'ustep', 'pos': gen.in_unit(rng, 'AngularPosition', rng.uniform(-50, 50), True),
             'speed': gen.in_unit(rng, 'AngularSpeed', rng.uniform(-200, 200), True),
             'acc': gen.in_unit(rng, 'AngularAcceleration', rng.uniform(-500, 500), True),
             'dt': gen.in_unit(rng, 'TimeInterval', 10.0 ** rng.uniform(-4, 1), True)}
        last.angular_position = sim.Q('AngularPosition', c['pos'])
        last.angular_speed = sim.Q('AngularSpeed', c['speed'])
        last.angular_acceleration = sim.Q('AngularAcceleration', c['acc'])
        try:
            solver._time_integration(time_discretization=sim.Q('TimeInterval', c['dt']))
            out = ('ok', last.angular_position, last.angular_speed)
        except Exception as ex:  # noqa: BLE001
            out = ('err', type(ex).__name__)
        cases.append(c)
        impl.append(out)
        tok = lambda k, vu: f'{k}:{R(vu[0])}:{uidx(k, vu[1])}'  # noqa: E731
        lines.append(f"us op=integrate pos={tok('AngularPosition', c['pos'])} speed={tok('AngularSpeed', c['speed'])} "
                     f"acc={tok('AngularAcceleration', c['acc'])} dt={tok('TimeInterval', c['dt'])}")
    answers = ctx.driver.ask(lines) if ctx.driver.available else [None] * len(lines)
    for c, out, a in zip(cases, impl, answers):
        ctx.case_done(c, nontrivial=True)
        ctx.count('unit-level integration steps')
        if out[0] != 'ok':
            ctx.violation(c, {'why': f'_time_integration raised {out[1]}'})
            continue
        p, v = out[1], out[2]
        dt = float(F(c['dt'][0]) * SI['TimeInterval'][c['dt'][1]])
        w0 = float(F(c['speed'][0]) * SI['AngularSpeed'][c['speed'][1]])
        a0 = float(F(c['acc'][0]) * SI['AngularAcceleration'][c['acc'][1]])
        p0 = float(F(c['pos'][0]) * SI['AngularPosition'][c['pos'][1]])
        wv = w0 + a0 * dt
        wp = p0 + wv * dt
        if not near(sim.qsi(v), wv, max(abs(w0), abs(a0 * dt))) or not near(sim.qsi(p), wp, max(abs(p0), abs(wv * dt))):
            ctx.violation(c, {'why': f'unit-level update gives speed {sim.qsi(v)} / position {sim.qsi(p)} (SI), expected {wv} / {wp}'})
        if a is not None:
            w = a.split()
            if w[0] != 'ok':
                ctx.mismatch(c, 'updated', a)
                continue
            for q, tokn in ((p, w[1]), (v, w[2])):
                k, val, u = tokn.split(':')
                if k != type(q).__name__ or uname(k, int(u)) != q.unit or not near(q.value, parse_num_(val), max(abs(q.value), 1e-12), 1e-9):
                    # cancellation: compare relative to the operands
                    if k == type(q).__name__ and uname(k, int(u)) == q.unit and abs(q.value - parse_num_(val)) <= 1e-9 * max(abs(wp), abs(p0), abs(wv), abs(w0)) / float(SI[k][q.unit]):
                        continue
                    ctx.mismatch(c, f'{type(q).__name__} {q.value} {q.unit}', a)
                    break
