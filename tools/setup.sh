#!/bin/bash
# MANIFEST.setup_cmd: build the framework from files on disk only (offline).
set -e
cd "$(dirname "$0")/.."
/venv/bin/python tools/extract.py
cd lean
lake build driver Gearpy 2>&1 | tail -5
test -x .lake/build/bin/driver
echo "setup ok"
