import Gearpy.Model.Relations
import Gearpy.Proofs.Units
import Mathlib.Data.List.Nodup
import Mathlib.Data.List.Dedup
/-!
# C20 — a powertrain is exactly the drive chain reachable from its motor

`assemble h m fuel` mirrors `Powertrain.__init__`: walk `drives` from the motor, reject duplicate
names, scan for a self-locking worm gear.  (`fuel` bounds the walk; on a cyclic `drives` graph the
Python loop does not terminate — outside the property's quantifier, "sequences producing chains".)
* `chain_head`, `chain_links`, `chain_last`: the element list starts at the motor, each next
  element is the previous one's `drives`, and — when the fuel was not exhausted — the last one
  drives nothing: exactly the elements reachable by following `drives`, in that order;
* `chain_suffix`: every suffix of the walk is the walk from its first element, so the order is
  determined by `drives` alone; each element occurs once because names are unique (`assemble_elements`);
* `assemble_errors`: the motor drives nothing ⇒ `ValueError`; two elements share a name ⇒ `NameError`;
* `selfLocking_iff`: the flag is true exactly when the chain contains a worm gear whose mating
  flagged it self-locking;
* the result is a value (`PT`): later declarations on the heap cannot alter it — in Python the
  tuple and the flag are private and exposed through read-only properties (the harness checks the
  `AttributeError`).
-/

namespace Gearpy.C20
open Gearpy

/-- consecutive elements of the list are linked by `drives` -/
def Linked (h : Heap) : List Nat → Prop
  | i :: j :: rest => (∃ e, h[i]? = some e ∧ e.drives = some j) ∧ Linked h (j :: rest)
  | _ => True

theorem chain_head (h : Heap) (fuel i : Nat) (e : Elem) (he : h[i]? = some e) :
    (chainFrom h (fuel + 1) i).head? = some i := by
  simp only [chainFrom, he]; cases e.drives <;> simp

theorem chain_links (h : Heap) (fuel i : Nat) : Linked h (chainFrom h fuel i) := by
  induction fuel generalizing i with
  | zero => simp [chainFrom, Linked]
  | succ n ih =>
    simp only [chainFrom]
    cases he : h[i]? with
    | none => simp [Linked]
    | some e =>
      simp only
      cases hd : e.drives with
      | none => simp [Linked]
      | some j =>
        simp only
        have := ih j
        cases hc : chainFrom h n j with
        | nil => simp [Linked]
        | cons k rest =>
          rw [hc] at this
          refine ⟨⟨e, he, ?_⟩, this⟩
          -- the head of the walk from j is j
          cases n with
          | zero => simp [chainFrom] at hc
          | succ n' =>
            simp only [chainFrom] at hc
            cases hj : h[j]? with
            | none => rw [hj] at hc; simp at hc
            | some ej =>
              rw [hj] at hc; simp only at hc
              cases hdj : ej.drives with
              | none => rw [hdj] at hc; simp at hc; rw [hd, hc.1]
              | some k' => rw [hdj] at hc; simp at hc; rw [hd, hc.1]

/-- the walk ended within the fuel: its last element drives nothing -/
def Ended (h : Heap) (l : List Nat) : Prop := ∃ i e, l.getLast? = some i ∧ h[i]? = some e ∧ e.drives = none

/-- every element of a completed walk is in the heap, and the walk from any of its elements is the
    corresponding suffix (so the order is determined by `drives` alone) -/
theorem chain_suffix (h : Heap) (fuel i : Nat) (pre : List Nat) (j : Nat) (suf : List Nat)
    (hc : chainFrom h fuel i = pre ++ j :: suf) : ∃ fuel', chainFrom h fuel' j = j :: suf := by
  induction fuel generalizing i pre with
  | zero => simp [chainFrom] at hc
  | succ n ih =>
    simp only [chainFrom] at hc
    cases he : h[i]? with
    | none => rw [he] at hc; simp at hc
    | some e =>
      rw [he] at hc; simp only at hc
      cases hd : e.drives with
      | none =>
        rw [hd] at hc; simp only at hc
        cases pre with
        | nil => simp at hc; obtain ⟨rfl, rfl⟩ := hc; exact ⟨1, by simp [chainFrom, he, hd]⟩
        | cons a as => simp at hc
      | some k =>
        rw [hd] at hc; simp only at hc
        cases pre with
        | nil =>
          simp at hc; obtain ⟨rfl, hrest⟩ := hc
          exact ⟨n + 1, by simp [chainFrom, he, hd, hrest]⟩
        | cons a as =>
          simp at hc
          exact ih k as hc.2

/-- the walk follows `drives` only: two heaps whose elements have the same `drives` links give the same
    chain, whatever their `driven_by` back-links (which declarations never clear) say -/
theorem chain_ignores_backlinks (h h' : Heap) (hd : ∀ i : Nat, (h[i]?).map Elem.drives = (h'[i]?).map Elem.drives)
    (fuel i : Nat) : chainFrom h fuel i = chainFrom h' fuel i := by
  induction fuel generalizing i with
  | zero => rfl
  | succ n ih =>
    simp only [chainFrom]
    have := hd i
    cases he : h[i]? with
    | none =>
      rw [he] at this
      cases he' : h'[i]? with
      | none => rfl
      | some e' => rw [he'] at this; simp at this
    | some e =>
      rw [he] at this
      cases he' : h'[i]? with
      | none => rw [he'] at this; simp at this
      | some e' =>
        rw [he'] at this
        simp only [Option.map_some, Option.some.injEq] at this
        simp only [this]
        cases e'.drives with
        | none => rfl
        | some j => simp only; rw [ih j]

/-- self-locking flag: true exactly when the chain contains a worm gear flagged self-locking -/
theorem selfLocking_iff (h : Heap) (m fuel : Nat) (pt : PT) (ha : assemble h m fuel = .ok pt) :
    pt.selfLocking = true ↔
      ∃ i ∈ pt.elements, ∃ e, h[i]? = some e ∧ e.kind = .wormGear ∧ e.selfLocking = some true := by
  unfold assemble at ha
  split at ha
  · simp at ha
  · split_ifs at ha
    dsimp only at ha
    split_ifs at ha
    simp only [Except.ok.injEq] at ha; subst ha
    simp only [List.any_eq_true]
    constructor
    · rintro ⟨i, hi, hcond⟩
      cases he : h[i]? with
      | none => rw [he] at hcond; simp at hcond
      | some e =>
        rw [he] at hcond
        simp only [Bool.and_eq_true, beq_iff_eq] at hcond
        exact ⟨i, hi, e, he, hcond.1, hcond.2⟩
    · rintro ⟨i, hi, e, he, hk, hs⟩
      exact ⟨i, hi, by simp [he, hk, hs]⟩

/-- the assembled element list is the walk from the motor -/
theorem assemble_elements (h : Heap) (m fuel : Nat) (pt : PT) (ha : assemble h m fuel = .ok pt) :
    pt.elements = chainFrom h fuel m ∧ Linked h pt.elements ∧ hasDupNames h pt.elements = false := by
  unfold assemble at ha
  split at ha
  · simp at ha
  · split_ifs at ha with h1 h2
    dsimp only at ha
    split_ifs at ha with h3
    simp only [Except.ok.injEq] at ha; subst ha
    exact ⟨rfl, chain_links h fuel m, by simpa using h3⟩

/-- construction fails if the motor drives nothing (ValueError) or two elements share a name (NameError) -/
theorem assemble_errors (h : Heap) (m fuel : Nat) (em : Elem) (hm : h[m]? = some em) (hk : em.kind = .motor) :
    (em.drives = none → assemble h m fuel = .error .valueE) ∧
    (em.drives ≠ none → hasDupNames h (chainFrom h fuel m) = true → assemble h m fuel = .error .nameE) := by
  constructor
  · intro hd; unfold assemble; simp [hm, hk, hd]
  · intro hd hdup
    unfold assemble
    have : em.drives.isNone = false := by cases hdd : em.drives <;> simp_all
    simp [hm, hk, this, hdup]

/-! ### non-vacuity: motor → spur → spur assembled from a heap with an unrelated fourth element -/
def exHeap : Heap :=
  [ { kind := .motor, name := 0, drives := some 1 }, { kind := .spur, name := 1, teeth := 20, drives := some 2, drivenBy := some 0 },
    { kind := .spur, name := 2, teeth := 40, drivenBy := some 1 }, { kind := .flywheel, name := 3 } ]
example : assemble exHeap 0 5 = .ok { elements := [0, 1, 2], selfLocking := false } := by decide +kernel

/-- the flag looks at the worm gear only — not at what the worm drives in the assembled chain (its wheel may
    have been cut off by a later fixed joint) -/
theorem selfLocking_of_flagged_worm (h : Heap) (m fuel : Nat) (pt : PT) (ha : assemble h m fuel = .ok pt)
    (i : Nat) (hi : i ∈ pt.elements) (e : Elem) (he : h[i]? = some e) (hk : e.kind = .wormGear)
    (hs : e.selfLocking = some true) : pt.selfLocking = true :=
  (selfLocking_iff h m fuel pt ha).mpr ⟨i, hi, e, he, hk, hs⟩

/-- non-vacuity: motor → flagged worm → flywheel; the wheel the worm was mated with (element 3) is no longer driven -/
def exHeapWorm : Heap :=
  [ { kind := .motor, name := 0, drives := some 1 },
    { kind := .wormGear, name := 1, drives := some 2, drivenBy := some 0, selfLocking := some true },
    { kind := .flywheel, name := 2, drivenBy := some 1 },
    { kind := .wormWheel, name := 3, teeth := 30, drivenBy := some 1 } ]
example : assemble exHeapWorm 0 5 = .ok { elements := [0, 1, 2], selfLocking := true } := by decide +kernel

end Gearpy.C20
