import Gearpy.Model.Grid
import Gearpy.Proofs.Units
import Gearpy.Proofs.Solver
import Mathlib.Algebra.Order.Floor.Ring
import Mathlib.Data.Rat.Floor
import Mathlib.Tactic.Positivity
/-!
# The unit-carrying time axis: its SI reading does not depend on the units used
-/

namespace Gearpy
open Kind

variable {T : Tbl}

/-- `dt`, `sim`, `last` are time quantities (`Time` or `TimeInterval`) -/
def IsTime (q : Qty) : Prop := baseOf q.kind = time

theorem time_factor (g : T.Good) {q : Qty} (h : IsTime q) (u : Nat) : T.f q.kind u = T.f time u := by
  rw [g.fam q.kind u, h]

/-- `simulation_time / time_discretization` is the ratio of the SI magnitudes -/
theorem stepRatio_si (g : T.Good) (dt sim : Qty) (hd : IsTime dt) (hs : IsTime sim) :
    stepRatio T dt sim = siMag T sim / siMag T dt := by
  unfold stepRatio
  rw [conv_eq_div g dt sim.unit, time_factor g hd, ← time_factor g hs sim.unit]
  have := ne_of_gt (g.pos sim.kind sim.unit)
  simp only [siMag]
  field_simp

/-- the number of steps depends on the SI magnitudes only -/
theorem nSteps_si (g : T.Good) (dt sim : Qty) (hd : IsTime dt) (hs : IsTime sim) :
    nSteps T dt sim = (siMag T sim / siMag T dt + gridGuard).floor.toNat := by
  unfold nSteps; rw [stepRatio_si g dt sim hd hs]

/-- SI reading of the instants a run appends: the grid `t₀ + i·dt` in SI, whatever units `dt`,
    `T` and the previous final instant are expressed in -/
theorem gridU_si (g : T.Good) (last : Option Qty) (dt sim : Qty) (hd : IsTime dt)
    (hl : ∀ l, last = some l → IsTime l) :
    (gridU T last dt sim).map (siMag T) =
      grid ((last.map (siMag T)).getD 0) (siMag T dt) (nSteps T dt sim) := by
  unfold gridU grid
  rw [List.map_map]
  apply List.map_congr_left
  intro i _
  simp only [Function.comp, siMag]
  have ht : T.f time dt.unit = T.f dt.kind dt.unit := (time_factor g hd dt.unit).symm
  rw [g.fam time dt.unit] at ht
  have hbt : baseOf time = time := rfl
  rw [hbt] at ht
  cases last with
  | none => simp only [Option.map_none, Option.getD_none]; rw [ht]; ring
  | some l =>
    simp only [Option.map_some, Option.getD_some]
    have hc := conv_mul g l dt.unit
    rw [time_factor g (hl l rfl) dt.unit] at hc
    rw [ht] at hc ⊢
    simp only [siMag] at hc
    rw [add_mul, hc]; simp only [siMag]; ring

/-- with `T = n·dt` exactly the run makes exactly `n` steps -/
theorem floor_guard (n : Nat) : ((n : Q) + gridGuard).floor.toNat = n := by
  have h : ((n : Q) + gridGuard).floor = (n : Int) := by
    change ⌊(n : Q) + gridGuard⌋ = (n : Int)
    rw [Int.floor_eq_iff]
    unfold gridGuard
    constructor
    · push_cast; norm_num
    · push_cast; norm_num
  rw [h]; simp

theorem nSteps_exact (g : T.Good) (dt sim : Qty) (hd : IsTime dt) (hs : IsTime sim) (n : Nat)
    (hpos : 0 < siMag T dt) (hT : siMag T sim = (n : Q) * siMag T dt) : nSteps T dt sim = n := by
  rw [nSteps_si g dt sim hd hs, hT]
  have : (n : Q) * siMag T dt / siMag T dt = n := by
    have := ne_of_gt hpos; field_simp
  rw [this]; exact floor_guard n

/-- the axis never overruns `T` by more than the guard: `n·dt ≤ T + 10⁻⁹·dt` -/
theorem nSteps_le (g : T.Good) (dt sim : Qty) (hd : IsTime dt) (hs : IsTime sim)
    (hpos : 0 < siMag T dt) (hsim : 0 ≤ siMag T sim) :
    (nSteps T dt sim : Q) * siMag T dt ≤ siMag T sim + gridGuard * siMag T dt := by
  rw [nSteps_si g dt sim hd hs]
  set x := siMag T sim / siMag T dt + gridGuard with hx
  have hx0 : 0 ≤ x := by
    have : 0 ≤ siMag T sim / siMag T dt := div_nonneg hsim hpos.le
    unfold gridGuard at hx; rw [hx]; linarith
  have hfl : ((x.floor.toNat : Int) : Q) = (x.floor : Q) := by
    have : 0 ≤ x.floor := Int.floor_nonneg.mpr hx0
    rw [Int.toNat_of_nonneg this]
  have h1 : (x.floor : Q) ≤ x := Int.floor_le x
  have : ((x.floor.toNat : Nat) : Q) ≤ x := by
    have h2 : ((x.floor.toNat : Nat) : Q) = ((x.floor.toNat : Int) : Q) := by push_cast; rfl
    rw [h2, hfl]; exact h1
  calc (x.floor.toNat : Q) * siMag T dt ≤ x * siMag T dt := by gcongr
    _ = siMag T sim + gridGuard * siMag T dt := by
        rw [hx]; have := ne_of_gt hpos; field_simp

end Gearpy
