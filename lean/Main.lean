import Gearpy.Model.Units
import Gearpy.Model.Motor
import Gearpy.Model.Solver
import Gearpy.Model.Control
import Gearpy.Model.Grid
import Gearpy.Model.Gears
import Gearpy.Model.Relations
import Gearpy.Model.Record
import Gearpy.Model.Snapshot
import Gearpy.Model.UnitStep
import Gearpy.Model.Pipeline
import Gearpy.Generated.Tables
/-!
# driver — line protocol between the Python harness and the executable model

One request per line on stdin, one response per line on stdout (DESIGN.md appendix B).
Rationals cross the boundary exactly as `num/den`; continuous results are printed as decimal
approximations `<mantissa>e<exp>` with 30 significant digits (the harness compares them with a
relative tolerance anyway, and exact rationals of a 16-step history have thousands of digits).
Unknown or malformed requests answer `bad-op`, never a default value.

Core Lean only: nothing imported here may import Mathlib (the executable would not link).
-/

open Gearpy

/-! ## parsing / printing -/

def parseRat (s : String) : Option Q :=
  match s.splitOn "/" with
  | [n, d] => do let n ← n.toInt?; let d ← d.toNat?; if d == 0 then none else some (mkRat n d)
  | [n] => do let n ← n.toInt?; some (n : Q)
  | _ => none

def showRat (q : Q) : String := s!"{q.num}/{q.den}"

/-- decimal approximation with ~`digits` significant digits: `<int>e<exp>` -/
def approxQ (q : Q) (digits : Nat := 30) : String :=
  if q.num == 0 then "0" else
  let n := q.num.natAbs
  let d := q.den
  let k : Int := (Nat.log2 n : Int) - (Nat.log2 d : Int)
  let e10 : Int := k * 30103 / 100000
  let s : Int := (digits : Int) - e10
  let m : Nat := if s ≥ 0 then n * 10 ^ s.toNat / d else n / (d * 10 ^ (-s).toNat)
  (if q.num < 0 then "-" else "") ++ toString m ++ "e" ++ toString (-s)

def showList (l : List Q) : String := "[" ++ ",".intercalate (l.map approxQ) ++ "]"

def splitNE (s sep : String) : List String := (s.splitOn sep).filter (· ≠ "")

abbrev KV := List (String × String)

def parseKV (ws : List String) : KV := ws.filterMap fun w =>
  match w.splitOn "=" with
  | [k, v] => some (k, v)
  | _ => none

def KV.get (kv : KV) (k : String) : String := (kv.find? (·.1 == k)).map (·.2) |>.getD ""
def KV.q? (kv : KV) (k : String) : Option Q := parseRat (kv.get k)
def KV.q (kv : KV) (k : String) : Q := (kv.q? k).getD 0
def KV.nat (kv : KV) (k : String) : Nat := (kv.get k).toNat?.getD 0
def KV.bool (kv : KV) (k : String) : Bool := kv.get k == "1"

def showBool (b : Bool) : String := if b then "1" else "0"

/-- rational square root by integer Newton (`Nat.sqrt`), ≥ 100 correct bits; `none` for negatives -/
def qsqrt (x : Q) : Option Q :=
  if x < 0 then none
  else if x == 0 then some 0
  else
    let n := x.num.natAbs
    let d := x.den
    -- sqrt(n/d) = sqrt(n*d)/d ; scale n*d by 4^k
    let nd := n * d
    let k := 120 + (Nat.log2 d + 1)
    some (mkRat (Nat.sqrt (nd * 4 ^ k)) (d * 2 ^ k))

/-! ## units -/

def kinds : List (String × Kind) := [("AngularPosition", .angPos), ("Angle", .angle), ("AngularSpeed", .angSpeed),
  ("AngularAcceleration", .angAcc), ("InertiaMoment", .inertia), ("Torque", .torque), ("Time", .time),
  ("TimeInterval", .timeInt), ("Length", .length), ("Surface", .surface), ("Force", .force),
  ("Stress", .stress), ("Current", .current)]

def kindName (k : Kind) : String := (kinds.find? (·.2 == k)).map (·.1) |>.getD "?"
def parseKind (s : String) : Option Kind := (kinds.find? (·.1 == s)).map (·.2)

def T : Tbl := Gen.tbl

/-- `K:v:u` or `num:v` -/
def parseVal (s : String) : Option Val :=
  match s.splitOn ":" with
  | ["num", v] => do some (.n (← parseRat v))
  | [k, v, u] => do some (.q ⟨← parseKind k, ← parseRat v, ← u.toNat?⟩)
  | _ => none

def parseQty (s : String) : Option Qty := match parseVal s with | some (.q x) => some x | _ => none

def showQty (x : Qty) : String := s!"{kindName x.kind}:{showRat x.value}:{x.unit}"
def showVal : Val → String
  | .q x => "ok " ++ showQty x
  | .n x => s!"ok num:{showRat x}"
def showRes : Except Err Val → String | .ok v => showVal v | .error e => s!"err {e.toString}"
def showResQ : Except Err Qty → String | .ok v => "ok " ++ showQty v | .error e => s!"err {e.toString}"

def parseCmp : String → Option Cmp
  | "eq" => some .eq | "ne" => some .ne | "lt" => some .lt | "le" => some .le | "gt" => some .gt | "ge" => some .ge
  | _ => none

def handleUnits (ws : List String) : String :=
  match ws with
  | ["mk", k, v, u] => (do
      let k ← parseKind k; let v ← parseRat v; let u ← u.toNat?
      some (showResQ (mk k v u))).getD "bad-op"
  | ["bin", op, a, b] => (do
      let a ← parseVal a; let b ← parseVal b
      match a, op with
      | .q x, "add" => some (showRes (add T x b))
      | .q x, "sub" => some (showRes (sub T x b))
      | .q x, "mul" => some (showRes (mul T x b))
      | .q x, "div" => some (showRes (div T x b))
      | .n x, "mul" => (match b with | .q y => some (showRes (rmul T x y)) | _ => none)
      | .n _, "add" | .n _, "sub" | .n _, "div" => (match b with | .q _ => some "err TypeError" | _ => none)
      | _, _ => none).getD "bad-op"
  | ["cmp", c, a, b] => (do
      let c ← parseCmp c; let a ← parseQty a; let b ← parseVal b
      some (match cmp T c a b with | .ok r => s!"ok {showBool r}" | .error e => s!"err {e.toString}")).getD "bad-op"
  | ["to", a, u] => (do let a ← parseQty a; let u ← u.toNat?; some (showResQ (toCopy T a u))).getD "bad-op"
  | ["toi", a, u] => (do let a ← parseQty a; let u ← u.toNat?; some ("ok " ++ showQty (toInplace T a u))).getD "bad-op"
  | ["col", k, u, samples] => (do
      let k ← parseKind k; let u ← u.toNat?
      let qs ← (splitNE samples ",").mapM fun (w : String) => match w.splitOn ":" with
        | [v, su] => do some (⟨k, ← parseRat v, ← su.toNat?⟩ : Qty)
        | _ => none
      some ("ok " ++ ",".intercalate ((exportColumn T u qs).map (approxQ ·)))).getD "bad-op"
  | ["neg", a] => (do let a ← parseQty a; some (showResQ (neg a))).getD "bad-op"
  | ["abs", a] => (do let a ← parseQty a; some (showResQ (abs' a))).getD "bad-op"
  | _ => "bad-op"

/-! ## motor -/

def parseMotor (kv : KV) : MotorP :=
  { w0 := kv.q "w0", tmax := kv.q "tmax",
    cur := match kv.q? "i0", kv.q? "imax" with
      | some a, some b => some (a, b)
      | _, _ => none }

def handleMotor (ws : List String) : String :=
  match ws with
  | "torque" :: rest =>
      let kv := parseKV rest
      "ok " ++ approxQ (torque (parseMotor kv) (kv.q "w") (kv.q "D"))
  | "current" :: rest =>
      let kv := parseKV rest
      (match current (parseMotor kv) (kv.q "D") (kv.q "T") with
       | some c => "ok " ++ approxQ c
       | none => "none")
  | "ctor" :: rest =>
      let kv := parseKV rest
      (match motorCtor (kv.q "w0") (kv.q "tmax") (kv.q? "i0") (kv.q? "imax") (kv.bool "ge") with
       | .ok _ => "ok"
       | .error e => s!"err {e.toString}")
  | "setpwm" :: v :: [] => (match parseRat v with
      | some p => (match setPwm p with | .ok _ => "ok" | .error e => s!"err {e.toString}")
      | none => "bad-op")
  | _ => "bad-op"

/-! ## solver -/

def parseCtx (ex tol : String) : Option CmpCtx := do some { exact := ex == "1", tol := ← parseRat tol }

def parseLinks (s : String) : List Link := (splitNE s ";").filterMap fun w =>
  match w.splitOn ":" with
  | [r, e, j, sp] => do some { ratio := ← parseRat r, eff := ← parseRat e, inertia := ← parseRat j, spur := sp == "1" }
  | _ => none

/-- `C:start:dur:val:ex1:tol1:ex2:tol2`, `R:idx:target:brk:ex:tol`, `P:idx:target:mult:pmin|-:ex:tol`,
    `L:eidx:tidx:target:ilim:ex:tol` -/
def parseRule (w : String) : Option Rule :=
  match w.splitOn ":" with
  | ["C", s, d, v, e1, t1, e2, t2] => do
      some (.constant (← parseCtx e1 t1) (← parseCtx e2 t2) (← parseRat s) (← parseRat d) (← parseRat v))
  | ["R", i, t, b, e, tl] => do some (.reach (← parseCtx e tl) (← i.toNat?) (← parseRat t) (← parseRat b))
  | ["P", i, t, m, p, e, tl] => do
      some (.startProp (← parseCtx e tl) (← i.toNat?) (← parseRat t) (← parseRat m) (parseRat p))
  | ["L", ei, ti, t, il, e, tl] => do
      some (.startLimit (← parseCtx e tl) (← ei.toNat?) (← ti.toNat?) (← parseRat t) (← parseRat il))
  | _ => none

def parseSensor (s i : String) : Option Sensor :=
  match s with
  | "enc" => do some (.encoder (← i.toNat?))
  | "tac" => do some (.tachometer (← i.toNat?))
  | "amp" => some .amperometer
  | _ => none

/-- `sensor,idx,op,threshold,exact,tol` -/
def parseStop (s : String) : Option (Rec → Bool) :=
  match s.splitOn "," with
  | [sen, i, op, thr, ex, tl] => do
      let sen ← parseSensor sen i; let op ← parseCmp op; let thr ← parseRat thr; let cx ← parseCtx ex tl
      some (stopCond cx sen op thr)
  | _ => none

/-- load on the last element: `a + b·p + c·v + d·t + e·v·|v|` -/
def parseLoad (s : String) : Q → Q → Q → Q :=
  let cs := (s.splitOn ",").filterMap parseRat
  fun p v t => cs.getD 0 0 + cs.getD 1 0 * p + cs.getD 2 0 * v + cs.getD 3 0 * t + cs.getD 4 0 * v * qabs v

def parseRole : String → Option Role
  | "master" => some .master | "slave" => some .slave | _ => none

/-- `role,d|-,k,den|-,contact|-,mm,me` with contact = `E1~E2~d1~d2~b~sinA~cosA~cosB` -/
def parseGearSim (w : String) : Option GearSim :=
  match w.splitOn "," with
  | [role, d, k, den, ct, mm, me] =>
      let force : Option (Q × Q) := match parseRat d, parseRat k with
        | some d, some k => some (d, k)
        | _, _ => none
      let contactP : Option (Q × Q × Q × Q × Q × Q × Q × Q) :=
        match (ct.splitOn "~").filterMap parseRat with
        | [a, b, c, d1, e, f, g, h] => some (a, b, c, d1, e, f, g, h)
        | _ => none
      some { role := parseRole role, force, bendingDen := parseRat den, contactP, mateModule := mm == "1", mateModulus := me == "1" }
  | _ => none

def parseCfg (kv : KV) : Cfg :=
  let links := parseLinks (kv.get "links")
  let m := parseMotor kv
  let rulesS := kv.get "rules"
  let env : CtlEnv := { motor := m, eff := ctlEff links, sqrt := qsqrt }
  { J0 := kv.q "J0", links, sl := kv.bool "sl", tolW := kv.q "tolW", tolT := kv.q "tolT",
    motorTorque := torque m, motorCurrent := current m, load := parseLoad (kv.get "load"),
    control := if rulesS == "-" || rulesS == "" then none
               else some (pwmControl env ((splitNE rulesS ";").filterMap parseRule)),
    gears := (splitNE (kv.get "gears") ";").filterMap parseGearSim }

/-- `run,dt,n[,stop…]` | `reset` | `init,p,v` | `pwm,v` | `new` -/
def parseOp (s : String) : Option Op :=
  match s.splitOn "," with
  | ["run", dt, n] => do some (.run (← parseRat dt) (← n.toNat?) none)
  | "run" :: dt :: n :: stop => do some (.run (← parseRat dt) (← n.toNat?) (some (← parseStop (",".intercalate stop))))
  | ["reset"] => some .reset
  | ["init", p, v] => do some (.setInitial (← parseRat p) (← parseRat v))
  | ["pwm", v] => do some (.setPwm (← parseRat v))
  | ["new"] => some .newSolver
  | _ => none

def showOptList (l : List (Option Q)) : String :=
  "[" ++ ",".intercalate (l.map fun | some x => approxQ x | none => "-") ++ "]"

def showRec (r : Rec) : String :=
  s!"{approxQ r.time} {showList r.pos} {showList r.speed} {showList r.acc} {showList r.dtorque} " ++
  s!"{showList r.ltorque} {showList r.torque} {approxQ r.pwm} " ++
  (match r.current with | some c => approxQ c | none => "-") ++ s!" {showBool r.locked} " ++
  showOptList r.force ++ " " ++ showOptList r.bending ++ " " ++ showOptList r.contactSq

/-- execute the ops one by one so that an error reports how far the history got -/
def execReport (c : Cfg) : List Op → St → Nat → St × Option (Nat × Err)
  | [], s, _ => (s, none)
  | o :: os, s, i => match applyOp c s o with
    | .error e => (s, some (i, e))
    | .ok s' => execReport c os s' (i + 1)

def runHist (c : Cfg) (kv : KV) : String :=
  let opsS := splitNE (kv.get "ops") ";"
  let ops := opsS.filterMap parseOp
  if ops.length ≠ opsS.length then "bad-op" else
  let s0 : St := { St.init (kv.q "pos") (kv.q "speed") with pwm := (kv.q? "pwm0").getD 1 }
  let (s, err) := execReport c ops s0 0
  let head := match err with
    | none => s!"ok locked={showBool s.locked}"
    | some (i, e) => s!"err {e.toString} at={i} locked={showBool s.locked}"
  head ++ " | " ++ " | ".intercalate (s.recs.map showRec)

def handleSolver (ws : List String) : String :=
  match ws with
  | "hist" :: rest =>
      let kv := parseKV rest
      let c := parseCfg kv
      let opsS := splitNE (kv.get "ops") ";"
      let ops := opsS.filterMap parseOp
      if ops.length ≠ opsS.length then "bad-op" else
      let s0 : St := { St.init (kv.q "pos") (kv.q "speed") with pwm := (kv.q? "pwm0").getD 1 }
      let (s, err) := execReport c ops s0 0
      let head := match err with
        | none => s!"ok locked={showBool s.locked}"
        | some (i, e) => s!"err {e.toString} at={i} locked={showBool s.locked}"
      head ++ " | " ++ " | ".intercalate (s.recs.map showRec)
  | "step" :: rest =>
      -- lock-step: one `stepAt` from an observed state
      let kv := parseKV rest
      let c := parseCfg kv
      let first : List Rec := match kv.q? "fl0" with
        | some x => [{ (default : Rec) with ltorque := [x] }]
        | none => []
      let s : St := { recs := first, pos := kv.q "pos", speed := kv.q "speed", acc := kv.q "acc",
                      mtorque := kv.q? "mtorque", pwm := kv.q "pwm", locked := kv.bool "locked" }
      let r := if kv.bool "initial" then compute c { s with locked := false } (kv.q "t") else stepAt c (kv.q "dt") s (kv.q "t")
      (match r with
       | .error e => s!"err {e.toString}"
       | .ok s' => match s'.recs.getLast? with
         | some r => s!"ok {showRec r}"
         | none => "bad-op")
  | "inertia" :: rest =>
      let kv := parseKV rest
      "ok " ++ approxQ (inertia (parseCfg kv))
  | _ => "bad-op"

/-! ## control: one application of a rule set on an observed state -/

def handleControl (ws : List String) : String :=
  let kv := parseKV ws
  let links := parseLinks (kv.get "links")
  let env : CtlEnv := { motor := parseMotor kv, eff := ctlEff links, sqrt := qsqrt }
  let rulesS := splitNE (kv.get "rules") ";"
  let rules := rulesS.filterMap parseRule
  if rules.length ≠ rulesS.length then "bad-op" else
  let rl (k : String) : List Q := ((kv.get k).splitOn ",").filterMap parseRat
  let i : CtlIn := { time := kv.q "t", pos := rl "pos", speed := rl "speed", load0 := kv.q "load0", firstLoad0 := kv.q "fl0" }
  match applyAll env i rules with
  | .error e => s!"err {e.toString}"
  | .ok ps =>
    let showP : Proposal → String
      | none => "-"
      | some none => "nan"
      | some (some v) => approxQ v
    let res := match arbitrate ps with
      | .ok v => s!"ok {approxQ v}"
      | .error e => s!"err {e.toString}"
    res ++ " props=" ++ ",".intercalate (ps.map showP)

/-! ## time grid (unit-carrying) -/

def handleGrid (ws : List String) : String :=
  let kv := parseKV ws
  match parseQty (kv.get "dt"), parseQty (kv.get "sim") with
  | some dt, some sim =>
    let last := parseQty (kv.get "last")
    if !runArgsOk T dt sim then "err ValueError" else
    let g := gridU T last dt sim
    let lastS := match g.getLast? with | some x => approxQ (siMag T x) | none => "-"
    s!"ok n={g.length} last={lastS} unit={dt.unit} first=" ++
      (match g.head? with | some x => approxQ (siMag T x) | none => "-")
  | _, _ => "bad-op"

/-! ## gears -/


def showEQ : Except Err Q → String
  | .ok v => "ok " ++ approxQ v
  | .error e => s!"err {e.toString}"

def handleGears (ws : List String) : String :=
  match ws with
  | "lewis" :: z :: [] => (match parseRat z with
      | some z => "ok " ++ approxQ (interpClamp Gen.lewisTable z)
      | none => "bad-op")
  | "force" :: rest =>
      let kv := parseKV rest
      showEQ (tangentialForce (parseRole (kv.get "role")) (kv.q "dT") (kv.q "lT") (kv.q "d"))
  | "wormforce" :: rest =>
      let kv := parseKV rest
      showEQ (wormGearForce (parseRole (kv.get "role")) (kv.q "dT") (kv.q "lT") (kv.q "d") (kv.q "tanB"))
  | "bending" :: rest =>
      let kv := parseKV rest
      "ok " ++ approxQ (bendingStress (kv.q "F") (kv.q "m") (kv.q "b") (kv.q "Y"))
  | "wormbending" :: rest =>
      let kv := parseKV rest
      "ok " ++ approxQ (wormWheelBending (kv.q "F") Gen.pi (kv.q "dw") (kv.q "sinB") (kv.nat "z") (kv.q "b") (kv.q "Y"))
  | "contactsq" :: rest =>
      let kv := parseKV rest
      (match contactMate (parseRole (kv.get "role")) (kv.bool "mm") (kv.bool "me") with
       | .error e => s!"err {e.toString}"
       | .ok _ => "ok " ++ approxQ (contactStressSq (kv.q "F") (kv.q "E1") (kv.q "E2") (kv.q "d1") (kv.q "d2")
                    (kv.q "b") (kv.q "sinA") (kv.q "cosA") (kv.q "cosB")))
  | "wormrow" :: a :: [] => (match parseRat a with
      -- table row whose pressure angle (deg) is nearest: (max helix [deg], Lewis factor)
      | some a => (match Gen.wormTable.find? (fun r => qabs (r.1 - a) < 1 / 1000000) with
          | some r => s!"ok {approxQ r.2.1} {approxQ r.2.2}"
          | none => "none")
      | none => "bad-op")
  | _ => "bad-op"

/-! ## relations / assembly / recording -/

def parseEK : String → Option EK
  | "motor" => some .motor | "flywheel" => some .flywheel | "spur" => some .spur | "helical" => some .helical
  | "wormGear" => some .wormGear | "wormWheel" => some .wormWheel | _ => none

def ekName : EK → String
  | .motor => "motor" | .flywheel => "flywheel" | .spur => "spur" | .helical => "helical"
  | .wormGear => "wormGear" | .wormWheel => "wormWheel"

/-- element: `kind,name,teeth,module|-,helix|-,pressure|-,cosA,tanB,m,b,E,refDiam` (quantities as `K:v:u`) -/
def parseElem (s : String) : Option Elem :=
  match s.splitOn "," with
  | [k, nm, z, mo, hx, pa, ca, tb, dm, db, de, rd] => do
      let data : GearData := ⟨dm == "1", db == "1", de == "1"⟩
      let k ← parseEK k
      some { kind := k, name := ← nm.toNat?, teeth := ← z.toNat?, module := parseQty mo, helix := parseQty hx,
             pressure := parseQty pa, cosA := ← parseRat ca, tanB := ← parseRat tb, data, refDiam := rd == "1",
             bendingKey := k == .wormWheel && bendingComputable data }
  | _ => none

def parseDecl (s : String) : Option Decl :=
  match s.splitOn "," with
  | ["gear", m, sl, e] => do some (.gear (← m.toNat?) (← sl.toNat?) (← parseRat e))
  | ["worm", m, sl, f] => do some (.worm (← m.toNat?) (← sl.toNat?) (← parseRat f))
  | ["joint", m, sl] => do some (.joint (← m.toNat?) (← sl.toNat?))
  | _ => none

def showOptNat : Option Nat → String | some n => toString n | none => "-"
def showElemState (e : Elem) : String :=
  s!"{showOptNat e.drives},{showOptNat e.drivenBy}," ++
  (match e.role with | some .master => "master" | some .slave => "slave" | none => "-") ++ "," ++
  (match e.ratio with | some r => approxQ r | none => "-") ++ "," ++ approxQ e.eff ++ "," ++
  (match e.selfLocking with | some b => showBool b | none => "-") ++ "," ++ showBool e.bendingKey

def handleRel (ws : List String) : String :=
  let kv := parseKV ws
  let elS := splitNE (kv.get "elems") ";"
  let els := elS.filterMap parseElem
  let dS := splitNE (kv.get "decls") ";"
  let ds := dS.filterMap parseDecl
  if els.length ≠ elS.length || ds.length ≠ dS.length then "bad-op" else
  -- run the declarations one at a time, reporting each outcome and whether the heap changed
  let rec go (h : Heap) (ds : List Decl) (acc : List String) : Heap × List String :=
    match ds with
    | [] => (h, acc.reverse)
    | d :: rest =>
      let (h', e) := d.run T h
      let out := match e with
        | none => "ok"
        | some err => s!"err:{err.toString}:" ++ (if h' == h then "unchanged" else "changed")
      go h' rest (out :: acc)
  let (h, outs) := go els ds []
  let asm := match kv.get "motor" with
    | "" => ""
    | m => " pt=" ++ (match assemble h (m.toNat?.getD 0) (h.length + 1) with
        | .error e => s!"err:{e.toString}"
        | .ok pt => s!"ok:{",".intercalate (pt.elements.map toString)}:{showBool pt.selfLocking}")
  "ok res=" ++ ";".intercalate outs ++ " heap=" ++ ";".intercalate (h.map showElemState) ++ asm

/-- `kind,m,b,E,refDiam,hasCurrent,mate(-|0|1)` -/
def parseInfo (s : String) : Option ElemInfo :=
  match s.splitOn "," with
  | [k, dm, db, de, rd, hc, mate] => do
      some { kind := ← parseEK k, data := ⟨dm == "1", db == "1", de == "1"⟩, refDiam := rd == "1", hasCurrent := hc == "1",
             mateRefDiam := if mate == "-" then none else some (mate == "1") }
  | _ => none

def parseVar (s : String) : Option Var := Var.all.find? (·.name == s.replace "_" " ")

def handleRecord (ws : List String) : String :=
  let kv := parseKV ws
  match parseInfo (kv.get "elem") with
  | none => "bad-op"
  | some e =>
    let ops : List RecOp := (splitNE (kv.get "ops") ",").filterMap fun
      | "u" => some .update | "r" => some .reset | _ => none
    let (n, tv) := recRun e ops (0, TV.init e)
    let req : Option (List Var) := match kv.get "req" with
      | "" | "-" => none
      | s => some ((splitNE s ",").filterMap parseVar)
    s!"ok n={n} tv=" ++ ",".intercalate (Var.all.map fun v => match tv v with | some k => toString k | none => "-") ++
      " snap=" ++ ",".intercalate (Var.all.map fun v => showBool (snapshotReports e req v))

def handleInterp (ws : List String) : String :=
  let kv := parseKV ws
  let rl (k : String) : List Q := ((kv.get k).splitOn ",").filterMap parseRat
  match interp (rl "ts") (rl "ys") (kv.q "t") with
  | some v => "ok " ++ approxQ (cell v ((kv.q? "f").getD 1))
  | none => "none"

/-! ## declarations -> assembly -> simulation, all inside the model -/

def handlePipe (rest : List String) : String :=
      let kv := parseKV rest
      let elS := splitNE (kv.get "elems") ";"
      let els := elS.filterMap parseElem
      let dS := splitNE (kv.get "decls") ";"
      let ds := dS.filterMap parseDecl
      if els.length ≠ elS.length || ds.length ≠ dS.length then "bad-op" else
      let js := ((kv.get "inertias").splitOn ",").filterMap parseRat
      (match assembleLinks T els ds 0 (fun i => js.getD i 0) with
       | .error e => s!"err {e.toString} at=assembly"
       | .ok (chain, links, sl) =>
         let base := parseCfg kv
         let m := parseMotor kv
         let rulesS := kv.get "rules"
         let env : CtlEnv := { motor := m, eff := ctlEff links, sqrt := qsqrt }
         let ctl : Option (CtlIn → Except Err Q) :=
           if rulesS == "-" || rulesS == "" then none
           else some (pwmControl env ((splitNE rulesS ";").filterMap parseRule))
         let c : Cfg := { base with J0 := js.getD 0 0, links := links, sl := sl, control := ctl }
         s!"chain={",".intercalate (chain.map toString)} " ++ runHist c kv)

/-! ## unit-level solver arithmetic -/

def handleUStep (ws : List String) : String :=
  let kv := parseKV ws
  match kv.get "op" with
  | "integrate" =>
    (match parseQty (kv.get "pos"), parseQty (kv.get "speed"), parseQty (kv.get "acc"), parseQty (kv.get "dt") with
     | some p, some v, some a, some d =>
       (match integrateU T p v a d with
        | .ok (p', v') => s!"ok {showQty p'} {showQty v'}"
        | .error e => s!"err {e.toString}")
     | _, _, _, _ => "bad-op")
  | "acc" =>
    (match parseQty (kv.get "torque"), parseQty (kv.get "inertia") with
     | some t, some j => showResQ (accelerationU T t j)
     | _, _ => "bad-op")
  | "transmit" =>
    (match parseRat (kv.get "ratio"), parseQty (kv.get "x") with
     | some r, some x => showResQ (transmitU T r x)
     | _, _ => "bad-op")
  | _ => "bad-op"

/-! ## dispatch -/

def handle (line : String) : String :=
  match splitNE line.trimAscii.toString " " with
  | "u" :: rest => handleUnits rest
  | "m" :: rest => handleMotor rest
  | "s" :: "pipe" :: rest => handlePipe rest
  | "s" :: rest => handleSolver rest
  | "k" :: rest => handleControl rest
  | "grid" :: rest => handleGrid rest
  | "g" :: rest => handleGears rest
  | "r" :: rest => handleRel rest
  | "t" :: rest => handleRecord rest
  | "i" :: rest => handleInterp rest
  | "us" :: rest => handleUStep rest
  | ["ping"] => "pong"
  | _ => "bad-op"

partial def loopIO (h : IO.FS.Stream) (out : IO.FS.Stream) : IO Unit := do
  let line ← h.getLine
  if line.isEmpty then return ()
  out.putStrLn (handle line)
  loopIO h out

def main : IO Unit := do
  let stdin ← IO.getStdin
  let stdout ← IO.getStdout
  loopIO stdin stdout
