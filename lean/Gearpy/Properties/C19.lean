import Gearpy.Proofs.Units
import Gearpy.Model.Motor
import Gearpy.Generated.Tables
import Gearpy.Proofs.GenTable
/-!
# C19 — sign-constrained quantities and parameters can never be invalid

* `Prog` is a straight-line program over a store of live quantities with the operations
  {construct, + − × ÷ (quantity or number operand), abs, neg, `to`, in-place `to`}; an operation
  that raises leaves the store as it was, in-place conversion overwrites the object in the store.
* `valid_inv`: after **every** step of **every** program (any length), every live object satisfies
  its kind's sign constraint.  Each operation returns through a constructor (`result_valid`) or,
  for in-place `to`, multiplies a valid value by a positive ratio (`toInplace_valid`).
* `mk_error_nonpos` (with `sub_none_unreachable`): when the constructor inside `−` rejects, the
  difference is ≤ 0, so the `try/except` of `UnitBase.__sub__` always re-raises: the fall-through
  `None` is unreachable.
* constructor decision logic as `iff`: `mk_ok_iff`, `motorCtor_ok_iff`, `setPwm_ok_iff`,
  `teeth_ok_iff`.
In floats an in-place conversion can underflow to `0.0` (known finding K4): invisible in ℚ.
-/

namespace Gearpy.C19
open Gearpy Gearpy.Kind

variable {T : Tbl}

def Valid (q : Qty) : Prop := signOk q.kind q.value = true

/-- the constructor accepts exactly the values allowed by the kind's sign constraint -/
theorem mk_ok_iff (k : Kind) (v : Q) (u : Nat) :
    (∃ r, mk k v u = .ok r) ↔
      (match k with
       | angle => 0 ≤ v
       | timeInt | inertia | length | surface => 0 < v
       | _ => True) := by
  cases k <;> simp [mk, signOk] <;> split <;> simp_all

theorem mk_valid {k v u} {r : Qty} (h : mk k v u = .ok r) : Valid r := by
  simp only [mk_eq_ok] at h; rw [h.2]; exact h.1

/-- when the constructor rejects a value, the value is not positive -/
theorem mk_error_nonpos {k v u} {e : Err} (h : mk k v u = .error e) : v ≤ 0 := by
  simp only [mk_eq_err] at h
  have := h.1
  cases k <;> simp [signOk] at this <;> linarith

/-- `UnitBase.__sub__` can never fall through to `None`: whenever the inner constructor raises, the
    guard `difference <= 0` of the `except` branch holds, so the error is re-raised -/
theorem sub_none_unreachable (a o : Qty) (e : Err)
    (h : mk a.kind (a.value - conv T o a.unit) a.unit = .error e) : a.value - conv T o a.unit ≤ 0 :=
  mk_error_nonpos h

theorem map_mk_valid {k v u} {r : Qty} (h : (mk k v u).map Val.q = .ok (.q r)) : Valid r := by
  simp only [mk_map_eq_ok, Val.q.injEq] at h; rw [h.2]; exact h.1

/-- whatever quantity a binary operation returns is valid -/
theorem add_valid (a : Qty) (b : Val) (r : Qty) (h : add T a b = .ok (.q r)) : Valid r := by
  cases b with
  | n x => simp [add] at h
  | q o =>
    unfold add at h; simp only at h
    split at h
    · simp at h
    · split at h
      · simp at h
      · rename_i r1 hm
        split at h
        · split at h
          · simp only [Except.ok.injEq, Val.q.injEq] at h; subst h; exact mk_valid hm
          · exact map_mk_valid h
        · simp only [Except.ok.injEq, Val.q.injEq] at h; subst h; exact mk_valid hm

theorem sub_valid (a : Qty) (b : Val) (r : Qty) (h : sub T a b = .ok (.q r)) : Valid r := by
  cases b with
  | n x => simp [sub] at h
  | q o =>
    unfold sub at h; simp only at h
    split at h
    · simp at h
    · split at h
      · simp at h
      · rename_i r1 hm
        split at h
        · split at h
          · simp only [Except.ok.injEq, Val.q.injEq] at h; subst h; exact mk_valid hm
          · exact map_mk_valid h
        · simp only [Except.ok.injEq, Val.q.injEq] at h; subst h; exact mk_valid hm

theorem mul_valid (a : Qty) (b : Val) (r : Qty) (h : mul T a b = .ok (.q r)) : Valid r := by
  obtain ⟨ka, va, ua⟩ := a
  cases b with
  | n x =>
    unfold mul at h
    cases ka <;> simp at h <;> (try split at h) <;> simp_all [Valid]
  | q o =>
    obtain ⟨ko, vo, uo⟩ := o
    cases ka <;> cases ko <;> simp [mul, isInst, baseOf] at h <;> simp_all [Valid]

theorem div_valid (a : Qty) (b : Val) (r : Qty) (h : div T a b = .ok (.q r)) : Valid r := by
  obtain ⟨ka, va, ua⟩ := a
  cases b with
  | n x =>
    unfold div at h; simp only at h
    split at h
    · simp at h
    · exact map_mk_valid h
  | q o =>
    obtain ⟨ko, vo, uo⟩ := o
    unfold div at h; simp only at h
    split at h
    · simp at h
    · cases ka <;> cases ko <;> simp [sameFamily, isInst, baseOf] at h <;> simp_all [Valid]

/-- in-place conversion keeps the sign constraint (factors are positive) -/
theorem toInplace_valid (g : T.Good) (a : Qty) (u : Nat) (h : Valid a) : Valid (toInplace T a u) := by
  have hp := g.pos a.kind a.unit; have hq := g.pos a.kind u
  unfold Valid at *
  unfold toInplace conv; simp only
  split
  · exact h
  · cases hk : a.kind <;> simp_all [signOk]
    · exact div_nonneg (mul_nonneg h hp.le) hq.le
    all_goals exact div_pos (mul_pos h hp) hq

/-- operations of a straight-line program; operands are indices into the store -/
inductive POp
  | new (k : Kind) (v : Q) (u : Nat)
  | add (i j : Nat) | sub (i j : Nat) | mul (i j : Nat) | div (i j : Nat)
  | mulN (i : Nat) (x : Q) | rmulN (x : Q) (i : Nat) | divN (i : Nat) (x : Q)
  | abs (i : Nat) | neg (i : Nat)
  | toC (i : Nat) (u : Nat) | toI (i : Nat) (u : Nat)
  | drop (i : Nat)

def push (s : List Qty) : Except Err Val → List Qty
  | .ok (.q r) => s ++ [r]
  | _ => s

def pushQ (s : List Qty) : Except Err Qty → List Qty
  | .ok r => s ++ [r]
  | _ => s

/-- one program step; an operation that raises (or returns a plain number) leaves the store as it was -/
def step (T : Tbl) (s : List Qty) : POp → List Qty
  | .new k v u => pushQ s (mk k v u)
  | .add i j => match s[i]?, s[j]? with | some a, some b => push s (Gearpy.add T a (.q b)) | _, _ => s
  | .sub i j => match s[i]?, s[j]? with | some a, some b => push s (Gearpy.sub T a (.q b)) | _, _ => s
  | .mul i j => match s[i]?, s[j]? with | some a, some b => push s (Gearpy.mul T a (.q b)) | _, _ => s
  | .div i j => match s[i]?, s[j]? with | some a, some b => push s (Gearpy.div T a (.q b)) | _, _ => s
  | .mulN i x => match s[i]? with | some a => push s (Gearpy.mul T a (.n x)) | none => s
  | .rmulN x i => match s[i]? with | some a => push s (Gearpy.rmul T x a) | none => s
  | .divN i x => match s[i]? with | some a => push s (Gearpy.div T a (.n x)) | none => s
  | .abs i => match s[i]? with | some a => pushQ s (abs' a) | none => s
  | .neg i => match s[i]? with | some a => pushQ s (Gearpy.neg a) | none => s
  | .toC i u => match s[i]? with | some a => pushQ s (toCopy T a u) | none => s
  | .toI i u => s.modify i (fun a => Gearpy.toInplace T a u)
  | .drop i => s.eraseIdx i

def AllValid (s : List Qty) : Prop := ∀ q ∈ s, Valid q

theorem push_valid (s : List Qty) (r : Except Err Val) (hs : AllValid s)
    (hr : ∀ q, r = .ok (.q q) → Valid q) : AllValid (push s r) := by
  cases r with
  | error e => exact hs
  | ok v =>
    cases v with
    | n x => exact hs
    | q q =>
      intro x hx
      rcases List.mem_append.mp hx with h | h
      · exact hs x h
      · simp at h; rw [h]; exact hr q rfl

theorem pushQ_valid (s : List Qty) (r : Except Err Qty) (hs : AllValid s)
    (hr : ∀ q, r = .ok q → Valid q) : AllValid (pushQ s r) := by
  cases r with
  | error e => exact hs
  | ok q =>
    intro x hx
    rcases List.mem_append.mp hx with h | h
    · exact hs x h
    · simp at h; rw [h]; exact hr q rfl

/-- one step keeps every live object valid -/
theorem step_valid (g : T.Good) (s : List Qty) (op : POp) (hs : AllValid s) : AllValid (step T s op) := by
  cases op with
  | new k v u => exact pushQ_valid s _ hs (fun q h => mk_valid h)
  | add i j => simp only [step]; split
               · exact push_valid s _ hs (fun q h => add_valid _ _ q h)
               · exact hs
  | sub i j => simp only [step]; split
               · exact push_valid s _ hs (fun q h => sub_valid _ _ q h)
               · exact hs
  | mul i j => simp only [step]; split
               · exact push_valid s _ hs (fun q h => mul_valid _ _ q h)
               · exact hs
  | div i j => simp only [step]; split
               · exact push_valid s _ hs (fun q h => div_valid _ _ q h)
               · exact hs
  | mulN i x => simp only [step]; split
                · exact push_valid s _ hs (fun q h => mul_valid _ _ q h)
                · exact hs
  | rmulN x i => simp only [step]; split
                 · exact push_valid s _ hs (fun q h => mul_valid _ _ q h)
                 · exact hs
  | divN i x => simp only [step]; split
                · exact push_valid s _ hs (fun q h => div_valid _ _ q h)
                · exact hs
  | abs i => simp only [step]; split
             · exact pushQ_valid s _ hs (fun q h => mk_valid h)
             · exact hs
  | neg i => simp only [step]; split
             · exact pushQ_valid s _ hs (fun q h => mk_valid h)
             · exact hs
  | toC i u =>
      simp only [step]; split
      · exact pushQ_valid s _ hs (fun q h => mk_valid h)
      · exact hs
  | toI i u =>
      simp only [step]
      intro q hq
      rw [List.mem_iff_getElem] at hq
      obtain ⟨n, hn, rfl⟩ := hq
      rw [List.getElem_modify]
      have hn' : n < s.length := by simpa using hn
      split
      · exact toInplace_valid g _ u (hs _ (List.getElem_mem hn'))
      · exact hs _ (List.getElem_mem hn')
  | drop i => simp only [step]; intro q hq; exact hs q (List.mem_of_mem_eraseIdx hq)

/-- C19: after every step of every straight-line program every live object is valid -/
theorem valid_inv (g : T.Good) (ops : List POp) (s : List Qty) (hs : AllValid s) :
    AllValid (ops.foldl (step T) s) := by
  induction ops generalizing s with
  | nil => exact hs
  | cons o os ih => exact ih _ (step_valid g s o hs)

/-- … in particular at every intermediate point of the program -/
theorem valid_inv_prefix (g : T.Good) (ops₁ ops₂ : List POp) :
    AllValid ((ops₁).foldl (step T) []) ∧ AllValid ((ops₁ ++ ops₂).foldl (step T) []) :=
  ⟨valid_inv g ops₁ [] (by intro q h; simp at h), valid_inv g _ [] (by intro q h; simp at h)⟩

/-! ### component constructors -/

/-- the motor constructor accepts exactly: positive no-load speed and maximum torque, non-negative
    no-load current, positive maximum current, no-load current below the maximum current -/
theorem motorCtor_ok_iff (w0 tmax : Q) (i0 imax : Option Q) (ge : Bool) :
    motorCtor w0 tmax i0 imax ge = .ok () ↔
      0 < w0 ∧ 0 < tmax ∧ (∀ x, i0 = some x → 0 ≤ x) ∧ (∀ x, imax = some x → 0 < x) ∧
      ¬ (i0.isSome = true ∧ imax.isSome = true ∧ ge = true) := by
  unfold motorCtor
  cases i0 <;> cases imax <;> cases ge <;> simp <;> split_ifs <;> simp_all <;> (try constructor) <;> (try linarith)

/-- the duty-cycle setter accepts exactly [-1, 1] -/
theorem setPwm_ok_iff (p : Q) : (∃ r, setPwm p = .ok r) ↔ -1 ≤ p ∧ p ≤ 1 := by
  unfold setPwm; split <;> simp_all

/-- gear constructors: teeth number at least the first tabulated one -/
def teethOk (z : Int) : Bool := decide ((Gen.minTeeth : Int) ≤ z)
theorem teeth_ok_iff (z : Int) : teethOk z = true ↔ (Gen.minTeeth : Int) ≤ z := by simp [teethOk]

/-- the tabulated minimum is the first row of the Lewis table -/
theorem minTeeth_is_first_row : (Gen.lewisTable.head?.map (·.1)) = some (Gen.minTeeth : Q) := by
  decide +kernel

/-! ### non-vacuity -/
example : AllValid ([POp.new length 3 0, POp.new length 2 1, POp.sub 0 1, POp.toI 0 3].foldl (step Gen.tbl) []) :=
  valid_inv gen_good _ _ (by intro q h; simp at h)

end Gearpy.C19
