#!/usr/bin/env python3
"""Writes MANIFEST.json from the table below (keeps the 20 entries consistent)."""
import json, os
HERE = os.path.dirname(os.path.abspath(__file__))
VERIF = os.path.dirname(HERE)
props = [json.loads(l) for l in open(os.path.join(VERIF, 'properties.jsonl'))]
ids = [p['id'] for p in props]

# id -> (technique, level text, level note, design ref)
CLAIMED = {
 'C06': ('Lean 4 proof: finite kind skeleton (case analysis) + SI congruence (field reasoning); exhaustive cell-by-cell correspondence',
         'Theorems over the unit-carrying model: every returned result has the kind dimensional analysis dictates (binop_kind, all 14x14x4 cells), its SI magnitude is the sum/product/quotient of the operands\' for every unit choice and every rational value (add_si, mul_si, div_si, div_num_si), (a+b)-b = a, a-b = -(b-a); subtraction proved with exactly the two K2 call sites excluded and the negation proved by witness. The model is tied to the code by running every cell x units x magnitudes on both.',
         'Exact rationals instead of IEEE doubles (rounding not modelled); model hand-written and tied by the correspondence harness; unit factors regenerated from the source each run.',
         '6 C06'),
}
NOT_YET = 'check not built yet in this revision of the framework (the property is decidable by the technique; see DESIGN.md section 6)'

checks = []
for pid in ids:
    if pid in CLAIMED:
        tech, text, note, ref = CLAIMED[pid]
        checks.append({
            'property_id': pid,
            'quick_cmd': f'/venv/bin/python tools/check.py {pid} --tier quick',
            'thorough_cmd': f'/venv/bin/python tools/check.py {pid} --tier thorough',
            'evidence_file': f'evidence/{pid}.json',
            'replay_cmd_template': f'/venv/bin/python tools/check.py {pid} --replay {{path}}',
            'engine': 'lean-model+correspondence',
            'level_claimed': {'category': 'proof', 'text': text, 'design_ref': ref},
            'level_note': note,
            'technique': tech,
        })
manifest = {
 'version': 1,
 'setup_cmd': 'bash tools/setup.sh',
 'hooks': {'guard': 'GEARPY_VERIF', 'enable': 'no hooks are needed: every observable is public API (plus name-mangled attributes the repository\'s own tests use); GEARPY_VERIF is reserved and unused',
           'baseline_off_cmd': 'cd /repo && /venv/bin/python -m pytest -ra -q -p no:cacheprovider --timeout=900 --continue-on-collection-errors',
           'source_commits': [], 'add_only': True},
 'engines': [{'name': 'lean-model+correspondence', 'path': 'lean/ + tools/',
              'serves_properties': sorted(CLAIMED),
              'kind_free_text': 'hand-written executable Lean 4 model with kernel-checked theorems; tables regenerated from the source; API-level differential correspondence (Python in-process vs compiled Lean driver) with an independent property oracle'}],
 'checks': checks,
 'notes': 'Repairs of genuine defects are unguarded `fix:` commits in /repo (listed in known_findings.json under "fixed"); recorded, unrepaired defects are in known_findings.json under "findings".',
 'not_applicable': [{'property_id': pid, 'reason': NOT_YET} for pid in ids if pid not in CLAIMED],
}
json.dump(manifest, open(os.path.join(VERIF, 'MANIFEST.json'), 'w'), indent=1)
print('claimed', len(checks), 'not yet', len(manifest['not_applicable']))
