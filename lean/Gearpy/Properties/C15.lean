import Gearpy.Model.Control
import Gearpy.Properties.C08
import Mathlib.Tactic.Ring
import Mathlib.Tactic.FieldSimp
/-!
# C15 — each control rule applies in its documented window with its documented value

With exact comparisons (`exactCtx`: both operands in the same unit; a tolerant context only moves
the window edges by `tol`):
* `constant_window`: ConstantPWM proposes its constant exactly while `start ≤ t ∧ t − start ≤ dur`;
* `reach_window` / `reach_value`: ReachAngularPosition proposes `1 − (θ − θ_s)/θ_b` once
  `θ ≥ θ_s = target − θ_b + static error`, the static error being
  `load₀ / T_max / η_t · θ_b` (`η_t` = efficiency product over the gear matings); `reach_le_one`;
* `ramp_window` / `ramp_value`, `ramp_at_zero`, `ramp_at_target`: StartProportional… proposes the
  linear ramp from the minimum duty cycle (at θ = 0) to 1 (at θ = target) while `θ ≤ target`;
* `limit_window` / `limit_value`: StartLimitCurrent proposes `½(s + e + √disc)` while `θ ≤ target`;
  `limit_root`: that value solves `D² − (s+e)D + n s = 0`; `limit_outside_deadzone`: it lies
  above `i₀/i_max` when `i_lim > i₀ > 0`; and the cross-module guarantee
  `limit_current_exact`: **the motor's own current law evaluated at that duty cycle and the
  present speed yields exactly the limit current** — with C02's `C02_current` (the recorded
  current is the current law at the recorded duty cycle and driving torque) the recorded
  current equals the limit while the rule is in force and not clipped.
`√` is a parameter: the only facts used are `r ≥ 0` and `r² = disc`.
-/

namespace Gearpy.C15
open Gearpy

def exactCtx : CmpCtx := { exact := true, tol := 0 }

theorem cmpSI_exact_ge (a b : Q) : cmpSI exactCtx .ge a b = decide (b ≤ a) := rfl
theorem cmpSI_exact_le (a b : Q) : cmpSI exactCtx .le a b = decide (a ≤ b) := rfl

/-- ConstantPWM: applicable exactly within its window, and then proposes its constant -/
theorem constant_window (e : CtlEnv) (i : CtlIn) (start dur value : Q) :
    (Rule.constant exactCtx exactCtx start dur value).apply e i =
      .ok (if start ≤ i.time ∧ i.time - start ≤ dur then some (some value) else none) := by
  simp only [Rule.apply, timerActive, cmpSI_exact_ge, cmpSI_exact_le, Bool.and_eq_true, decide_eq_true_eq]

/-- the timer with tolerant comparisons: the window edges move by at most the tolerances -/
theorem timer_tolerant (cGe cLe : CmpCtx) (start dur t : Q) (h1 : cGe.exact = false) (h2 : cLe.exact = false) :
    timerActive cGe cLe start dur t = true ↔ (-cGe.tol ≤ t - start ∧ t - start - dur ≤ cLe.tol) := by
  simp [timerActive, cmpSI, cmpRaw, h1, h2]

/-- ReachAngularPosition: window and value -/
theorem reach_rule (e : CtlEnv) (i : CtlIn) (idx : Nat) (target braking se : Q)
    (hse : staticError e i.load0 braking = .ok se) (hb : braking ≠ 0) :
    (Rule.reach exactCtx idx target braking).apply e i =
      .ok (if target - braking + se ≤ i.pos.getD idx 0
           then some (some (1 - (i.pos.getD idx 0 - (target - braking + se)) / braking)) else none) := by
  simp only [Rule.apply, hse, cmpSI_exact_ge, decide_eq_true_eq, hb, if_false]
  split <;> rfl

theorem staticError_value (e : CtlEnv) (load0 braking : Q) (h : 0 ≤ load0 / e.motor.tmax / e.eff) :
    staticError e load0 braking = .ok (load0 / e.motor.tmax / e.eff * braking) := by
  unfold staticError; simp only; rw [if_neg (by linarith)]

/-- inside its window ReachAngularPosition never proposes more than 1 (the braking angle is positive) -/
theorem reach_le_one (x start braking : Q) (hb : 0 < braking) (hx : start ≤ x) :
    1 - (x - start) / braking ≤ 1 := by
  have : 0 ≤ (x - start) / braking := div_nonneg (by linarith) hb.le
  linarith

/-- StartProportionalToAngularPosition: window and value -/
theorem ramp_rule (e : CtlEnv) (i : CtlIn) (idx : Nat) (target mult : Q) (pmin : Option Q)
    (hpm : mult * pwmMinFn e i.firstLoad0 ≠ 0) (ht : target ≠ 0) :
    (Rule.startProp exactCtx idx target mult pmin).apply e i =
      .ok (if i.pos.getD idx 0 ≤ target
           then some (some ((1 - mult * pwmMinFn e i.firstLoad0) * i.pos.getD idx 0 / target + mult * pwmMinFn e i.firstLoad0))
           else none) := by
  simp only [Rule.apply, hpm, ne_eq, not_false_eq_true, if_true, cmpSI_exact_le, decide_eq_true_eq, ht, if_false]
  split <;> rfl

/-- the ramp starts at the minimum duty cycle and reaches 1 at the target -/
theorem ramp_at_zero (pm target : Q) : (1 - pm) * 0 / target + pm = pm := by ring
theorem ramp_at_target (pm target : Q) (ht : target ≠ 0) : (1 - pm) * target / target + pm = 1 := by
  field_simp; ring

/-- the minimum duty cycle: load referred to the motor over the torque the current margin can give, plus the dead zone -/
theorem pwmMin_value (e : CtlEnv) (i0 imax : Q) (hc : e.motor.cur = some (i0, imax)) (load : Q) :
    pwmMinFn e load = 1 / e.eff * (load / e.motor.tmax) * ((imax - i0) / imax) + i0 / imax := by
  unfold pwmMinFn; rw [hc]

/-- StartLimitCurrent: window and value -/
theorem limit_rule (e : CtlEnv) (i : CtlIn) (eIdx tIdx : Nat) (target ilim i0 imax : Q)
    (hc : e.motor.cur = some (i0, imax)) :
    (Rule.startLimit exactCtx eIdx tIdx target ilim).apply e i =
      .ok (if i.pos.getD eIdx 0 ≤ target then
             some ((e.sqrt ((i.speed.getD tIdx 0 / e.motor.w0) * (i.speed.getD tIdx 0 / e.motor.w0)
                      + (ilim / imax) * (ilim / imax)
                      + 2 * (i.speed.getD tIdx 0 / e.motor.w0) * ((ilim - 2 * i0) / imax))).map
                    fun r => 1 / 2 * (i.speed.getD tIdx 0 / e.motor.w0 + ilim / imax + r))
           else none) := by
  simp only [Rule.apply, hc, cmpSI_exact_le, decide_eq_true_eq]
  split <;> rfl

/-- the discriminant is `(s+e)² − 4 n s` -/
theorem disc_eq {α : Type} [Field α] (s e n : α) (ilim i0 imax : α) (himax : imax ≠ 0) (he : e = ilim / imax) (hn : n = i0 / imax) :
    s * s + e * e + 2 * s * ((ilim - 2 * i0) / imax) = (s + e) ^ 2 - 4 * n * s := by
  subst he hn; field_simp; ring

variable {α : Type} [Field α] [LinearOrder α] [IsStrictOrderedRing α]

/-- the proposed duty cycle is a root of the quadratic the current law reduces to -/
theorem limit_root (D s e n r : α) (hr : r * r = (s + e) ^ 2 - 4 * n * s) (hD : D = (s + e + r) / 2) :
    D * D - (s + e) * D + n * s = 0 := by
  subst hD; ring_nf; nlinarith [hr]

/-- … and it lies strictly above the dead-zone boundary `n = i₀/i_max` when `e = i_lim/i_max > n > 0` -/
theorem limit_outside_deadzone (D s e n r : α) (hr0 : 0 ≤ r) (hr : r * r = (s + e) ^ 2 - 4 * n * s)
    (hD : D = (s + e + r) / 2) (hn : 0 < n) (hen : n < e) : n < D := by
  by_contra hcon
  rw [not_lt] at hcon
  have hprod : (n - D) * (n - (s + e - r) / 2) = n * (n - e) := by
    subst hD; ring_nf; nlinarith [hr]
  have h1 : 0 ≤ n - D := by linarith
  have h2 : n - D ≤ n - (s + e - r) / 2 := by subst hD; linarith
  have h3 : 0 ≤ (n - D) * (n - (s + e - r) / 2) := mul_nonneg h1 (by linarith)
  have h4 : n * (n - e) < 0 := mul_neg_of_pos_of_neg hn (by linarith)
  linarith

/-- the current law, normalised by `i_max`, evaluated at the root gives `e = i_lim / i_max` -/
theorem limit_current_normalised (D s e n r : α) (hD0 : D ≠ 0) (hr : r * r = (s + e) ^ 2 - 4 * n * s)
    (hD : D = (s + e + r) / 2) : (D - n) * (1 - s / D) + n = e := by
  have h := limit_root D s e n r hr hD
  field_simp
  nlinarith [h]

/-- C15 cross-module guarantee: at the duty cycle proposed by StartLimitCurrent the motor's own
    current law, evaluated on the motor's own torque at the present speed, yields exactly the
    limit current -/
theorem limit_current_exact {m : MotorP} {i0 imax : Q} (g : m.Good i0 imax) (w ilim r D : Q)
    (hi0 : 0 < i0) (hlim : i0 < ilim) (hr0 : 0 ≤ r)
    (hr : r * r = (w / m.w0 + ilim / imax) ^ 2 - 4 * (i0 / imax) * (w / m.w0))
    (hD : D = (w / m.w0 + ilim / imax + r) / 2) :
    current m D (torque m w D) = some ilim := by
  have himax : 0 < imax := lt_of_le_of_lt g.hi0 g.lt
  have hn : 0 < i0 / imax := div_pos hi0 himax
  have hen : i0 / imax < ilim / imax := div_lt_div_of_pos_right hlim himax
  have hout := limit_outside_deadzone D (w / m.w0) (ilim / imax) (i0 / imax) r hr0 hr hD hn hen
  have hD0 : D ≠ 0 := ne_of_gt (lt_trans hn hout)
  rw [C08.current_pos_closed g w D hout]
  congr 1
  have key := limit_current_normalised D (w / m.w0) (ilim / imax) (i0 / imax) r hD0 hr hD
  have hw : m.w0 ≠ 0 := ne_of_gt g.w0
  have hi : imax ≠ 0 := ne_of_gt himax
  have e1 : w / (D * m.w0) = w / m.w0 / D := by field_simp
  rw [e1]
  have : (D * imax - i0) * (1 - w / m.w0 / D) + i0 = imax * ((D - i0 / imax) * (1 - w / m.w0 / D) + i0 / imax) := by
    field_simp
  rw [this, key]; field_simp

/-! ### the window edges belong to the windows ("once θ ≥ θ_s", "while θ ≤ target", "start ≤ t ≤ start + duration") -/

/-- exactly at the braking start ReachAngularPosition is in force and proposes 1 -/
theorem reach_at_start (e : CtlEnv) (i : CtlIn) (idx : Nat) (target braking se : Q)
    (hse : staticError e i.load0 braking = .ok se) (hb : braking ≠ 0)
    (hx : i.pos.getD idx 0 = target - braking + se) :
    (Rule.reach exactCtx idx target braking).apply e i = .ok (some (some 1)) := by
  rw [reach_rule e i idx target braking se hse hb, if_pos (le_of_eq hx.symm), hx]
  simp

/-- strictly before it the rule is not applicable -/
theorem reach_before_start (e : CtlEnv) (i : CtlIn) (idx : Nat) (target braking se : Q)
    (hse : staticError e i.load0 braking = .ok se) (hb : braking ≠ 0)
    (hx : i.pos.getD idx 0 < target - braking + se) :
    (Rule.reach exactCtx idx target braking).apply e i = .ok none := by
  rw [reach_rule e i idx target braking se hse hb, if_neg (not_le.mpr hx)]

/-- exactly at the target the soft start is still in force and proposes 1; beyond it, it is not applicable -/
theorem ramp_at_target_rule (e : CtlEnv) (i : CtlIn) (idx : Nat) (target mult : Q) (pmin : Option Q)
    (hpm : mult * pwmMinFn e i.firstLoad0 ≠ 0) (ht : target ≠ 0) (hx : i.pos.getD idx 0 = target) :
    (Rule.startProp exactCtx idx target mult pmin).apply e i = .ok (some (some 1)) := by
  rw [ramp_rule e i idx target mult pmin hpm ht, if_pos (le_of_eq hx), hx, ramp_at_target _ _ ht]

theorem ramp_beyond_target (e : CtlEnv) (i : CtlIn) (idx : Nat) (target mult : Q) (pmin : Option Q)
    (hpm : mult * pwmMinFn e i.firstLoad0 ≠ 0) (ht : target ≠ 0) (hx : target < i.pos.getD idx 0) :
    (Rule.startProp exactCtx idx target mult pmin).apply e i = .ok none := by
  rw [ramp_rule e i idx target mult pmin hpm ht, if_neg (not_le.mpr hx)]

/-- exactly at the target StartLimitCurrent is still in force (it proposes something); beyond it, it is not applicable -/
theorem limit_at_target (e : CtlEnv) (i : CtlIn) (eIdx tIdx : Nat) (target ilim i0 imax : Q)
    (hc : e.motor.cur = some (i0, imax)) (hx : i.pos.getD eIdx 0 = target) :
    ∃ p, (Rule.startLimit exactCtx eIdx tIdx target ilim).apply e i = .ok (some p) := by
  rw [limit_rule e i eIdx tIdx target ilim i0 imax hc, if_pos (le_of_eq hx)]
  exact ⟨_, rfl⟩

theorem limit_beyond_target (e : CtlEnv) (i : CtlIn) (eIdx tIdx : Nat) (target ilim i0 imax : Q)
    (hc : e.motor.cur = some (i0, imax)) (hx : target < i.pos.getD eIdx 0) :
    (Rule.startLimit exactCtx eIdx tIdx target ilim).apply e i = .ok none := by
  rw [limit_rule e i eIdx tIdx target ilim i0 imax hc, if_neg (not_le.mpr hx)]

/-- both edges of a ConstantPWM window belong to it -/
theorem constant_at_edges (e : CtlEnv) (i : CtlIn) (start dur value : Q) (hd : 0 ≤ dur)
    (ht : i.time = start ∨ i.time = start + dur) :
    (Rule.constant exactCtx exactCtx start dur value).apply e i = .ok (some (some value)) := by
  rw [constant_window, if_pos]
  rcases ht with h | h <;> rw [h] <;> constructor <;> linarith


/-! non-vacuity of the edge theorems: target 10, braking angle 4, no load: the braking starts exactly at 6 -/
def exEnv : CtlEnv := { motor := C08.exM, eff := 1, sqrt := fun _ => none }
def exIn (p : Q) : CtlIn := { time := 0, pos := [p], speed := [0], load0 := 0, firstLoad0 := 0 }
example : (Rule.reach exactCtx 0 10 4).apply exEnv (exIn 6) = .ok (some (some 1)) := by decide +kernel
example : (Rule.reach exactCtx 0 10 4).apply exEnv (exIn (6 - 1/1000000)) = .ok none := by decide +kernel

/-! ### non-vacuity: i₀ = 0.1, i_max = 2, i_lim = 1, ω = 0 (standstill): D = e = 1/2, r = 1/2 -/
example : current C08.exM (1/2) (torque C08.exM 0 (1/2)) = some 1 :=
  limit_current_exact C08.exM_good 0 1 (1/2) (1/2) (by norm_num) (by norm_num) (by norm_num)
    (by norm_num [C08.exM]) (by norm_num [C08.exM])

end Gearpy.C15
