import Gearpy.Model.Basic
/-!
# Gearpy.Model.Snapshot — `scipy.interpolate.interp1d(kind='linear')` as used by
`Powertrain.snapshot`, and the cell conversion of `export_time_variables`
-/

namespace Gearpy

/-- linear interpolation through the knots `(ts[i], ys[i])` (abscissae increasing);
    `none` outside `[ts.head, ts.last]` (`bounds_error`) -/
def interp : List Q → List Q → Q → Option Q
  | t0 :: t1 :: ts, y0 :: y1 :: ys, t =>
      if t < t0 then none
      else if t ≤ t1 then
        (if t = t0 then some y0 else if t = t1 then some y1
         else some (y0 + (y1 - y0) * (t - t0) / (t1 - t0)))
      else interp (t1 :: ts) (y1 :: ys) t
  | [t0], [y0], t => if t = t0 then some y0 else none
  | _, _, _ => none

/-- a recorded SI sample expressed in a unit of SI factor `f` -/
def cell (y f : Q) : Q := y / f

end Gearpy
