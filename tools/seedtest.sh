#!/bin/bash
# usage: seedtest.sh <patch file> <check ids...>   — applies the patch to /repo's working tree, runs the
# quick checks, prints their verdict lines, and restores /repo. Nothing is committed to /repo.
patch=$1; shift
cd /repo && git diff --quiet || { echo "/repo has uncommitted changes"; exit 2; }
git -C /repo apply "$patch" || { echo "patch does not apply"; exit 2; }
cd /verif
for p in "$@"; do
  out=$(timeout 1500 /venv/bin/python tools/check.py $p --tier ${TIER:-quick} 2>&1); rc=$?
  echo "== $p rc=$rc"; echo "$out" | grep -v "^KNOWN-FINDING" | head -4 | cut -c1-330
done
git -C /repo checkout -- . ; git -C /repo status --short | head -3
