#!/bin/bash
# development helper: run every check of a tier, print one line each
tier=${1:-quick}
cd "$(dirname "$0")/.."
for p in C01 C02 C03 C04 C05 C06 C07 C08 C09 C10 C11 C12 C13 C14 C15 C16 C17 C18 C19 C20; do
  s=$(date +%s)
  out=$(timeout ${TIMEOUT:-3000} /venv/bin/python tools/check.py $p --tier $tier ${NOBUILD:+--no-build} 2>&1); rc=$?
  e=$(date +%s)
  echo "$p rc=$rc $((e-s))s $(echo "$out" | grep -v KNOWN-FINDING | tail -1 | cut -c1-200)"
  echo "$out" | grep -c KNOWN-FINDING | sed 's/^/   known-finding lines: /'
done
