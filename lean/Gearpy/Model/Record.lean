import Gearpy.Model.Relations
/-!
# Gearpy.Model.Record — which time variables an element advertises and which it records
(`RotatingObject.update_time_variables` and its overrides, the constructors' `time_variables`
keys, `Powertrain.reset`, `Powertrain.snapshot`'s column selection, `export_time_variables`)

Only the *bookkeeping* is modelled here — keys and numbers of samples; the values are the
solver model's records.
-/

namespace Gearpy

inductive Var
  | pos | speed | acc | torque | dtorque | ltorque | force | bending | contact | current | pwm
  deriving DecidableEq, Repr, Inhabited

def Var.all : List Var := [.pos, .speed, .acc, .torque, .dtorque, .ltorque, .force, .bending, .contact, .current, .pwm]

/-- rank in `VARIABLES_SORT_ORDER` -/
def Var.rank : Var → Nat
  | .pos => 0 | .speed => 1 | .acc => 2 | .torque => 3 | .dtorque => 4 | .ltorque => 5
  | .force => 6 | .bending => 7 | .contact => 8 | .current => 9 | .pwm => 10

def Var.name : Var → String
  | .pos => "angular position" | .speed => "angular speed" | .acc => "angular acceleration"
  | .torque => "torque" | .dtorque => "driving torque" | .ltorque => "load torque"
  | .force => "tangential force" | .bending => "bending stress" | .contact => "contact stress"
  | .current => "electric current" | .pwm => "pwm"

def Var.isBase (v : Var) : Bool := v.rank < 6

/-- static description of an element as far as recording is concerned -/
structure ElemInfo where
  kind : EK
  data : GearData := ⟨false, false, false⟩
  /-- worm gear: reference diameter given -/
  refDiam : Bool := false
  /-- motor: both currents given -/
  hasCurrent : Bool := false
  /-- worm wheel: `some d` once mated with a worm whose reference diameter is present (`d`) -/
  mateRefDiam : Option Bool := none
  deriving DecidableEq, Repr, Inhabited

/-- keys of `time_variables` right after construction and relation declarations
    (`'pwm'` only appears at the first update) -/
def advertised (e : ElemInfo) (v : Var) : Bool :=
  if v.isBase then true else
  match e.kind, v with
  | .motor, .current => e.hasCurrent
  | .spur, .force | .helical, .force | .wormWheel, .force => forceComputable e.data
  | .spur, .bending | .helical, .bending => bendingComputable e.data
  | .wormWheel, .bending => wormWheelBendingComputable e.data e.mateRefDiam
  | .spur, .contact | .helical, .contact => contactComputable e.data
  | .wormGear, .force => e.refDiam
  | _, _ => false

/-- what `update_time_variables` appends, decided by the flags *at update time* -/
def recordsNow (e : ElemInfo) (v : Var) : Bool :=
  if v.isBase then true else
  match e.kind, v with
  | .motor, .current => e.hasCurrent
  | .motor, .pwm => true
  | .spur, .force | .helical, .force => forceComputable e.data
  | .spur, .bending | .helical, .bending => forceComputable e.data && bendingComputable e.data
  | .spur, .contact | .helical, .contact =>
      forceComputable e.data && bendingComputable e.data && contactComputable e.data
  | .wormWheel, .force => forceComputable e.data
  | .wormWheel, .bending => forceComputable e.data && wormWheelBendingComputable e.data e.mateRefDiam
  | .wormGear, .force => e.refDiam
  | _, _ => false

/-- the `time_variables` dict of one element: `none` = key absent, `some n` = `n` samples -/
abbrev TV := Var → Option Nat

def TV.init (e : ElemInfo) : TV := fun v => if advertised e v then some 0 else none

/-- `update_time_variables` -/
def TV.update (e : ElemInfo) (tv : TV) : TV := fun v =>
  if recordsNow e v then
    match tv v with
    | some n => some (n + 1)
    | none => if v = .pwm then some 1 else none     -- only `'pwm'` creates its key on the fly (else KeyError)
  else tv v

/-- `Powertrain.reset`: every present key keeps an empty list -/
def TV.reset (tv : TV) : TV := fun v => (tv v).map fun _ => 0

inductive RecOp | update | reset deriving DecidableEq, Repr

/-- (number of recorded instants, time variables) after a sequence of recording operations -/
def recRun (e : ElemInfo) : List RecOp → Nat × TV → Nat × TV
  | [], s => s
  | .update :: os, (n, tv) => recRun e os (n + 1, tv.update e)
  | .reset :: os, (_, tv) => recRun e os (0, tv.reset)

/-! ### snapshot / export selection -/

/-- the variables `snapshot` reports for an element given the requested list
    (`none` = all variables of the powertrain) -/
def snapshotReports (e : ElemInfo) (requested : Option (List Var)) (v : Var) : Bool :=
  (match requested with | none => true | some l => l.contains v) && recordsNow e v

/-- columns of the snapshot table: the requested variables, de-duplicated, in sort order -/
def snapshotColumns (allKeys : List Var) (requested : Option (List Var)) : List Var :=
  let vs := match requested with | none => allKeys | some l => l
  Var.all.filter fun v => vs.contains v

end Gearpy
