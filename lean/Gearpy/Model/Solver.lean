import Gearpy.Model.Basic
import Gearpy.Model.Gears
/-!
# Gearpy.Model.Solver — SI-level model of `gearpy/solver.py` and of `Powertrain.reset`

`compute` follows `_compute_powertrain_variables` statement by statement:
positions/speeds upstream → lock check → clamp → load torque upstream (with the *clamped* speed
and `time[-1]`) → motor control → driving torque downstream → net torque → acceleration
(skipped while locked) → current → record.  `integrate` is `_time_integration` (speed first,
then position with the *new* speed).  `run` is `Solver.run` after input validation, with the
step count given (`Gearpy.Model.Grid` computes it from unit-carrying `dt`, `T`).

The motor characteristic, the load function, the controller and the stop predicate are
*parameters* of the configuration: the theorems quantify over all of them.  The driver
instantiates them with `Gearpy.Model.Motor` / `Gearpy.Model.Control`.

Chain convention: element 0 is the motor, `links[i]` describes element `i+1` relative to its
driver (ratio, efficiency, inertia); the external load acts on the last element.
-/

namespace Gearpy

structure Link where
  ratio : Q
  eff : Q
  inertia : Q
  /-- `isinstance(element, SpurGear)` (spur, helical, worm wheel): counted by the control rules' efficiency product -/
  spur : Bool := true
  deriving Repr, Inhabited

/-- one recorded instant -/
structure Rec where
  time : Q
  pos : List Q
  speed : List Q
  acc : List Q
  dtorque : List Q
  ltorque : List Q
  torque : List Q
  pwm : Q
  current : Option Q
  locked : Bool
  /-- tangential force, bending stress and squared contact stress of every element (`none`: not recorded) -/
  force : List (Option Q) := []
  bending : List (Option Q) := []
  contactSq : List (Option Q) := []
  deriving Repr, Inhabited, DecidableEq

/-- what a control rule set can observe when it is applied at an instant -/
structure CtlIn where
  time : Q
  pos : List Q
  speed : List Q
  /-- the motor's load torque at this instant -/
  load0 : Q
  /-- the motor's first *recorded* load torque, or the present one if nothing is recorded yet -/
  firstLoad0 : Q
  deriving Repr, Inhabited

/-- static gear data of one element as far as `_compute_force` / `_compute_stress` need them -/
structure GearSim where
  role : Option Role := none
  /-- reference diameter and force multiplier (tan β for a worm gear, 1 otherwise): tangential force computable -/
  force : Option (Q × Q) := none
  /-- bending-stress denominator `m·b·Y` (`p_n·b_eff·Y` for a worm wheel): bending stress computable -/
  bendingDen : Option Q := none
  /-- `(E₁, E₂, d₁, d₂, b, sin α, cos α, cos β)`: contact stress computable -/
  contactP : Option (Q × Q × Q × Q × Q × Q × Q × Q) := none
  mateModule : Bool := true
  mateModulus : Bool := true
  deriving Repr, Inhabited

structure Cfg where
  J0 : Q
  links : List Link
  /-- `Powertrain.self_locking` -/
  sl : Bool
  /-- SI tolerance of `motor.angular_speed < 0 rad/s` (0 when the speed is carried in rad/s) -/
  tolW : Q
  /-- SI tolerance of `motor.torque > 0 Nm` (0 when the motor torque is carried in Nm) -/
  tolT : Q
  /-- motor characteristic: speed, duty cycle ↦ driving torque -/
  motorTorque : Q → Q → Q
  /-- duty cycle, driving torque ↦ absorbed current (`none`: not computable) -/
  motorCurrent : Q → Q → Option Q
  /-- external load on the last element: position, speed, time -/
  load : Q → Q → Q → Q
  /-- motor control (`none`: no controller given) -/
  control : Option (CtlIn → Except Err Q)
  /-- gear data per element (index 0 = motor); elements beyond the list record no force / stress -/
  gears : List GearSim := []

/-- live state: the powertrain's attributes that survive between instants + the solver's flag -/
structure St where
  recs : List Rec          -- oldest first; the time axis is `recs.map (·.time)`
  pos : Q                  -- last element's attributes
  speed : Q
  acc : Q
  mtorque : Option Q       -- motor.torque attribute (`None` on fresh objects)
  pwm : Q                  -- motor.pwm attribute
  locked : Bool            -- Solver.__powertrain_is_locked
  deriving Repr, Inhabited, DecidableEq

/-- values of all elements from the last one, going upstream: v_{i-1} = r_i * v_i -/
def upstream : List Q → Q → List Q
  | [], x => [x]
  | r :: rs, x => match upstream rs x with
    | [] => [x]
    | v :: vs => (r * v) :: v :: vs

/-- driving torques from the motor going downstream: d_i = d_{i-1} * eff_i * ratio_i -/
def driveDown : List Link → Q → List Q
  | [], d => [d]
  | l :: ls, d => d :: driveDown ls (d * l.eff * l.ratio)

/-- load torques: given links and the external torque on the last element -/
def loadUp : List Link → Q → List Q
  | [], x => [x]
  | l :: ls, x => match loadUp ls x with
    | [] => [x]
    | v :: vs => (v / l.eff / l.ratio) :: v :: vs

/-- `_compute_powertrain_inertia` -/
def inertia (c : Cfg) : Q := c.links.foldl (fun J l => J * l.ratio + l.inertia) c.J0

/-- `_check_powertrain_is_locked` -/
def checkLock (sl locked : Bool) (pwm speed : Q) (torque : Option Q) (tolW tolT : Q) : Bool :=
  if sl && (pwm == 0 || (decide (0 < pwm) && decide (speed < -tolW)) || (decide (pwm < 0) && decide (tolW < speed))) then true
  else match torque with
    | some t => if (decide (tolT < t) && decide (0 < pwm)) || (decide (t < -tolT) && decide (pwm < 0)) then false else locked
    | none => locked

/-- `_compute_force` then `_compute_stress` on the torques just computed: an unmated gear whose force
    is computable, or a contact stress whose mate lacks module / elastic modulus, raises `ValueError` -/
def gearForces : List GearSim → List Q → List Q → Except Err (List (Option Q))
  | g :: gs, d :: ds, l :: ls =>
      match g.force with
      | none => (gearForces gs ds ls).map (none :: ·)
      | some (dia, k) =>
        match refTorque g.role d l with
        | .error e => .error e
        | .ok T => (gearForces gs ds ls).map (some (qabs T / (dia / 2) * k) :: ·)
  | [], _ :: ds, _ :: ls => (gearForces [] ds ls).map (none :: ·)
  | _, _, _ => .ok []

def gearStresses : List GearSim → List (Option Q) → Except Err (List (Option Q) × List (Option Q))
  | g :: gs, f :: fs =>
      match gearStresses gs fs with
      | .error e => .error e
      | .ok (bs, cs) =>
        match g.bendingDen, f with
        | some den, some F =>
            match g.contactP with
            | none => .ok (some (F / den) :: bs, none :: cs)
            | some (e1, e2, d1, d2, b, sa, ca, cb) =>
                match contactMate g.role g.mateModule g.mateModulus with
                | .error e => .error e
                | .ok _ => .ok (some (F / den) :: bs, some (contactStressSq F e1 e2 d1 d2 b sa ca cb) :: cs)
        | _, _ => .ok (none :: bs, none :: cs)
  | [], _ :: fs => match gearStresses [] fs with
      | .error e => .error e
      | .ok (bs, cs) => .ok (none :: bs, none :: cs)
  | _, [] => .ok ([], [])

/-- `_compute_powertrain_variables` at time `t` (the instant has already been appended) -/
def compute (c : Cfg) (s : St) (t : Q) : Except Err St :=
  let rs := c.links.map (·.ratio)
  let n := c.links.length + 1
  let pos := upstream rs s.pos
  let speed0 := upstream rs s.speed
  let locked := checkLock c.sl s.locked s.pwm (speed0.headD 0) s.mtorque c.tolW c.tolT
  let speed := if locked then zeros n else speed0
  let lastSpeed := if locked then 0 else s.speed
  let ltorque := loadUp c.links (c.load s.pos lastSpeed t)
  let pwmE : Except Err Q := match c.control with
    | none => .ok s.pwm
    | some f => f { time := t, pos, speed, load0 := ltorque.headD 0,
                    firstLoad0 := (s.recs.head?.map (·.ltorque.headD 0)).getD (ltorque.headD 0) }
  match pwmE with
  | .error e => .error e
  | .ok pwm =>
    let dtorque := driveDown c.links (c.motorTorque (speed.headD 0) pwm)
    let torque := List.zipWith (· - ·) dtorque ltorque
    let lastAcc := if locked then 0 else lastD torque / inertia c
    let acc := if locked then zeros n else upstream rs lastAcc
    match gearForces c.gears dtorque ltorque with
    | .error e => .error e
    | .ok force =>
      match gearStresses c.gears force with
      | .error e => .error e
      | .ok (bending, contactSq) =>
        let r : Rec := { time := t, pos, speed, acc, dtorque, ltorque, torque, pwm,
                         current := c.motorCurrent pwm (dtorque.headD 0), locked, force, bending, contactSq }
        .ok { recs := s.recs ++ [r], pos := s.pos, speed := lastSpeed, acc := lastAcc,
              mtorque := some (torque.headD 0), pwm, locked }

/-- `_time_integration` -/
def integrate (s : St) (dt : Q) : St :=
  let v := s.speed + s.acc * dt
  { s with speed := v, pos := s.pos + v * dt }

def stepAt (c : Cfg) (dt : Q) (s : St) (t : Q) : Except Err St := compute c (integrate s dt) t

def stopNow (stop : Option (Rec → Bool)) (s : St) : Bool :=
  match stop, s.recs.getLast? with
  | some f, some r => f r
  | _, _ => false

/-- the loop over the instants of a run, with early `break` on the stop condition -/
def loop (c : Cfg) (dt : Q) (stop : Option (Rec → Bool)) : List Q → St → Except Err St
  | [], s => .ok s
  | t :: ts, s =>
    match stepAt c dt s t with
    | .error e => .error e
    | .ok s' => if stopNow stop s' then .ok s' else loop c dt stop ts s'

/-- the instants `t0 + i·dt`, `1 ≤ i ≤ n` -/
def grid (t0 dt : Q) (n : Nat) : List Q := (List.range n).map fun i => t0 + ((i + 1 : Nat) : Q) * dt

def lastTime (s : St) : Option Q := s.recs.getLast?.map (·.time)

/-- `Solver.run` with `n` steps of `dt`: continues from the last recorded instant, or starts at 0
    with an initial `compute` (and a cleared lock flag) when nothing is recorded -/
def run (c : Cfg) (dt : Q) (n : Nat) (stop : Option (Rec → Bool)) (s : St) : Except Err St :=
  match lastTime s with
  | some t0 => loop c dt stop (grid t0 dt n) s
  | none =>
    match compute c { s with locked := false } 0 with
    | .error e => .error e
    | .ok s0 => loop c dt stop (grid 0 dt n) s0

/-- `Powertrain.reset`: clears the histories and restores every attribute from the first record
    (the duty cycle restored is the *recorded* one, i.e. after control was applied — K3) -/
def reset (s : St) : Except Err St :=
  match s.recs with
  | [] => .error .other                 -- IndexError on empty histories
  | r :: _ => .ok { s with recs := [], pos := lastD r.pos, speed := lastD r.speed, acc := lastD r.acc,
                           mtorque := some (r.torque.headD 0), pwm := r.pwm }

/-- schedule operations a user can perform on one powertrain -/
inductive Op
  | run (dt : Q) (n : Nat) (stop : Option (Rec → Bool))
  | reset
  | setInitial (pos speed : Q)
  | setPwm (pwm : Q)
  | newSolver

def applyOp (c : Cfg) (s : St) : Op → Except Err St
  | .run dt n stop => run c dt n stop s
  | .reset => reset s
  | .setInitial p v => .ok { s with pos := p, speed := v }
  | .setPwm p => if -1 ≤ p ∧ p ≤ 1 then .ok { s with pwm := p } else .error .valueE
  | .newSolver => .ok { s with locked := false }

def exec (c : Cfg) : List Op → St → Except Err St
  | [], s => .ok s
  | o :: os, s => match applyOp c s o with
    | .error e => .error e
    | .ok s' => exec c os s'

/-- a freshly built powertrain with initial conditions on the last element -/
def St.init (pos speed : Q) : St :=
  { recs := [], pos, speed, acc := 0, mtorque := none, pwm := 1, locked := false }

end Gearpy
