import Gearpy.Model.UnitStep
import Gearpy.Properties.C06
/-!
# The SI reading of the unit-level solver arithmetic is the SI-level arithmetic
-/
namespace Gearpy
open Kind

variable {T : Tbl}

theorem asQty_ok {r : Except Err Val} {x : Qty} (h : asQty r = .ok x) : r = .ok (.q x) := by
  unfold asQty at h
  split at h
  · simp only [Except.ok.injEq] at h; subst h; rfl
  · simp at h
  · simp at h

/-- `_time_integration` in any units: SI position and speed follow the semi-implicit Euler update -/
theorem integrateU_si (g : T.Good) (pos speed acc dt p v : Qty)
    (h : integrateU T pos speed acc dt = .ok (p, v)) :
    siMag T v = siMag T speed + siMag T acc * siMag T dt ∧
    siMag T p = siMag T pos + (siMag T speed + siMag T acc * siMag T dt) * siMag T dt := by
  unfold integrateU at h
  split at h
  · simp at h
  · rename_i dv h1
    split at h
    · simp at h
    · rename_i v' h2
      split at h
      · simp at h
      · rename_i dp h3
        split at h
        · simp at h
        · rename_i p' h4
          simp only [Except.ok.injEq, Prod.mk.injEq] at h
          obtain ⟨rfl, rfl⟩ := h
          have e1 := C06.mul_si g acc (.q dt) dv (asQty_ok h1)
          have e2 := C06.add_si g speed dv v' (asQty_ok h2)
          have e3 := C06.mul_si g v' (.q dt) dp (asQty_ok h3)
          have e4 := C06.add_si g pos dp p' (asQty_ok h4)
          simp only [C06.valSI] at e1 e3
          constructor
          · rw [e2, e1]
          · rw [e4, e3, e2, e1]

/-- with the kinds the solver uses the unit-level update never raises -/
theorem integrateU_ok (pos speed acc dt : Qty) (hp : pos.kind = angPos) (hs : speed.kind = angSpeed)
    (ha : acc.kind = angAcc) (hd : baseOf dt.kind = time) : ∃ r, integrateU T pos speed acc dt = .ok r := by
  obtain ⟨kp, vp, up⟩ := pos
  obtain ⟨ks, vs, us⟩ := speed
  obtain ⟨ka, va, ua⟩ := acc
  obtain ⟨kd, vd, ud⟩ := dt
  simp only at hp hs ha hd
  subst hp hs ha
  cases kd <;> simp [baseOf] at hd <;>
    simp [integrateU, asQty, mul, add, isInst, baseOf, sameFamily, isSub, mk, signOk, Except.map]

theorem transmitU_si (g : T.Good) (ratio : Q) (x r : Qty) (h : transmitU T ratio x = .ok r) :
    siMag T r = ratio * siMag T x := by
  unfold transmitU rmul at h
  have := C06.mul_si g x (.n ratio) r (asQty_ok h)
  simp only [C06.valSI] at this
  rw [this]; ring

theorem accelerationU_si (g : T.Good) (torque inertia r : Qty) (h : accelerationU T torque inertia = .ok r) :
    siMag T r = siMag T torque / siMag T inertia := by
  unfold accelerationU at h
  have := C06.div_si g torque (.q inertia) r (asQty_ok h)
  simpa [C06.valSI] using this

theorem driveU_si (g : T.Good) (d r : Qty) (eff ratio : Q) (h : driveU T d eff ratio = .ok r) :
    siMag T r = siMag T d * eff * ratio := by
  unfold driveU at h
  split at h
  · simp at h
  · rename_i x h1
    have e1 := C06.mul_si g d (.n eff) x (asQty_ok h1)
    have e2 := C06.mul_si g x (.n ratio) r (asQty_ok h)
    simp only [C06.valSI] at e1 e2
    rw [e2, e1]

theorem loadU_si (g : T.Good) (l r : Qty) (eff ratio : Q) (h : loadU T l eff ratio = .ok r) :
    siMag T r = siMag T l / eff / ratio := by
  unfold loadU at h
  split at h
  · simp at h
  · rename_i x h1
    have e1 := C06.div_si g l (.n eff) x (asQty_ok h1)
    have e2 := C06.div_si g x (.n ratio) r (asQty_ok h)
    simp only [C06.valSI] at e1 e2
    rw [e2, e1]

theorem netU_si (g : T.Good) (d l r : Qty) (hk : d.kind = torque) (h : netU T d l = .ok r) :
    siMag T r = siMag T d - siMag T l := by
  unfold netU at h
  exact C06.sub_si_partial g d l r (by simp [C06.K2cell, hk, isSub]) (asQty_ok h)

end Gearpy
