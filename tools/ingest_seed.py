#!/usr/bin/env python3
"""ingest_seed.py <Cxx> <N> <detected_by comma list> [extra note] [--round b|c]
copies a confirmed sub-agent seed into /verif/seeded/ (round 1: Cxx-mN from /tmp/wtout/Cxx; round 2 ('b'): Cxx-m(N+2)
from /tmp/wtout/Cxxb; round 3 ('c'): Cxx-m(N+4) from /tmp/wtout/Cxxc)"""
import json, os, shutil, sys
args = sys.argv[1:]
rnd = ''
if '--round' in args:
    i = args.index('--round'); rnd = args[i + 1]; del args[i:i + 2]
pid, n, det = args[0], int(args[1]), [d for d in args[2].split(',') if d]
note = args[3] if len(args) > 3 else ''
src = f'/tmp/wtout/{pid}{rnd}'
k = n + {'': 0, 'b': 2, 'c': 4, 'd': 6, 'e': 8, 'f': 10, 'g': 11, 'h': 12}[rnd]
dst = f'/verif/seeded/{pid}-m{k}'
os.makedirs(dst, exist_ok=True)
shutil.copy(f'{src}/mut{n}.diff', f'{dst}/patch.diff')
shutil.copy(f'{src}/mut{n}_demo.py', f'{dst}/demo.py')
notes = open(f'{src}/mut{n}_notes.txt').read()
suite = ''
log = {'': '/tmp/suite_all.log', 'b': '/tmp/suite_all2.log', 'c': '/tmp/suite_all3.log', 'd': '/tmp/suite_all4.log', 'e': '/tmp/suite_all5.log', 'f': '/tmp/suite_all6.log', 'g': '/tmp/suite_all7.log', 'h': '/tmp/suite_all8.log'}[rnd]
if os.path.exists(log):
    for line in open(log):
        if line.startswith(f'{pid} mut{n} '):
            suite = line.strip()
meta = {'breaks': pid, 'origin': 'written by a sub-agent from the property text alone (no access to /verif)' + (f', round {"2345678"["bcdefgh".index(rnd)]}' if rnd else ''),
        'author_notes': notes, 'detected_by': det,
        'what_was_run': f'tools/evalmut.sh (demo exits 0 on the clean tree, non-zero with the patch); full pinned suite on the patched tree: {suite}; '
                        + (f'tools/seedtest.sh seeded/{pid}-m{k}/patch.diff {" ".join(det)} -> each exits 1 with a VIOLATION line' if det else
                           'no check reports it (see note)'), 'note': note}
json.dump(meta, open(f'{dst}/meta.json', 'w'), indent=1)
print('ingested', dst)
