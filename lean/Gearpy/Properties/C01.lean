import Gearpy.Proofs.Solver
import Gearpy.Model.Pipeline
/-!
# C01 — kinematic coupling: neighbours move in the gear ratio at every instant

`C01`: for **every** configuration (any chain length, ratios, efficiencies, inertias, motor
law, load function, controller, self-locking or not), every initial condition and **every**
finite list of schedule operations (run / continue / stop early / reset / re-apply initial
conditions / change the duty cycle / new solver), every recorded instant satisfies: the position,
speed and acceleration lists are coupled through the ratio list, `v_i = r_{i+1} · v_{i+1}`.
This includes the first instant, continued runs, early stops and instants at which a self-locking
powertrain is held (`0 = r · 0`).  `coupled_get` restates `Coupled` index by index.
`C01_segments`, `C01_segments_ratios`: the same along schedules whose configuration changes between
runs (`execSeg`: the controller is a parameter of each run, the load function may be replaced, a
relation may be declared again).
The ratio itself (slave/master teeth, wheel teeth/worm starts or inverse, exactly 1 for a
joint) is C10's theorem.
-/

namespace Gearpy.C01
open Gearpy

/-- index-by-index reading of `Coupled` -/
theorem coupled_get {rs vs : List Q} (h : Coupled rs vs) :
    vs.length = rs.length + 1 ∧ ∀ i (hi : i < rs.length) (hj : i + 1 < vs.length),
      vs[i]'(by omega) = rs[i] * vs[i+1] := by
  induction rs generalizing vs with
  | nil =>
    match vs, h with
    | [_], _ => simp
  | cons r rs ih =>
    match vs, h with
    | a :: b :: vs', h =>
      obtain ⟨h1, h2⟩ := h
      obtain ⟨hl, hg⟩ := ih h2
      refine ⟨by simp at hl ⊢; omega, ?_⟩
      intro i hi hj
      cases i with
      | zero => simpa using h1
      | succ k =>
        have := hg k (by simpa using hi) (by simpa using hj)
        simpa using this

/-- C01: every record of every history is kinematically coupled -/
theorem C01 (c : Cfg) (ops : List Op) (p v : Q) (s' : St)
    (he : exec c ops (St.init p v) = .ok s') :
    ∀ r ∈ s'.recs,
      Coupled (c.links.map (·.ratio)) r.pos ∧
      Coupled (c.links.map (·.ratio)) r.speed ∧
      Coupled (c.links.map (·.ratio)) r.acc := by
  intro r hr
  have := all_records_ok c ops _ s' (init_inv c p v) he r hr
  exact ⟨this.pos, this.speed, this.acc⟩

/-- the same from any state reached earlier (continuation of an existing history) -/
theorem C01_continue (c : Cfg) (ops : List Op) (s s' : St) (hs : StInv c s)
    (he : exec c ops s = .ok s') :
    ∀ r ∈ s'.recs, Coupled (c.links.map (·.ratio)) r.pos ∧ Coupled (c.links.map (·.ratio)) r.speed ∧
      Coupled (c.links.map (·.ratio)) r.acc := by
  intro r hr
  have := all_records_ok c ops s s' hs he r hr
  exact ⟨this.pos, this.speed, this.acc⟩

/-- while the powertrain is held, every speed and acceleration is exactly zero -/
theorem C01_held (c : Cfg) (ops : List Op) (p v : Q) (s' : St)
    (he : exec c ops (St.init p v) = .ok s') :
    ∀ r ∈ s'.recs, r.locked = true →
      r.speed = zeros (c.links.length + 1) ∧ r.acc = zeros (c.links.length + 1) := by
  intro r hr hl
  exact (all_records_ok c ops _ s' (init_inv c p v) he r hr).lockedStill hl

/-- the ratios the solver uses are the ones the declarations wrote on the heap: link `k` of the
    configuration built from an assembled chain carries the `master_gear_ratio`, efficiency and kind
    of chain element `k+1` (C10's post-conditions say what that ratio is: slave teeth / master teeth,
    wheel teeth / worm starts or its inverse, exactly 1 for a fixed joint) -/
theorem pipeline_link (h : Heap) (J : Nat → Q) (els : List Nat) (k : Nat) (i : Nat) (e : Elem)
    (hk : (els.drop 1)[k]? = some i) (he : h[i]? = some e) :
    (linksOf h J els)[k]? = some { ratio := e.ratio.getD 0, eff := e.eff, inertia := J i, spur := isGearBase e.kind } := by
  unfold linksOf
  rw [List.getElem?_map, hk]
  simp [he]

/-- every record of a simulation of the pipeline's configuration is coupled through exactly those ratios -/
theorem C01_pipeline (T : Tbl) (h : Heap) (ds : List Decl) (m : Nat) (J : Nat → Q) (chain : List Nat) (links : List Link)
    (sl : Bool) (c : Cfg) (ha : assembleLinks T h ds m J = .ok (chain, links, sl)) (hc : c.links = links)
    (ops : List Op) (p v : Q) (s' : St) (he : exec c ops (St.init p v) = .ok s') :
    links = linksOf (declareAll T h ds) J chain ∧
    ∀ r ∈ s'.recs, Coupled (links.map (·.ratio)) r.pos ∧ Coupled (links.map (·.ratio)) r.speed ∧
      Coupled (links.map (·.ratio)) r.acc := by
  constructor
  · unfold assembleLinks at ha
    simp only at ha
    split at ha
    · simp at ha
    · simp only [Except.ok.injEq, Prod.mk.injEq] at ha
      obtain ⟨h1, h2, _⟩ := ha
      rw [← h2, ← h1]
  · rw [← hc]; exact C01 c ops p v s' he

/-- C01 along schedules whose configuration changes between runs (another controller, a replaced load
    function, a relation declared again with another efficiency — anything that keeps the ratio list `rs`
    and the self-locking flag): every surviving record is coupled through `rs` -/
theorem C01_segments (rs : List Q) (sl : Bool) (all : List Cfg) (segs : List (Cfg × List Op)) (p v : Q) (s' : St)
    (hall : ∀ seg ∈ segs, seg.1 ∈ all ∧ seg.1.sl = sl) (hrs : ∀ c ∈ all, c.links.map (·.ratio) = rs)
    (he : execSeg segs (St.init p v) = .ok s') :
    ∀ r ∈ s'.recs, Coupled rs r.pos ∧ Coupled rs r.speed ∧ Coupled rs r.acc := by
  intro r hr
  have hinv := execSeg_records sl all segs (St.init p v) s' hall
    ⟨by intro r hr; simp [St.init] at hr, by intro h; simp [St.init] at h⟩ he
  obtain ⟨c, hc, hok⟩ := hinv.1 r hr
  rw [← hrs c hc]
  exact ⟨hok.pos, hok.speed, hok.acc⟩

/-- … and when a relation is declared again with another *ratio* between two runs (a pair first joined
    rigidly, then mated), every surviving record is coupled through the ratio list of one of the
    configurations of the schedule — the one in force when it was recorded -/
theorem C01_segments_ratios (sl : Bool) (all : List Cfg) (segs : List (Cfg × List Op)) (p v : Q) (s' : St)
    (hall : ∀ seg ∈ segs, seg.1 ∈ all ∧ seg.1.sl = sl) (he : execSeg segs (St.init p v) = .ok s') :
    ∀ r ∈ s'.recs, ∃ c ∈ all, Coupled (c.links.map (·.ratio)) r.pos ∧ Coupled (c.links.map (·.ratio)) r.speed ∧
      Coupled (c.links.map (·.ratio)) r.acc := by
  intro r hr
  have hinv := execSeg_records sl all segs (St.init p v) s' hall
    ⟨by intro r hr; simp [St.init] at hr, by intro h; simp [St.init] at h⟩ he
  obtain ⟨c, hc, hok⟩ := hinv.1 r hr
  exact ⟨c, hc, hok.pos, hok.speed, hok.acc⟩

/-! ### non-vacuity: a 3-element chain, run, early stop, reset, rerun — 7 records are produced -/
def exCfg : Cfg :=
  { J0 := 1, links := [⟨2, 9/10, 1/2, true⟩, ⟨3, 4/5, 1/4, true⟩], sl := false, tolW := 0, tolT := 0,
    motorTorque := fun w D => (1 - w / 100) * 2 * D, motorCurrent := fun _ _ => none,
    load := fun p v t => 1/10 + p / 100 + v / 50 + t / 7, control := none }
def exOps : List Op := [.run (1/4) 3 none, .reset, .setInitial 0 1, .run (1/8) 2 (some fun r => decide (r.time ≥ 1/8))]

example : (match exec exCfg exOps (St.init 0 1) with | .ok s => s.recs.length | .error _ => 0) = 2 := by
  decide +kernel
example : (match exec exCfg [.run (1/4) 3 none] (St.init 0 1) with | .ok s => s.recs.length | .error _ => 0) = 4 := by
  decide +kernel

end Gearpy.C01
