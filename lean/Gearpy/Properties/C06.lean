import Gearpy.Proofs.Units
/-!
# C06 — quantity arithmetic is dimensionally sound; subtraction undoes addition

* `spec` is the table of results dictated by dimensional analysis, written from the property
  statement; `dim` is the independent dimension-vector cross-check (`spec_dim_consistent`).
* `add_kind`, `sub_kind`, `mul_kind`, `div_kind`: whatever a binary operation *returns* has the
  dictated kind (a cell the spec forbids can only raise: `binop_forbidden`).
* `add_si`, `mul_si`, `div_si`: the SI magnitude of the result is the sum / product / quotient
  of the operands' SI magnitudes, for every unit choice.
* `sub_si_partial`: the same for `−`, **excluding exactly** the two call sites
  `Angle − AngularPosition` and `TimeInterval − Time`, which add (known finding K2):
  the full statement `sub_si_full` is false of the code, `sub_adds_witness` and
  `sub_si_full_false` prove it with `Angle 5 rad − AngularPosition 2 rad = 7 rad`.
* `qty_add_sub_cancel` ((a+b)−b = a) and `sub_antisymm` (a−b = −(b−a)).
-/

namespace Gearpy.C06
open Gearpy Gearpy.Kind

variable {T : Tbl}

/-- result kinds: a quantity kind or a plain number -/
inductive RK | k (k : Kind) | num deriving DecidableEq, Repr
inductive OpK | add | sub | mul | div deriving DecidableEq, Repr
inductive VK | k (k : Kind) | num deriving DecidableEq, Repr

/-- the results dictated by dimensional analysis (from the property statement) -/
def spec : OpK → Kind → VK → Option RK
  | .add, a, .k b | .sub, a, .k b =>
      if a = b then some (.k a) else if baseOf a = baseOf b then some (.k (baseOf a)) else none
  | .add, _, .num | .sub, _, .num => none
  | .mul, a, .num => some (.k a)
  | .mul, a, .k b =>
      if (baseOf a = time ∧ b = angSpeed) ∨ (a = angSpeed ∧ baseOf b = time) then some (.k angPos)
      else if (baseOf a = time ∧ b = angAcc) ∨ (a = angAcc ∧ baseOf b = time) then some (.k angSpeed)
      else if a = length ∧ b = length then some (.k surface) else none
  | .div, a, .num => some (.k a)
  | .div, a, .k b =>
      if baseOf a = baseOf b then some .num
      else if a = torque ∧ b = inertia then some (.k angAcc)
      else if a = torque ∧ b = length then some (.k force)
      else if a = force ∧ b = surface then some (.k stress) else none

/-- dimension vectors (angle, time, mass, length, current) of the kinds -/
def dim : Kind → List Int
  | angPos | angle => [1, 0, 0, 0, 0]
  | angSpeed => [1, -1, 0, 0, 0]
  | angAcc => [1, -2, 0, 0, 0]
  | time | timeInt => [0, 1, 0, 0, 0]
  | inertia => [0, 0, 1, 2, 0]          -- kg m²  (per radian²: angles are dimensionless in torque = J·α)
  | torque => [1, -2, 1, 2, 0]          -- N m = kg m² s⁻² (× rad, so that torque / inertia = rad s⁻²)
  | length => [0, 0, 0, 1, 0]
  | surface => [0, 0, 0, 2, 0]
  | force => [1, -2, 1, 1, 0]           -- torque / length
  | stress => [1, -2, 1, -1, 0]         -- force / surface
  | current => [0, 0, 0, 0, 1]

def dimRK : RK → List Int | .k k => dim k | .num => [0, 0, 0, 0, 0]
def dimVK : VK → List Int | .k k => dim k | .num => [0, 0, 0, 0, 0]
def allKinds : List Kind := [angPos, angle, angSpeed, angAcc, inertia, torque, time, timeInt, length, surface, force, stress, current]
def allVK : List VK := VK.num :: allKinds.map VK.k

/-- dimension check of one cell of the spec table -/
def cellOk (op : OpK) (a : Kind) (b : VK) : Bool :=
  match spec op a b with
  | none => true
  | some r => match op with
    | .add | .sub => dimRK r == dim a && dimVK b == dim a
    | .mul => dimRK r == List.zipWith (· + ·) (dim a) (dimVK b)
    | .div => dimRK r == List.zipWith (· - ·) (dim a) (dimVK b)

/-- the spec table is dimensionally consistent: sums keep the dimension, products add, quotients subtract -/
theorem spec_dim_consistent :
    ∀ op ∈ [OpK.add, .sub, .mul, .div], ∀ a ∈ allKinds, ∀ b ∈ allVK, cellOk op a b = true := by
  decide +kernel

def vk : Val → VK | .q x => .k x.kind | .n _ => .num
def rk : Val → RK | .q x => .k x.kind | .n _ => .num
/-- SI magnitude of a right operand -/
def valSI (T : Tbl) : Val → Q | .q o => siMag T o | .n x => x
def binop (T : Tbl) : OpK → Qty → Val → Except Err Val
  | .add => add T | .sub => sub T | .mul => mul T | .div => div T

theorem add_kind (T : Tbl) (a : Qty) (b r : Val) (h : add T a b = .ok r) :
    spec .add a.kind (vk b) = some (rk r) := by
  cases b with
  | n x => simp [add] at h
  | q o =>
  unfold add at h; simp only at h
  split at h
  · simp at h
  · rename_i hf
    simp only [Bool.not_eq_true, Bool.not_eq_false'] at hf
    have hf' := (sameFamily_iff _ _).mp (by simpa using hf)
    split at h
    · simp at h
    · rename_i r1 hm
      simp only [mk_eq_ok] at hm
      split at h
      · rename_i hs
        split at h
        · rename_i he
          simp only [Except.ok.injEq] at h; subst h
          have : o.kind = a.kind := by simpa using he
          simp [spec, rk, vk, hm.2, this]
        · rename_i he
          simp only [mk_map_eq_ok] at h
          have hne : ¬ a.kind = o.kind := by intro hc; apply he; simp [hc]
          simp [spec, rk, vk, h.2, hne, hf']
      · rename_i hs
        simp only [Except.ok.injEq] at h; subst h
        have hb := baseOf_of_not_sub (by simpa using hs)
        by_cases he : a.kind = o.kind
        · simp [spec, rk, vk, hm.2, he]
        · simp [spec, rk, vk, hm.2, he, hf']; rw [← hf', hb]

theorem sub_kind (T : Tbl) (a : Qty) (b r : Val) (h : sub T a b = .ok r) :
    spec .sub a.kind (vk b) = some (rk r) := by
  cases b with
  | n x => simp [sub] at h
  | q o =>
  unfold sub at h; simp only at h
  split at h
  · simp at h
  · rename_i hf
    simp only [Bool.not_eq_true, Bool.not_eq_false'] at hf
    have hf' := (sameFamily_iff _ _).mp (by simpa using hf)
    split at h
    · simp at h
    · rename_i r1 hm
      simp only [mk_eq_ok] at hm
      split at h
      · rename_i hs
        split at h
        · rename_i he
          simp only [Except.ok.injEq] at h; subst h
          have : o.kind = a.kind := by simpa using he
          simp [spec, rk, vk, hm.2, this]
        · rename_i he
          simp only [mk_map_eq_ok] at h
          have hne : ¬ a.kind = o.kind := by intro hc; apply he; simp [hc]
          simp [spec, rk, vk, h.2, hne, hf']
      · rename_i hs
        simp only [Except.ok.injEq] at h; subst h
        have hb := baseOf_of_not_sub (by simpa using hs)
        by_cases he : a.kind = o.kind
        · simp [spec, rk, vk, hm.2, he]
        · simp [spec, rk, vk, hm.2, he, hf']; rw [← hf', hb]

theorem mul_kind (T : Tbl) (a : Qty) (b r : Val) (h : mul T a b = .ok r) :
    spec .mul a.kind (vk b) = some (rk r) := by
  obtain ⟨ka, va, ua⟩ := a
  cases b with
  | n x =>
    unfold mul at h
    cases ka <;> simp at h <;> (try split at h) <;> simp_all [spec, vk, rk]
  | q o =>
    obtain ⟨ko, vo, uo⟩ := o
    cases ka <;> cases ko <;> simp [mul, isInst, baseOf] at h <;> simp_all [spec, vk, rk, baseOf]

theorem div_kind (T : Tbl) (a : Qty) (b r : Val) (h : div T a b = .ok r) :
    spec .div a.kind (vk b) = some (rk r) := by
  obtain ⟨ka, va, ua⟩ := a
  cases b with
  | n x =>
    unfold div at h; simp only at h
    split at h
    · simp at h
    · simp only [mk_map_eq_ok] at h; simp [spec, vk, rk, h.2]
  | q o =>
    obtain ⟨ko, vo, uo⟩ := o
    unfold div at h; simp only at h
    split at h
    · simp at h
    · cases ka <;> cases ko <;> simp [sameFamily, isInst, baseOf] at h <;>
        (try subst h) <;> simp_all [spec, vk, rk, baseOf]

/-- C06 (kinds): whatever a binary operation returns has the kind dimensional analysis dictates -/
theorem binop_kind (T : Tbl) (op : OpK) (a : Qty) (b r : Val) (h : binop T op a b = .ok r) :
    spec op a.kind (vk b) = some (rk r) := by
  cases op
  · exact add_kind T a b r h
  · exact sub_kind T a b r h
  · exact mul_kind T a b r h
  · exact div_kind T a b r h

/-- a cell the spec forbids can only raise -/
theorem binop_forbidden (T : Tbl) (op : OpK) (a : Qty) (b : Val) (hs : spec op a.kind (vk b) = none) :
    ∃ e, binop T op a b = .error e := by
  cases hb : binop T op a b with
  | error e => exact ⟨e, rfl⟩
  | ok r => have := binop_kind T op a b r hb; rw [hs] at this; simp at this

/-- C06: SI magnitude of a sum -/
theorem add_si (g : T.Good) (a o r : Qty) (h : add T a (.q o) = .ok (.q r)) :
    siMag T r = siMag T a + siMag T o := by
  unfold add at h; simp only at h
  split at h
  · simp at h
  · rename_i hf
    have hf' : baseOf a.kind = baseOf o.kind := (sameFamily_iff _ _).mp (by simpa using hf)
    have key : conv T o a.unit * T.f a.kind a.unit = o.value * T.f o.kind o.unit := by
      rw [fam_eq g hf' a.unit]; exact conv_mul g o a.unit
    split at h
    · simp at h
    · rename_i r1 hm
      simp only [mk_eq_ok] at hm
      have main : ∀ k', baseOf k' = baseOf a.kind →
          siMag T ⟨k', a.value + conv T o a.unit, a.unit⟩ = siMag T a + siMag T o := by
        intro k' hk'
        simp only [siMag]; rw [fam_eq g hk' a.unit, add_mul, key]
      split at h
      · split at h
        · simp only [Except.ok.injEq, Val.q.injEq] at h; subst h; rw [hm.2]; exact main _ rfl
        · simp only [mk_map_eq_ok, Val.q.injEq] at h; rw [h.2]
          exact main _ (by cases a.kind <;> rfl)
      · simp only [Except.ok.injEq, Val.q.injEq] at h; subst h; rw [hm.2]; exact main _ rfl

/-- the two call sites whose subtraction adds (K2) -/
def K2cell (a o : Kind) : Prop := isSub a = true ∧ o ≠ a

/-- C06 partial: SI magnitude of a difference, excluding the two call sites that add (K2) -/
theorem sub_si_partial (g : T.Good) (a o r : Qty) (hK2 : ¬ K2cell a.kind o.kind)
    (h : sub T a (.q o) = .ok (.q r)) : siMag T r = siMag T a - siMag T o := by
  unfold sub at h; simp only at h
  split at h
  · simp at h
  · rename_i hf
    have hf' : baseOf a.kind = baseOf o.kind := (sameFamily_iff _ _).mp (by simpa using hf)
    have key : conv T o a.unit * T.f a.kind a.unit = o.value * T.f o.kind o.unit := by
      rw [fam_eq g hf' a.unit]; exact conv_mul g o a.unit
    split at h
    · simp at h
    · rename_i r1 hm
      simp only [mk_eq_ok] at hm
      have main : siMag T ⟨a.kind, a.value - conv T o a.unit, a.unit⟩ = siMag T a - siMag T o := by
        simp only [siMag]; rw [sub_mul, key]
      split at h
      · rename_i hs
        split at h
        · simp only [Except.ok.injEq, Val.q.injEq] at h; subst h; rw [hm.2]; exact main
        · rename_i he; exfalso; apply hK2; exact ⟨hs, by intro hc; apply he; simp [hc]⟩
      · simp only [Except.ok.injEq, Val.q.injEq] at h; subst h; rw [hm.2]; exact main

/-- the statement at full strength (false of the code, see `sub_si_full_false`) -/
def sub_si_full (T : Tbl) : Prop :=
  ∀ a o r : Qty, sub T a (.q o) = .ok (.q r) → siMag T r = siMag T a - siMag T o

/-- K2 witness: Angle − AngularPosition adds -/
theorem sub_adds_witness (T : Tbl) :
    sub T ⟨angle, 5, 0⟩ (.q ⟨angPos, 2, 0⟩) = .ok (.q ⟨angPos, 7, 0⟩) := by
  simp [sub, sameFamily, baseOf, isSub, conv, mk, signOk, Except.map]; norm_num

theorem sub_adds_witness_time (T : Tbl) :
    sub T ⟨timeInt, 5, 0⟩ (.q ⟨time, 2, 0⟩) = .ok (.q ⟨time, 7, 0⟩) := by
  simp [sub, sameFamily, baseOf, isSub, conv, mk, signOk, Except.map]; norm_num

theorem sub_si_full_false (g : T.Good) : ¬ sub_si_full T := by
  intro h
  have := h _ _ _ (sub_adds_witness T)
  have hp := g.pos angPos 0
  have hf : T.f angle 0 = T.f angPos 0 := g.fam angle 0
  simp only [siMag, hf] at this
  nlinarith

/-- C06: SI magnitude of a product (quantity × quantity and quantity × number) -/
theorem mul_si (g : T.Good) (a : Qty) (b : Val) (r : Qty) (h : mul T a b = .ok (.q r)) :
    siMag T r = siMag T a * valSI T b := by
  obtain ⟨ka, va, ua⟩ := a
  cases b with
  | n x =>
    unfold mul at h
    cases ka <;> simp at h <;> (try split at h) <;> simp_all [siMag, valSI] <;> ring
  | q o =>
    have ha := toSI_eq g ⟨ka, va, ua⟩
    have ho := toSI_eq g o
    obtain ⟨ko, vo, uo⟩ := o
    cases ka <;> cases ko <;> simp [mul, isInst, baseOf] at h <;>
      (obtain ⟨_, rfl⟩ := h; simp only [siMag, valSI, g.si1, mul_one] at *; rw [ha, ho])

/-- C06: SI magnitude of a quotient that is a quantity -/
theorem div_si (g : T.Good) (a : Qty) (b : Val) (r : Qty) (h : div T a b = .ok (.q r)) :
    siMag T r = siMag T a / valSI T b := by
  obtain ⟨ka, va, ua⟩ := a
  cases b with
  | n x =>
    unfold div at h; simp only at h
    split at h
    · simp at h
    · simp only [mk_map_eq_ok, Val.q.injEq] at h; rw [h.2]; simp only [siMag, valSI]; ring
  | q o =>
    have ha := toSI_eq g ⟨ka, va, ua⟩
    have ho := toSI_eq g o
    obtain ⟨ko, vo, uo⟩ := o
    unfold div at h; simp only at h
    split at h
    · simp at h
    · cases ka <;> cases ko <;> simp [sameFamily, isInst, baseOf] at h <;>
        (obtain ⟨_, rfl⟩ := h; simp only [siMag, valSI, g.si1, mul_one] at *; rw [ha, ho])

/-- C06: a same-family quotient is the plain ratio of the SI magnitudes -/
theorem div_num_si (g : T.Good) (a o : Qty) (x : Q) (h : div T a (.q o) = .ok (.n x)) :
    x = siMag T a / siMag T o := by
  unfold div at h; simp only at h
  split at h
  · simp at h
  · split at h
    · rename_i hc
      simp only [Except.ok.injEq, Val.n.injEq] at h
      have hf' : baseOf a.kind = baseOf o.kind := by
        simp only [Bool.and_eq_true] at hc; exact (sameFamily_iff _ _).mp hc.1
      have hpa := g.pos a.kind a.unit
      rw [← h, conv_eq_div g o a.unit, ← fam_eq g hf' a.unit]
      simp only [siMag]
      have : T.f a.kind a.unit ≠ 0 := ne_of_gt hpa
      field_simp
    · split at h <;> simp at h

/-- … hence a quotient of two non-null quantities is never 0, however small the ratio, and it gives the dividend
    back when multiplied by the divisor's magnitude (no snapping to a nearby integer) -/
theorem div_num_ne_zero (g : T.Good) (a o : Qty) (x : Q) (h : div T a (.q o) = .ok (.n x))
    (ha : a.value ≠ 0) (ho : o.value ≠ 0) : x ≠ 0 ∧ x * siMag T o = siMag T a := by
  have hx := div_num_si g a o x h
  have hpa : siMag T a ≠ 0 := mul_ne_zero ha (ne_of_gt (g.pos a.kind a.unit))
  have hpo : siMag T o ≠ 0 := mul_ne_zero ho (ne_of_gt (g.pos o.kind o.unit))
  refine ⟨?_, ?_⟩
  · rw [hx]; exact div_ne_zero hpa hpo
  · rw [hx]; field_simp

/-- C06: (a + b) − b = a for quantities of the same kind -/
theorem qty_add_sub_cancel (a o s : Qty) (hk : o.kind = a.kind)
    (h1 : add T a (.q o) = .ok (.q s)) (r : Qty) (h2 : sub T s (.q o) = .ok (.q r)) : r = a := by
  have hs : s = ⟨a.kind, a.value + conv T o a.unit, a.unit⟩ := by
    unfold add at h1; simp only at h1
    split at h1
    · simp at h1
    · split at h1
      · simp at h1
      · rename_i r1 hm; simp only [mk_eq_ok] at hm
        split at h1
        · simp [hk] at h1; rw [← h1, hm.2]
        · simp only [Except.ok.injEq, Val.q.injEq] at h1; rw [← h1, hm.2]
  subst hs
  unfold sub at h2; simp only at h2
  split at h2
  · simp at h2
  · split at h2
    · simp at h2
    · rename_i r1 hm; simp only [mk_eq_ok] at hm
      have hv : a.value + conv T o a.unit - conv T o a.unit = a.value := by ring
      split at h2
      · simp [hk] at h2; rw [← h2, hm.2, hv]
      · simp only [Except.ok.injEq, Val.q.injEq] at h2; rw [← h2, hm.2, hv]

/-- C06: a − b = −(b − a) in SI magnitude, whenever both sides are defined (outside the K2 cells) -/
theorem sub_antisymm (g : T.Good) (a o r1 r2 r3 : Qty)
    (hK1 : ¬ K2cell a.kind o.kind) (hK2 : ¬ K2cell o.kind a.kind)
    (h1 : sub T a (.q o) = .ok (.q r1)) (h2 : sub T o (.q a) = .ok (.q r2)) (h3 : neg r2 = .ok r3) :
    siMag T r1 = siMag T r3 := by
  rw [sub_si_partial g a o r1 hK1 h1]
  have := sub_si_partial g o a r2 hK2 h2
  unfold neg at h3; simp only [mk_eq_ok] at h3
  rw [h3.2]; simp only [siMag] at *; linarith

/-! ### non-vacuity: the hypotheses are met by concrete quantities -/

example : add T ⟨torque, 3, 0⟩ (.q ⟨torque, 4, 0⟩) = .ok (.q ⟨torque, 7, 0⟩) := by
  simp [add, sameFamily, baseOf, isSub, conv, mk, signOk]; norm_num
example : ¬ K2cell torque torque := by simp [K2cell, isSub]
example : K2cell angle angPos := by simp [K2cell, isSub]

end Gearpy.C06
