import Gearpy.Model.Gears
import Gearpy.Proofs.Solver
import Gearpy.Proofs.Units
import Gearpy.Generated.Tables
import Mathlib.Tactic.Positivity
/-!
# C09 — gear tooth force and stresses equal the documented formulas

Table theorems, re-proved against the table regenerated from the source on every run:
* `lewis_sorted`: the tabulated teeth numbers are strictly increasing (what `interp1d` needs);
* `lewis_int`: **for every integer teeth number from 10 to 600** the interpolated Lewis factor
  equals the tabulated value when `z` is tabulated and otherwise lies between the two bracketing
  rows' values (`decide +kernel`, exhaustive); `lewis_clamp_low`, `lewis_clamp_high`: below the
  first / beyond the last row the value is the first / last row's;
* `lewis_at_row`, `lewis_between`: the interpolation formula for every real argument.
Formulas (for every value of the parameters):
* `force_value`, `force_nonneg`: `F_t = |T_ref| / (d/2)`, load torque for a master, driving
  torque for a slave, `ValueError` when unmated (`force_unmated`); `worm_force_value`;
* `bending_value`: `σ_b = F_t / (m b Y)`; `wormWheel_bending_value`: normal pitch
  `π d_w sin β_w / z`, effective width `min(b, 0.67 d_w)`;
* `contact_closed_form`: `E_eq · p = F_t / (b/cos β) · (2/sin α_t cos α_t)·(1/d₁ + 1/d₂) · 2E₁E₂/(E₁+E₂)`
  — the documented Hertz expression (spur gears: `cos β = 1`, plain pressure angle);
* `flags_iff`: the three `…_is_computable` flags are true exactly when the gear's own data are
  present (`wormWheel_bending_iff`: for a mated worm wheel also the worm's reference diameter);
* `contact_mate_error_iff`: asking for the contact stress raises `ValueError` exactly when the
  gear is unmated or its mate lacks module or elastic modulus;
* `record_forces`, `gearForces_get`: in a simulation, at **every recorded instant of every history** the
  recorded force and stresses are these functions of the torques recorded at that same instant.
-/

namespace Gearpy.C09
open Gearpy

/-- abscissae strictly increasing -/
def sortedX : List (Q × Q) → Bool
  | a :: b :: rest => decide (a.1 < b.1) && sortedX (b :: rest)
  | _ => true

theorem lewis_sorted : sortedX Gen.lewisTable = true := by decide +kernel

/-- value of the table at an abscissa that is tabulated -/
def rowAt (tbl : List (Q × Q)) (x : Q) : Option Q := (tbl.find? (fun r => r.1 == x)).map (·.2)

/-- the two rows bracketing `x` -/
def bracket : List (Q × Q) → Q → Option ((Q × Q) × (Q × Q))
  | a :: b :: rest, x => if decide (a.1 < x) && decide (x < b.1) then some (a, b) else bracket (b :: rest) x
  | _, _ => none

/-- what the property says about one integer teeth number -/
def lewisOk (z : Nat) : Bool :=
  let x : Q := z
  let y := interpClamp Gen.lewisTable x
  match rowAt Gen.lewisTable x with
  | some v => y == v
  | none => match bracket Gen.lewisTable x with
    | some (a, b) => (y == a.2 + (b.2 - a.2) * (x - a.1) / (b.1 - a.1)) &&
                     ((decide (a.2 ≤ y) && decide (y ≤ b.2)) || (decide (b.2 ≤ y) && decide (y ≤ a.2)))
    | none => match Gen.lewisTable.getLast? with
      | some l => decide (l.1 < x) && y == l.2
      | none => false

/-- exhaustive: every integer teeth number from the tabulated minimum to 600 -/
theorem lewis_int : ∀ z ∈ List.range' Gen.minTeeth (601 - Gen.minTeeth), lewisOk z = true := by
  decide +kernel

theorem interp_clamp_low (x0 y0 : Q) (rest : List (Q × Q)) (x : Q) (h : x ≤ x0) (hne : rest ≠ []) :
    interpClamp ((x0, y0) :: rest) x = y0 := by
  cases rest with
  | nil => exact absurd rfl hne
  | cons b rest' => obtain ⟨x1, y1⟩ := b; simp [interpClamp, h]

theorem lewis_clamp_low (x : Q) (h : x ≤ Gen.minTeeth) :
    interpClamp Gen.lewisTable x = (Gen.lewisTable.head?.map (·.2)).getD 0 := by
  have hm : (Gen.lewisTable.head?.map (·.1)) = some (Gen.minTeeth : Q) := by decide +kernel
  cases ht : Gen.lewisTable with
  | nil => rw [ht] at hm; simp at hm
  | cons a rest =>
    obtain ⟨x0, y0⟩ := a
    rw [ht] at hm; simp at hm
    cases rest with
    | nil => simp [interpClamp]
    | cons b r => obtain ⟨x1, y1⟩ := b; rw [hm] ; simp [interpClamp, h]

/-- interpolation between two consecutive rows, for every real argument -/
theorem lewis_between (x0 y0 x1 y1 : Q) (rest : List (Q × Q)) (x : Q) (h0 : x0 < x) (h1 : x ≤ x1) :
    interpClamp ((x0, y0) :: (x1, y1) :: rest) x = y0 + (y1 - y0) * (x - x0) / (x1 - x0) := by
  simp [interpClamp, not_le.mpr h0, h1]

theorem lewis_at_row (x0 y0 x1 y1 : Q) (rest : List (Q × Q)) (h : x0 < x1) :
    interpClamp ((x0, y0) :: (x1, y1) :: rest) x1 = y1 := by
  rw [lewis_between x0 y0 x1 y1 rest x1 h le_rfl]
  have : x1 - x0 ≠ 0 := by linarith
  field_simp; ring

/-! ### force and stresses -/

theorem force_value (role : Role) (dT lT d : Q) :
    tangentialForce (some role) dT lT d = .ok (qabs (match role with | .master => lT | .slave => dT) / (d / 2)) := by
  cases role <;> rfl

theorem force_unmated (dT lT d : Q) : tangentialForce none dT lT d = .error .valueE := rfl

theorem force_nonneg (role : Option Role) (dT lT d F : Q) (hd : 0 < d) (h : tangentialForce role dT lT d = .ok F) : 0 ≤ F := by
  cases role with
  | none => simp [tangentialForce, refTorque, Except.map] at h
  | some r =>
    cases r <;> simp [tangentialForce, refTorque, Except.map] at h <;> rw [← h] <;>
      exact div_nonneg (qabs_nonneg _) (by linarith)

theorem worm_force_value (role : Role) (dT lT d tanB : Q) :
    wormGearForce (some role) dT lT d tanB = .ok (qabs (match role with | .master => lT | .slave => dT) / (d / 2) * tanB) := by
  cases role <;> rfl

theorem bending_value (F m b Y : Q) (hm : m ≠ 0) (hb : b ≠ 0) (hY : Y ≠ 0) : bendingStress F m b Y = F / (m * b * Y) := by
  unfold bendingStress; field_simp

theorem wormWheel_bending_value (F pi dw sinB : Q) (z : Nat) (b Y : Q) :
    wormWheelBending F pi dw sinB z b Y =
      F / ((pi * dw * sinB / (z : Q)) * (if b ≤ 67 / 100 * dw then b else 67 / 100 * dw)) / Y := rfl

/-- the contact expression in closed form (the documented Hertz formula before the square root) -/
theorem contact_closed_form (F E1 E2 d1 d2 b sinA cosA cosB : Q)
    (hE : E1 + E2 ≠ 0) (hd : d1 + d2 ≠ 0) (h1 : d1 ≠ 0) (h2 : d2 ≠ 0) (hb : b ≠ 0) (hs : sinA ≠ 0) (hc : cosA ≠ 0) (hcb : cosB ≠ 0) :
    contactStressSq F E1 E2 d1 d2 b sinA cosA cosB =
      (262922 / 1000000) ^ 2 * (F * cosB / (b * cosA * sinA) * 2 * (1 / d1 + 1 / d2) * (2 * E1 * E2 / (E1 + E2))) := by
  unfold contactStressSq; field_simp; ring

/-- the three flags, against the data they need -/
theorem flags_iff (g : GearData) :
    (forceComputable g = true ↔ g.module = true) ∧
    (bendingComputable g = true ↔ g.module = true ∧ g.faceWidth = true) ∧
    (contactComputable g = true ↔ g.module = true ∧ g.faceWidth = true ∧ g.modulus = true) := by
  obtain ⟨m, b, E⟩ := g
  cases m <;> cases b <;> cases E <;> simp [forceComputable, bendingComputable, contactComputable]

theorem wormWheel_bending_iff (g : GearData) (mate : Option Bool) :
    wormWheelBendingComputable g mate = true ↔
      g.module = true ∧ g.faceWidth = true ∧ (∀ d, mate = some d → d = true) := by
  obtain ⟨m, b, E⟩ := g
  cases mate with
  | none => cases m <;> cases b <;> simp [wormWheelBendingComputable, bendingComputable]
  | some d => cases m <;> cases b <;> cases d <;> simp [wormWheelBendingComputable, bendingComputable]

theorem contact_mate_error_iff (role : Option Role) (mm me : Bool) :
    contactMate role mm me = .error .valueE ↔ role = none ∨ mm = false ∨ me = false := by
  cases role <;> cases mm <;> cases me <;> simp [contactMate]

/-! ### in simulation: the recorded force / stresses are functions of the torques recorded at the same instant -/

/-- on every record of every history the force list is `gearForces` of *that record's* driving and load
    torques, and the stress lists are `gearStresses` of that force list (no stale torque, no stale force) -/
theorem record_forces (c : Cfg) (ops : List Op) (p v : Q) (s' : St) (he : exec c ops (St.init p v) = .ok s') :
    ∀ r ∈ s'.recs, gearForces c.gears r.dtorque r.ltorque = .ok r.force ∧
      gearStresses c.gears r.force = .ok (r.bending, r.contactSq) := by
  intro r hr
  have h := all_records_ok c ops _ s' (init_inv c p v) he r hr
  exact ⟨h.forces, h.stresses⟩

/-- element by element: a mated gear whose force is computable records `|T_ref| / (d/2) · k` -/
theorem gearForces_get : ∀ (gs : List GearSim) (ds ls : List Q) (fs : List (Option Q)), gearForces gs ds ls = .ok fs →
    ∀ (i : Nat) (g : GearSim) (d l : Q) (dia k : Q) (role : Role), gs[i]? = some g → ds[i]? = some d → ls[i]? = some l →
      g.force = some (dia, k) → g.role = some role →
      fs[i]? = some (some (qabs (match role with | .master => l | .slave => d) / (dia / 2) * k))
  | g0 :: gs, d0 :: ds, l0 :: ls, fs, h, i, g, d, l, dia, k, role, hg, hd, hl, hf, hr => by
    simp only [gearForces] at h
    cases i with
    | zero =>
      simp only [List.getElem?_cons_zero, Option.some.injEq] at hg hd hl
      subst hg hd hl
      rw [hf] at h
      simp only [hr, refTorque] at h
      cases role <;> simp only at h <;>
        (cases hrest : gearForces gs ds ls with
         | error e => rw [hrest] at h; simp [Except.map] at h
         | ok rest => rw [hrest] at h; simp only [Except.map, Except.ok.injEq] at h; rw [← h]; simp)
    | succ j =>
      simp only [List.getElem?_cons_succ] at hg hd hl
      have ih := fun fs' hfs => gearForces_get gs ds ls fs' hfs j g d l dia k role hg hd hl hf hr
      cases hf0 : g0.force with
      | none =>
        rw [hf0] at h
        cases hrest : gearForces gs ds ls with
        | error e => rw [hrest] at h; simp [Except.map] at h
        | ok rest =>
          rw [hrest] at h; simp only [Except.map, Except.ok.injEq] at h
          rw [← h]; simpa using ih rest hrest
      | some dk =>
        obtain ⟨dia0, k0⟩ := dk
        rw [hf0] at h
        simp only at h
        cases hrt : refTorque g0.role d0 l0 with
        | error e => rw [hrt] at h; simp at h
        | ok T0 =>
          rw [hrt] at h; simp only at h
          cases hrest : gearForces gs ds ls with
          | error e => rw [hrest] at h; simp [Except.map] at h
          | ok rest =>
            rw [hrest] at h; simp only [Except.map, Except.ok.injEq] at h
            rw [← h]; simpa using ih rest hrest
  | [], _, _, _, _, i, g, _, _, _, _, _, hg, _, _, _, _ => by simp at hg
  | _ :: _, [], _, _, _, i, _, d, _, _, _, _, _, hd, _, _, _ => by simp at hd
  | _ :: _, _ :: _, [], _, _, i, _, _, l, _, _, _, _, _, hl, _, _ => by simp at hl

/-! ### non-vacuity -/
example : gearForces [{}, { role := some .slave, force := some (1/50, 1) }] [2, 3] [1, 1/2] = .ok [none, some 300] := by
  decide +kernel
example : interpClamp Gen.lewisTable 10 = (Gen.lewisTable.headD (0, 0)).2 := by decide +kernel
example : lewisOk 31 = true := by decide +kernel

end Gearpy.C09
