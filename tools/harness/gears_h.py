"""C09: tooth force, bending and contact stress of the real gear classes against the documented
formulas (independent Python oracle) and the Lean model; the three flags for every subset of the
optional data; the Lewis interpolation for every teeth number 10..600."""
import csv
import itertools
import math
import os
from fractions import Fraction as F

from common import R, parse_num, REPO
from harness import gen, sim
from harness.sim_props import near
from harness.si_spec import SI

import gearpy.units as U
from gearpy.mechanical_objects import SpurGear, HelicalGear, WormGear, WormWheel
from gearpy.utils import add_gear_mating, add_worm_gear_mating

J = U.InertiaMoment(1, 'kgm^2')
K_HERTZ = 0.262922


def read_csv(name):
    p = os.path.join(REPO, 'gearpy', 'mechanical_objects', 'gear_data', name)
    with open(p) as f:
        rows = list(csv.reader(f))
    return [[float(x) for x in r] for r in rows[1:]]


def lewis_oracle(tbl, z):
    if z <= tbl[0][0]:
        return tbl[0][1]
    if z >= tbl[-1][0]:
        return tbl[-1][1]
    for (x0, y0), (x1, y1) in zip(tbl, tbl[1:]):
        if x0 <= z <= x1:
            return y0 + (y1 - y0) * (z - x0) / (x1 - x0)
    raise AssertionError


def q(kind, si_value, rng, ru=True):
    return gen.in_unit(rng, kind, si_value, ru)


def Q(kind, vu):
    return getattr(U, kind)(vu[0], vu[1])


def sif(kind, vu):
    return float(F(vu[0]) * SI[kind][vu[1]])


def run_lewis(ctx):
    tbl = read_csv('lewis_factor_table.csv')
    zs = list(range(int(tbl[0][0]), 601))
    impl = []
    for z in zs:
        g = SpurGear(name='g', n_teeth=z, inertia_moment=J, module=U.Length(1, 'mm'), face_width=U.Length(10, 'mm'))
        impl.append(float(g.lewis_factor))
    ans = ctx.driver.ask([f'g lewis {z}' for z in zs]) if ctx.driver.available else [None] * len(zs)
    for z, y, a in zip(zs, impl, ans):
        case = {'t': 'lewis', 'z': z}
        ctx.case_done(case, nontrivial=True)
        want = lewis_oracle(tbl, z)
        if not near(y, want, abs(want), 1e-12):
            ctx.violation(case, {'why': f'Lewis factor of {z} teeth is {y}, interpolation of the table gives {want}'})
        if a is not None and not near(y, parse_num(a.split()[1]), abs(y), 1e-12):
            ctx.mismatch(case, y, a)
    ctx.count('lewis teeth numbers (exhaustive 10..600)', len(zs))


def gear_pair_case(rng):
    kind = rng.choice(['spur', 'helical'])
    c = {'t': 'pair', 'kind': kind, 'z': [rng.randint(10, 150), rng.randint(10, 150)],
         'm': rng.choice([0.3, 0.5, 1, 1.25, 2, 3, 5, 8]) * 1e-3, 'units': rng.random() < 0.8}
    ru = c['units']
    c['module'] = [q('Length', c['m'], rng, ru), q('Length', c['m'], rng, ru)]
    c['fw'] = [q('Length', rng.uniform(2, 60) * 1e-3, rng, ru), q('Length', rng.uniform(2, 60) * 1e-3, rng, ru)]
    c['E'] = [q('Stress', rng.uniform(1, 400) * 1e9, rng, ru), q('Stress', rng.uniform(1, 400) * 1e9, rng, ru)]
    # which optional data each gear has (every subset occurs)
    c['has'] = [[rng.random() < 0.85, rng.random() < 0.8, rng.random() < 0.7], [rng.random() < 0.85, rng.random() < 0.8, rng.random() < 0.7]]
    if kind == 'helical':
        c['helix'] = q('Angle', math.radians(rng.choice([0.0, rng.uniform(1, 60), rng.uniform(60, 89)])), rng, ru)
    c['dT'] = [q('Torque', rng.uniform(-50, 50), rng, ru), q('Torque', rng.uniform(-50, 50), rng, ru)]
    c['lT'] = [q('Torque', rng.uniform(-50, 50), rng, ru), q('Torque', rng.uniform(-50, 50), rng, ru)]
    if rng.random() < 0.25:
        kinds = {'module': 'Length', 'face_width': 'Length', 'elastic_modulus': 'Stress'}
        if kind == 'helical':
            kinds['helix_angle'] = 'Angle'
        c['inplace'] = [[rng.randrange(2), a, rng.choice(list(SI[k].keys()))] for a, k in rng.sample(sorted(kinds.items()), rng.randint(1, 3))]
    if rng.random() < 0.3:
        # a previous life: the gear was mated with another gear and its force / stresses were computed, then the
        # relation is re-declared with the mate under test
        c['pre'] = {'who': rng.choice([[0], [1], [0, 1]]), 'z': rng.randint(10, 150),
                    'm': q('Length', rng.choice([0.5, 1, 2, 4]) * 1e-3, rng, ru), 'fw': q('Length', rng.uniform(2, 60) * 1e-3, rng, ru),
                    'E': q('Stress', rng.uniform(1, 400) * 1e9, rng, ru), 'T': q('Torque', rng.uniform(-50, 50), rng, ru)}
    return c


def build_pair(c):
    gs = []
    for i in (0, 1):
        kw = {}
        if c['has'][i][0]:
            kw['module'] = Q('Length', c['module'][i])
        if c['has'][i][1]:
            kw['face_width'] = Q('Length', c['fw'][i])
        if c['has'][i][2]:
            kw['elastic_modulus'] = Q('Stress', c['E'][i])
        if c['kind'] == 'spur':
            g = SpurGear(name=f'g{i}', n_teeth=c['z'][i], inertia_moment=J, **kw)
        else:
            g = HelicalGear(name=f'g{i}', n_teeth=c['z'][i], inertia_moment=J, helix_angle=Q('Angle', c['helix']), **kw)
        gs.append(g)
    pre = c.get('pre')
    if pre:
        for i in pre['who']:
            kw = dict(face_width=Q('Length', pre['fw']), elastic_modulus=Q('Stress', pre['E']))
            if c['has'][i][0]:
                kw['module'] = Q('Length', c['module'][i])      # mating gears must share the module
            old = SpurGear(name='old', n_teeth=pre['z'], inertia_moment=J, **kw) if c['kind'] == 'spur' else \
                HelicalGear(name='old', n_teeth=pre['z'], inertia_moment=J, helix_angle=Q('Angle', c['helix']), **kw)
            add_gear_mating(gs[i], old, 0.8) if i == 0 else add_gear_mating(old, gs[i], 0.8)
            gs[i].driving_torque = Q('Torque', pre['T'])
            gs[i].load_torque = Q('Torque', pre['T'])
            try:
                if gs[i].tangential_force_is_computable:
                    gs[i].compute_tangential_force()
                    if gs[i].bending_stress_is_computable:
                        gs[i].compute_bending_stress()
                        if gs[i].contact_stress_is_computable:
                            gs[i].compute_contact_stress()
            except Exception:  # noqa: BLE001
                pass
    add_gear_mating(gs[0], gs[1], 0.9)
    # parameter objects re-expressed in place after construction / mating: same magnitudes, other units
    for i, attr, unit in c.get('inplace', []):
        q_ = getattr(gs[i], attr, None)
        if q_ is not None and hasattr(q_, 'to'):
            q_.to(unit, inplace=True)
    for i in (0, 1):
        gs[i].driving_torque = Q('Torque', c['dT'][i])
        gs[i].load_torque = Q('Torque', c['lT'][i])
    return gs


def eval_pair(ctx, cases, lewis_tbl):
    lines, owners = [], []
    for c in cases:
        ctx.case_done(c, nontrivial=True)
        ctx.count('pair ' + c['kind'] + (' (re-declared after an earlier mating)' if c.get('pre') else ''))
        if c.get('inplace'):
            ctx.count('pair with parameters converted in place after construction')
        try:
            gs = build_pair(c)
        except Exception as ex:  # noqa: BLE001
            ctx.violation(c, {'why': f'construction / mating of a valid gear pair raised {type(ex).__name__}: {str(ex)[:100]}'})
            continue
        beta = sif('Angle', c['helix']) if c['kind'] == 'helical' else 0.0
        for i in (0, 1):
            g, mate = gs[i], gs[1 - i]
            has_m, has_b, has_E = c['has'][i]
            flags = (g.tangential_force_is_computable, g.bending_stress_is_computable, g.contact_stress_is_computable)
            want_flags = (has_m, has_m and has_b, has_m and has_b and has_E)
            ctx.count(f'data subset {int(has_m)}{int(has_b)}{int(has_E)}')
            if flags != want_flags:
                ctx.violation(c, {'why': f'gear {i}: flags {flags}, own data present {(has_m, has_b, has_E)}'})
                continue
            if not has_m:
                continue
            role = 'master' if i == 0 else 'slave'
            Tref = sif('Torque', c['lT'][i]) if i == 0 else sif('Torque', c['dT'][i])
            d = c['z'][i] * sif('Length', c['module'][i])
            try:
                g.compute_tangential_force()
                Fimpl = sim.qsi(g.tangential_force)
            except Exception as ex:  # noqa: BLE001
                ctx.violation(c, {'why': f'compute_tangential_force raised {type(ex).__name__}'})
                continue
            Fwant = abs(Tref) / (d / 2)
            if not near(Fimpl, Fwant, Fwant):
                ctx.violation(c, {'why': f'gear {i} ({role}): tangential force {Fimpl}, |reference torque|/(d/2) = {Fwant}'})
            lines.append(f"g force role={role} dT={sim.siR('Torque', c['dT'][i])} lT={sim.siR('Torque', c['lT'][i])} d={R(F(c['z'][i]) * F(c['module'][i][0]) * sim.code_factor('Length', c['module'][i][1]))}")
            owners.append((c, 'force', Fimpl))
            if not has_b:
                continue
            b = sif('Length', c['fw'][i])
            m = sif('Length', c['module'][i])
            if c['kind'] == 'spur':
                Y = lewis_oracle(lewis_tbl, c['z'][i])
            else:
                at = math.atan(math.tan(math.radians(20)) / math.cos(beta))
                bb = math.atan(math.cos(at) * math.tan(beta))
                zv = c['z'][i] / math.cos(bb) ** 2 / math.cos(beta)
                Y = lewis_oracle(lewis_tbl, zv)
            if not near(float(g.lewis_factor), Y, Y, 1e-10):
                ctx.violation(c, {'why': f'gear {i}: Lewis factor {float(g.lewis_factor)}, table interpolation at the (virtual) teeth number gives {Y}'})
            g.compute_bending_stress()
            sb = sim.qsi(g.bending_stress)
            sbw = Fwant / (m * b * Y)
            if not near(sb, sbw, sbw):
                ctx.violation(c, {'why': f'gear {i}: bending stress {sb}, Ft/(m b Y) = {sbw}'})
            lines.append(f"g bending F={R(Fimpl)} m={sim.siR('Length', c['module'][i])} b={sim.siR('Length', c['fw'][i])} Y={R(float(g.lewis_factor))}")
            owners.append((c, 'bending', sb))
            if not has_E:
                continue
            mate_ok = c['has'][1 - i][0] and c['has'][1 - i][2]
            try:
                g.compute_contact_stress()
                sc = sim.qsi(g.contact_stress)
                got = ('ok', sc)
            except Exception as ex:  # noqa: BLE001
                got = ('err', type(ex).__name__)
            lines.append(f"g contactsq role={role} mm={int(c['has'][1 - i][0])} me={int(c['has'][1 - i][2])} F={R(Fimpl)} "
                         f"E1={sim.siR('Stress', c['E'][i])} E2={sim.siR('Stress', c['E'][1 - i])} "
                         f"d1={R(F(c['z'][i]) * F(c['module'][i][0]) * sim.code_factor('Length', c['module'][i][1]))} "
                         f"d2={R(F(c['z'][1 - i]) * F(c['module'][1 - i][0]) * sim.code_factor('Length', c['module'][1 - i][1]))} "
                         f"b={sim.siR('Length', c['fw'][i])} sinA={R(math.sin(at) if c['kind'] == 'helical' else math.sin(math.radians(20)))} "
                         f"cosA={R(math.cos(at) if c['kind'] == 'helical' else math.cos(math.radians(20)))} cosB={R(math.cos(beta))}")
            owners.append((c, 'contact', got))
            if not mate_ok:
                ctx.count('contact stress with incomplete mate')
                if got != ('err', 'ValueError'):
                    ctx.violation(c, {'why': f'contact stress with a mate lacking module or elastic modulus gave {got} instead of ValueError'})
                continue
            if got[0] != 'ok':
                ctx.violation(c, {'why': f'contact stress raised {got[1]} although both gears have module and elastic modulus'})
                continue
            E1, E2 = sif('Stress', c['E'][i]), sif('Stress', c['E'][1 - i])
            d2 = c['z'][1 - i] * sif('Length', c['module'][1 - i])
            a_ = at if c['kind'] == 'helical' else math.radians(20)
            eeq = 2 * E1 * E2 / (E1 + E2)
            curv = math.sin(a_) / 2 * d * d2 / (d + d2)
            p = Fwant / math.cos(a_) / (b / math.cos(beta) * curv)
            scw = K_HERTZ * math.sqrt(eeq * p)
            if not near(got[1], scw, scw, 1e-9):
                ctx.violation(c, {'why': f'gear {i}: contact stress {got[1]}, the documented Hertz expression gives {scw}'})
    answers = ctx.driver.ask(lines) if ctx.driver.available and lines else []
    for (c, what, impl), a in zip(owners, answers):
        w = a.split()
        if what == 'contact':
            if impl[0] == 'err':
                if w[0] != 'err' or w[1] != impl[1]:
                    ctx.mismatch(c, impl, a)
            elif w[0] != 'ok' or not near(impl[1] ** 2, parse_num(w[1]), impl[1] ** 2, 1e-8):
                ctx.mismatch(c, impl, a)
        elif w[0] != 'ok' or not near(impl, parse_num(w[1]), abs(impl), 1e-9):
            ctx.mismatch(c, {what: impl}, a)


def worm_case(rng, worm_tbl):
    row = rng.choice(worm_tbl)
    c = {'t': 'worm', 'pa': row[0], 'Ypa': row[2], 'helix': rng.uniform(0.5, row[1] - 0.1), 'wheel_drives': rng.random() < 0.35,
         'starts': rng.randint(1, 4), 'z': rng.randint(10, 120), 'units': rng.random() < 0.8}
    ru = c['units']
    c['helix_q'] = q('Angle', math.radians(c['helix']), rng, ru)
    c['pa_q'] = [row[0], 'deg'] if rng.random() < 0.6 else q('Angle', math.radians(row[0]), rng, True)
    if c['pa_q'][1] == 'deg':
        c['pa_q'] = [row[0], 'deg']      # in degrees the comparison with the table is exact: give the tabulated value itself
    c['d'] = q('Length', rng.uniform(5, 80) * 1e-3, rng, ru)
    c['module'] = q('Length', rng.choice([0.5, 1, 2, 3]) * 1e-3, rng, ru)
    c['fw'] = q('Length', rng.uniform(2, 80) * 1e-3, rng, ru)
    c['has'] = {'d': rng.random() < 0.8, 'module': rng.random() < 0.85, 'fw': rng.random() < 0.8}
    c['f'] = rng.uniform(0, 0.05)
    c['dT'] = [q('Torque', rng.uniform(-50, 50), rng, ru), q('Torque', rng.uniform(-50, 50), rng, ru)]
    c['lT'] = [q('Torque', rng.uniform(-50, 50), rng, ru), q('Torque', rng.uniform(-50, 50), rng, ru)]
    if c['wheel_drives']:
        c['helix'] = rng.uniform(max(row[1] - 8, 1.0), row[1] - 0.1)
        c['helix_q'] = q('Angle', math.radians(c['helix']), rng, ru)
        c['f'] = rng.uniform(0, 0.05)
    return c


def eval_worm(ctx, cases):
    lines, owners = [], []
    for c in cases:
        ctx.case_done(c, nontrivial=True)
        ctx.count('worm pair, wheel drives' if c['wheel_drives'] else 'worm pair, worm drives')
        try:
            kw = {'reference_diameter': Q('Length', c['d'])} if c['has']['d'] else {}
            worm = WormGear(name='w', n_starts=c['starts'], inertia_moment=J, helix_angle=Q('Angle', c['helix_q']),
                            pressure_angle=Q('Angle', c['pa_q']), **kw)
            kw = {}
            if c['has']['module']:
                kw['module'] = Q('Length', c['module'])
            if c['has']['fw']:
                kw['face_width'] = Q('Length', c['fw'])
            wheel = WormWheel(name='h', n_teeth=c['z'], inertia_moment=J, helix_angle=Q('Angle', c['helix_q']),
                              pressure_angle=Q('Angle', c['pa_q']), **kw)
            unmated_flag = wheel.bending_stress_is_computable
            if c['wheel_drives']:
                add_worm_gear_mating(wheel, worm, c['f'])
            else:
                add_worm_gear_mating(worm, wheel, c['f'])
        except Exception as ex:  # noqa: BLE001
            ctx.violation(c, {'why': f'construction / mating of a valid worm pair raised {type(ex).__name__}: {str(ex)[:120]}'})
            continue
        worm.driving_torque, worm.load_torque = Q('Torque', c['dT'][0]), Q('Torque', c['lT'][0])
        wheel.driving_torque, wheel.load_torque = Q('Torque', c['dT'][1]), Q('Torque', c['lT'][1])
        hm, hb, hd = c['has']['module'], c['has']['fw'], c['has']['d']
        if unmated_flag != (hm and hb):
            ctx.violation(c, {'why': f'unmated worm wheel: bending flag {unmated_flag}, own data {(hm, hb)}'})
        flags = (worm.tangential_force_is_computable, wheel.tangential_force_is_computable, wheel.bending_stress_is_computable,
                 wheel.contact_stress_is_computable)
        want = (hd, hm, hm and hb and hd, False)
        if flags != want:
            ctx.violation(c, {'why': f'worm pair flags {flags}, documented {want}', 'has': c['has']})
            continue
        if ('bending stress' in wheel.time_variables) != (hm and hb and hd):
            ctx.violation(c, {'why': "worm wheel advertises 'bending stress' inconsistently with its mating"})
        worm_role = 'slave' if c['wheel_drives'] else 'master'
        wheel_role = 'master' if c['wheel_drives'] else 'slave'
        beta = math.radians(c['helix'])
        if hd:
            Tref = sif('Torque', c['lT'][0]) if worm_role == 'master' else sif('Torque', c['dT'][0])
            dw = sif('Length', c['d'])
            worm.compute_tangential_force()
            Fi = sim.qsi(worm.tangential_force)
            Fw = abs(Tref) / (dw / 2) * math.tan(beta)
            if not near(Fi, Fw, Fw):
                ctx.violation(c, {'why': f'worm gear tangential force {Fi}, |T|/(d/2) tan(beta) = {Fw}'})
            lines.append(f"g wormforce role={worm_role} dT={sim.siR('Torque', c['dT'][0])} lT={sim.siR('Torque', c['lT'][0])} "
                         f"d={sim.siR('Length', c['d'])} tanB={R(worm.helix_angle.tan())}")
            owners.append((c, Fi))
        if hm:
            Tref = sif('Torque', c['lT'][1]) if wheel_role == 'master' else sif('Torque', c['dT'][1])
            d = c['z'] * sif('Length', c['module'])
            wheel.compute_tangential_force()
            Fi = sim.qsi(wheel.tangential_force)
            Fw = abs(Tref) / (d / 2)
            if not near(Fi, Fw, Fw):
                ctx.violation(c, {'why': f'worm wheel tangential force {Fi}, |T|/(d/2) = {Fw}'})
            if hb and hd:
                dw = sif('Length', c['d'])
                b = sif('Length', c['fw'])
                pn = math.pi * dw * math.sin(beta) / c['z']
                beff = min(b, 0.67 * dw)
                if abs(b - 0.67 * dw) <= 1e-9 * b:
                    continue
                wheel.compute_bending_stress()
                sb = sim.qsi(wheel.bending_stress)
                sw = Fw / (pn * beff) / c['Ypa']
                if not near(sb, sw, sw):
                    ctx.violation(c, {'why': f'worm wheel bending stress {sb}, Ft/(p_n b_eff Y) = {sw}'})
                lines.append(f"g wormbending F={R(Fi)} dw={sim.siR('Length', c['d'])} sinB={R(worm.helix_angle.sin())} z={c['z']} "
                             f"b={sim.siR('Length', c['fw'])} Y={R(float(wheel.lewis_factor))}")
                owners.append((c, sb))
    answers = ctx.driver.ask(lines) if ctx.driver.available and lines else []
    for (c, impl), a in zip(owners, answers):
        w = a.split()
        if w[0] != 'ok' or not near(impl, parse_num(w[1]), abs(impl), 1e-9):
            ctx.mismatch(c, impl, a)


def unmated_cases(ctx):
    """forces of an unmated gear raise ValueError (no role)"""
    g = SpurGear(name='g', n_teeth=20, inertia_moment=J, module=U.Length(1, 'mm'), face_width=U.Length(5, 'mm'),
                 elastic_modulus=U.Stress(200, 'GPa'))
    g.driving_torque = U.Torque(1, 'Nm')
    g.load_torque = U.Torque(1, 'Nm')
    for fn in ('compute_tangential_force', 'compute_contact_stress'):
        case = {'t': 'unmated', 'fn': fn}
        ctx.case_done(case)
        try:
            getattr(g, fn)()
            ctx.violation(case, {'why': f'{fn} of an unmated gear returned instead of raising ValueError'})
        except ValueError:
            pass
        except Exception as ex:  # noqa: BLE001
            ctx.violation(case, {'why': f'{fn} of an unmated gear raised {type(ex).__name__}'})


def run_C09(ctx):
    rng = ctx.rng
    lewis_tbl = read_csv('lewis_factor_table.csv')
    worm_tbl = read_csv('worm_gear_and_wheel_data.csv')
    run_lewis(ctx)
    n = ctx.budget(250, 8000) * ctx.boost
    eval_pair(ctx, [gear_pair_case(rng) for _ in range(n)], lewis_tbl)
    eval_worm(ctx, [worm_case(rng, worm_tbl) for _ in range(n // 2)])
    unmated_cases(ctx)
    eval_in_simulation(ctx, ctx.budget(40, 1500))
    ctx.rule = ('Lewis factor for every teeth number 10..600 (exhaustive); random spur / helical pairs and worm pairs in both '
                'orientations: teeth, modules, widths, moduli over decades in random units, helix angles in [0, 90) deg, all four '
                'worm pressure angles, torques of either sign, random subsets of the optional data (all 8 occur); plus complete '
                'simulations in which every recorded force / stress is checked against the torques recorded at the same instant; '
                'every case is non-trivial')


def replay_C09(ctx, case):
    if case.get('t') == 'pair':
        eval_pair(ctx, [case], read_csv('lewis_factor_table.csv'))
    elif case.get('t') == 'worm':
        eval_worm(ctx, [case])
    elif case.get('t') == 'lewis':
        run_lewis(ctx)
    elif case.get('t') == 'insim':
        ctx.note('in-simulation cases are replayed by re-running the campaign with the same seed')


# ---------------------------------------------------------------------------------------------
# in-simulation consistency: at every recorded instant the recorded force / stresses of a gear are
# the documented functions of the torques recorded at the *same* instant
# ---------------------------------------------------------------------------------------------

def eval_in_simulation(ctx, n):
    from harness import sim_props
    sim_props.prep()
    rng = ctx.rng
    lewis_tbl = read_csv('lewis_factor_table.csv')
    worm_tbl = {r[0]: r for r in read_csv('worm_gear_and_wheel_data.csv')}
    for _ in range(n):
        spec = gen.gen_spec(rng, random_units=rng.random() < 0.6, sl_bias=0.2, optional_data=0.9, max_stages=3)
        op, _, _ = gen.run_op(rng, dt_si=2.0 ** -rng.randint(3, 6), steps=(3, 8), unit='sec')
        spec['ops'] = [op]
        tr, b = sim.simulate(spec)
        case = {'t': 'insim', 'spec': spec}
        if tr['build_error'] or tr['error']:
            ctx.count('simulation not usable: ' + str(tr.get('build_error') or tr['error'][1]))
            continue
        ctx.case_done(case, nontrivial=True)
        if ctx.driver.available and spec['load']['coef'][4] == 0:
            # the whole history, forces and stresses included, against the model's in-simulation gear computations
            cm, st, recs = sim.parse_pipe(ctx.driver.ask([sim.pipe_line(spec, tr, b)])[0], spec, tr)
            tr['gears_in_model'] = True
            dm = cm or sim.compare_hist(tr, st, recs)
            if dm is not None and not sim_props.near_threshold(spec, tr):
                ctx.mismatch(case, dm, 'model history differs')
        chain = sim.spec_chain(spec, tr)
        idx_of = {e['name']: i + 1 for i, e in enumerate(chain)}
        # mating partner and role of every element from the declared relations
        mate, role = {}, {}
        for r in sim.all_rels(spec):
            if r[0] in ('gear', 'worm'):
                a, c = spec['elems'][r[1] - 1]['name'], spec['elems'][r[2] - 1]['name']
                mate[a], mate[c] = c, a
                role[a], role[c] = 'master', 'slave'
        by_name = {e['name']: e for e in spec['elems']}
        for e in chain:
            i = idx_of[e['name']]
            rec = tr['els'][i]
            if 'tangential force' not in rec:
                continue
            ro = role.get(e['name'])
            if ro is None:
                continue
            ref = rec['load torque'] if ro == 'master' else rec['driving torque']
            if e['type'] == 'wormgear':
                d = sif('Length', e['d'])
                k = math.tan(sif('Angle', e['helix']))
            else:
                d = e['z'] * sif('Length', e['module'])
                k = 1.0
            for j, Fj in enumerate(rec['tangential force']):
                want = abs(ref[j]) / (d / 2) * k
                if not near(Fj, want, max(want, 1e-12)):
                    ctx.violation(case, {'why': f"{e['name']} ({e['type']}, {ro}): tangential force {Fj} at instant {j} is not |reference torque at that instant| / (d/2) = {want}"})
                    break
            else:
                ctx.count('force histories checked')
            if 'bending stress' in rec:
                if e.get('module') is None or e.get('fw') is None:
                    ctx.violation(case, {'why': f"{e['name']} records a bending stress although the data it requires are not all present"})
                    continue
                m_ = sif('Length', e['module'])
                bw = sif('Length', e['fw'])
                if e['type'] == 'wormwheel':
                    worm = by_name[mate[e['name']]]
                    dw = sif('Length', worm['d'])
                    beta = sif('Angle', worm['helix'])
                    pn = math.pi * dw * math.sin(beta) / e['z']
                    beff = min(bw, 0.67 * dw)
                    Y = worm_tbl[e['pa'][0] if e['pa'][1] == 'deg' else round(math.degrees(sif('Angle', e['pa'])), 6)][2]
                    den = pn * beff * Y
                else:
                    if e['type'] == 'helical':
                        beta = sif('Angle', e['helix'])
                        at = math.atan(math.tan(math.radians(20)) / math.cos(beta))
                        bb = math.atan(math.cos(at) * math.tan(beta))
                        Y = lewis_oracle(lewis_tbl, e['z'] / math.cos(bb) ** 2 / math.cos(beta))
                    else:
                        Y = lewis_oracle(lewis_tbl, e['z'])
                    den = m_ * bw * Y
                for j, sj in enumerate(rec['bending stress']):
                    want = rec['tangential force'][j] / den
                    if not near(sj, want, max(want, 1e-12)):
                        ctx.violation(case, {'why': f"{e['name']} ({e['type']}): bending stress {sj} at instant {j} is not the documented function of the force at that instant ({want})"})
                        break
                else:
                    ctx.count('bending histories checked')
            if 'contact stress' in rec:
                other = by_name[mate[e['name']]]
                if e.get('E') is None or e.get('fw') is None or other.get('E') is None or other.get('module') is None:
                    ctx.violation(case, {'why': f"{e['name']} records a contact stress although the data it requires are not all present"})
                    continue
                E1, E2 = sif('Stress', e['E']), sif('Stress', other['E'])
                d2 = other['z'] * sif('Length', other['module'])
                beta = sif('Angle', e['helix']) if e['type'] == 'helical' else 0.0
                a_ = math.atan(math.tan(math.radians(20)) / math.cos(beta)) if e['type'] == 'helical' else math.radians(20)
                eeq = 2 * E1 * E2 / (E1 + E2)
                curv = math.sin(a_) / 2 * d * d2 / (d + d2)
                for j, sj in enumerate(rec['contact stress']):
                    p = rec['tangential force'][j] / math.cos(a_) / (sif('Length', e['fw']) / math.cos(beta) * curv)
                    want = K_HERTZ * math.sqrt(eeq * p)
                    if not near(sj, want, max(want, 1e-12)):
                        ctx.violation(case, {'why': f"{e['name']}: contact stress {sj} at instant {j} is not the documented Hertz expression of the force at that instant ({want})"})
                        break
                else:
                    ctx.count('contact histories checked')
