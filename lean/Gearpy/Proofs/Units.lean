import Gearpy.Model.Units
import Mathlib.Tactic.Ring
import Mathlib.Tactic.FieldSimp
import Mathlib.Tactic.Linarith
import Mathlib.Algebra.Order.Field.Rat
/-!
# Helper lemmas about the unit-carrying model (used by C05, C06, C07, C19)
-/

namespace Gearpy
open Kind

/-- what the proofs need from a factor table; `Gearpy.Properties.C05.gen_good` shows that the
    table generated from the source satisfies it -/
structure Tbl.Good (T : Tbl) : Prop where
  pos : ∀ k u, 0 < T.f k u
  si1 : ∀ k, T.f k (T.si k) = 1
  fam : ∀ k u, T.f k u = T.f (baseOf k) u
  tolpos : 0 < T.tol

variable {T : Tbl}

@[simp] theorem mk_eq_ok {k v u} {r : Qty} : mk k v u = .ok r ↔ signOk k v = true ∧ r = ⟨k, v, u⟩ := by
  unfold mk; split
  · rename_i hs; simp [hs, eq_comm]
  · rename_i hs; simp [hs]

@[simp] theorem mk_map_eq_ok {k v u} {r : Val} :
    (mk k v u).map Val.q = .ok r ↔ signOk k v = true ∧ r = .q ⟨k, v, u⟩ := by
  unfold mk; split
  · rename_i hs; simp [Except.map, hs, eq_comm]
  · rename_i hs; simp [Except.map, hs]

@[simp] theorem mk_eq_err {k v u} {e : Err} : mk k v u = .error e ↔ signOk k v = false ∧ e = .valueE := by
  unfold mk; split
  · rename_i hs; simp [hs]
  · rename_i hs; simp [hs, eq_comm]

@[simp] theorem mk_map_eq_err {k v u} {e : Err} :
    (mk k v u).map Val.q = .error e ↔ signOk k v = false ∧ e = .valueE := by
  unfold mk; split
  · rename_i hs; simp [Except.map, hs]
  · rename_i hs; simp [Except.map, hs, eq_comm]

theorem sameFamily_iff (a b : Kind) : sameFamily a b = true ↔ baseOf a = baseOf b := by
  unfold sameFamily; simp

theorem baseOf_of_not_sub {a : Kind} (h : isSub a = false) : baseOf a = a := by
  cases a <;> simp_all [isSub, baseOf]

theorem baseOf_idem (a : Kind) : baseOf (baseOf a) = baseOf a := by cases a <;> rfl

theorem fam_eq (g : T.Good) {a b : Kind} (h : baseOf a = baseOf b) (u : Nat) : T.f a u = T.f b u := by
  rw [g.fam a u, g.fam b u, h]

/-- converting preserves the SI magnitude -/
theorem conv_mul (g : T.Good) (o : Qty) (u : Nat) : conv T o u * T.f o.kind u = siMag T o := by
  unfold conv siMag
  split
  · rename_i h; rw [h]
  · have := ne_of_gt (g.pos o.kind u); field_simp

theorem conv_eq_div (g : T.Good) (o : Qty) (u : Nat) : conv T o u = siMag T o / T.f o.kind u := by
  have := ne_of_gt (g.pos o.kind u)
  rw [← conv_mul g o u]; field_simp

theorem toSI_eq (g : T.Good) (o : Qty) : toSI T o = siMag T o := by
  unfold toSI; have := conv_mul g o (T.si o.kind); rw [g.si1, mul_one] at this; exact this

theorem qabs_nonneg (x : Q) : 0 ≤ qabs x := by
  unfold qabs; split <;> linarith

theorem qabs_le {x a : Q} : qabs x ≤ a ↔ -a ≤ x ∧ x ≤ a := by
  unfold qabs
  by_cases hx : x < 0
  · simp only [hx, if_true]; constructor
    · intro h; constructor <;> linarith
    · intro h; linarith [h.1]
  · simp only [hx, if_false]; rw [not_lt] at hx; constructor
    · intro h; constructor <;> linarith
    · intro h; exact h.2

theorem qabs_lt {x a : Q} : qabs x < a ↔ -a < x ∧ x < a := by
  unfold qabs
  by_cases hx : x < 0
  · simp only [hx, if_true]; constructor
    · intro h; constructor <;> linarith
    · intro h; linarith [h.1]
  · simp only [hx, if_false]; rw [not_lt] at hx; constructor
    · intro h; constructor <;> linarith
    · intro h; exact h.2

theorem qabs_neg (x : Q) : qabs (-x) = qabs x := by
  unfold qabs
  by_cases h1 : x < 0 <;> by_cases h2 : -x < 0 <;> simp [h1, h2] <;> linarith

end Gearpy

namespace Gearpy
open Kind
variable {T : Tbl}

theorem qabs_mul_pos (x f : Q) (hf : 0 < f) : qabs (x * f) = qabs x * f := by
  unfold qabs
  by_cases hx : x < 0
  · have : x * f < 0 := mul_neg_of_neg_of_pos hx hf
    simp [hx, this]
  · have : ¬ x * f < 0 := by
      rw [not_lt] at hx ⊢; exact mul_nonneg hx hf.le
    simp [hx, this]

/-- scaling both operands and the tolerance by a positive factor does not change a comparison:
    comparing raw values in the left operand's unit = comparing SI magnitudes with the tolerance
    expressed in SI -/
theorem cmpRaw_scale (tol f x y : Q) (c : Cmp) (e : Bool) (hf : 0 < f) :
    cmpRaw (tol * f) c e (x * f) (y * f) = cmpRaw tol c e x y := by
  have h1 : x * f - y * f = (x - y) * f := by ring
  have hne : f ≠ 0 := ne_of_gt hf
  unfold cmpRaw
  cases e
  · simp only [Bool.false_eq_true, if_false, h1, qabs_mul_pos _ _ hf]
    cases c <;> simp only [decide_eq_decide]
    · exact mul_lt_mul_iff_of_pos_right hf
    · exact mul_lt_mul_iff_of_pos_right hf
    · rw [← neg_mul]; exact mul_lt_mul_iff_of_pos_right hf
    · exact mul_le_mul_iff_of_pos_right hf
    · exact mul_lt_mul_iff_of_pos_right hf
    · rw [← neg_mul]; exact mul_le_mul_iff_of_pos_right hf
  · simp only [if_true]
    cases c
    · simp only [Bool.beq_eq_decide_eq, decide_eq_decide]; exact mul_left_inj' hne
    · simp only [bne, Bool.beq_eq_decide_eq, Bool.not_eq_eq_eq_not, Bool.not_not, decide_eq_decide]; exact mul_left_inj' hne
    · simp only [decide_eq_decide]; exact mul_lt_mul_iff_of_pos_right hf
    · simp only [decide_eq_decide]; exact mul_le_mul_iff_of_pos_right hf
    · simp only [decide_eq_decide]; exact mul_lt_mul_iff_of_pos_right hf
    · simp only [decide_eq_decide]; exact mul_le_mul_iff_of_pos_right hf

/-- one comparison method is a function of the two SI magnitudes, of whether the operands carry the
    same unit, and of the tolerance expressed in SI through the receiver's unit -/
theorem cmpDirect_si (g : T.Good) (c : Cmp) (a o : Qty) (hf : baseOf a.kind = baseOf o.kind) :
    cmpDirect T c a o = cmpRaw (T.tol * T.f a.kind a.unit) c (a.unit == o.unit) (siMag T a) (siMag T o) := by
  have hp := g.pos a.kind a.unit
  have key : conv T o a.unit * T.f a.kind a.unit = siMag T o := by
    rw [fam_eq g hf a.unit]; exact conv_mul g o a.unit
  unfold cmpDirect
  rw [← cmpRaw_scale T.tol (T.f a.kind a.unit) a.value (conv T o a.unit) c _ hp, key]
  rfl

/-- the operand whose method actually runs (CPython's reflected dispatch), and the operator it is asked -/
def effLeft (a o : Qty) : Qty := if reflected a.kind o.kind then o else a
def effRight (a o : Qty) : Qty := if reflected a.kind o.kind then a else o
def effCmp (c : Cmp) (a o : Qty) : Cmp := if reflected a.kind o.kind then swapCmp c else c

/-- a comparison between two quantities is a function of their SI magnitudes, of whether they
    carry the same unit, and of the tolerance expressed in SI through the unit of the operand
    whose method runs -/
theorem cmp_si (g : T.Good) (c : Cmp) (a o : Qty) (b : Bool) (h : cmp T c a (.q o) = .ok b) :
    b = cmpRaw (T.tol * T.f (effLeft a o).kind (effLeft a o).unit) (effCmp c a o)
          ((effLeft a o).unit == (effRight a o).unit) (siMag T (effLeft a o)) (siMag T (effRight a o)) := by
  unfold cmp at h; simp only at h
  split at h
  · simp at h
  · rename_i hf
    have hf' : baseOf a.kind = baseOf o.kind := (sameFamily_iff _ _).mp (by simpa using hf)
    unfold effLeft effRight effCmp
    split at h
    · rename_i hr
      simp only [Except.ok.injEq] at h
      simp only [hr, if_true]
      rw [← h]; exact cmpDirect_si g _ o a hf'.symm
    · rename_i hr
      simp only [Except.ok.injEq] at h
      simp only [hr]
      rw [← h]; exact cmpDirect_si g _ a o hf'

end Gearpy
