import Gearpy.Proofs.Solver
import Gearpy.Model.Control
/-!
# C16 — a stop condition ends the run at the first instant it holds

`stop_prefix`: the loop with a stop predicate `f` returns exactly what the loop without it returns
over a prefix `us` of the grid (`ts = us ++ vs`); `f` is false on the record of every strict
non-empty prefix of `us` (every earlier computed instant), and if the run ended early (`vs ≠ []`)
`f` is true on the last record.  Nothing is recorded after it (`stop_times`).  The initial
instant of a fresh run is never tested (`run` only tests inside the loop).
`stopCond` instantiates `f` with a sensor reading, one of the five operators and a threshold.
-/

namespace Gearpy.C16
open Gearpy

theorem stop_prefix (c : Cfg) (dt : Q) (f : Rec → Bool) (ts : List Q) (s s' : St)
    (h : loop c dt (some f) ts s = .ok s') :
    ∃ us vs, ts = us ++ vs ∧ loop c dt none us s = .ok s' ∧
      (vs ≠ [] → stopNow (some f) s' = true) ∧
      (∀ us1 us2 sm, us = us1 ++ us2 → us1 ≠ [] → us2 ≠ [] → loop c dt none us1 s = .ok sm →
          stopNow (some f) sm = false) := by
  induction ts generalizing s with
  | nil =>
    simp [loop] at h; subst h
    exact ⟨[], [], rfl, by simp [loop], by simp, by intro us1 us2 sm h1 h2; simp at h1; simp [h1.1] at h2⟩
  | cons t ts ih =>
    simp only [loop] at h
    cases h1 : stepAt c dt s t with
    | error e => simp [h1] at h
    | ok s1 =>
      simp only [h1] at h
      by_cases hs : stopNow (some f) s1 = true
      · simp only [hs, if_true, Except.ok.injEq] at h; subst h
        refine ⟨[t], ts, rfl, by simp [loop, h1, stopNow], fun _ => hs, ?_⟩
        intro us1 us2 sm he h1' h2'
        have := congrArg List.length he
        simp at this
        have l1 : 0 < us1.length := List.length_pos_iff.mpr h1'
        have l2 : 0 < us2.length := List.length_pos_iff.mpr h2'
        omega
      · simp only [hs] at h
        obtain ⟨us, vs, hts, hl, hv, hp⟩ := ih s1 (by simpa using h)
        refine ⟨t :: us, vs, by simp [hts], ?_, hv, ?_⟩
        · simp only [loop, h1, stopNow]; simpa using hl
        · intro us1 us2 sm he hne1 hne2 hlm
          cases us1 with
          | nil => exact absurd rfl hne1
          | cons a us1' =>
            simp only [List.cons_append, List.cons.injEq] at he
            obtain ⟨rfl, he'⟩ := he
            simp only [loop, h1, stopNow] at hlm
            by_cases hn : us1' = []
            · subst hn; simp [loop] at hlm; subst hlm; simpa using hs
            · exact hp us1' us2 sm he' hn hne2 (by simpa using hlm)

/-- the time axis of a stopped run is the old axis followed by a prefix of the grid -/
theorem stop_times (c : Cfg) (dt : Q) (f : Rec → Bool) (ts : List Q) (s s' : St)
    (h : loop c dt (some f) ts s = .ok s') :
    ∃ us vs, ts = us ++ vs ∧ s'.recs.map (·.time) = s.recs.map (·.time) ++ us := by
  obtain ⟨us, vs, hts, hl, _, _⟩ := stop_prefix c dt f ts s s' h
  exact ⟨us, vs, hts, loop_times c dt us s s' hl⟩

/-- the predicate tested is the comparison of the sensor's reading of the record just appended -/
theorem stopNow_stopCond (cx : CmpCtx) (sen : Sensor) (op : Cmp) (thr : Q) (s : St) (r : Rec)
    (h : s.recs.getLast? = some r) :
    stopNow (some (stopCond cx sen op thr)) s = cmpSI cx op (sen.read r) thr := by
  simp [stopNow, h, stopCond]

/-! ### non-vacuity: a run of 6 steps with `time ≥ 1/2` stops after 2 steps (3 records) -/
def exCfg : Cfg :=
  { J0 := 1, links := [⟨2, 9/10, 1/2, true⟩], sl := false, tolW := 0, tolT := 0,
    motorTorque := fun w D => (1 - w / 100) * 2 * D, motorCurrent := fun _ _ => none,
    load := fun _ _ _ => 1/10, control := none }
example : (match exec exCfg [.run (1/4) 6 (some fun r => decide (r.time ≥ 1/2))] (St.init 0 0) with
    | .ok s => s.recs.length | .error _ => 0) = 3 := by decide +kernel

end Gearpy.C16
