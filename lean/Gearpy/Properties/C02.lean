import Gearpy.Proofs.Solver
import Mathlib.Tactic.FieldSimp
/-!
# C02 — torque propagation and balance along the chain at every instant

For every configuration, **every load function** `load : position → speed → time → torque`,
every motor characteristic, every controller and every list of schedule operations, each
recorded instant satisfies:
* the motor's driving torque is its characteristic at the recorded motor speed and duty cycle;
* each following element's driving torque is its driver's times efficiency times ratio;
* the last element's load torque is `load` at that element's recorded position and speed and at
  that instant's time;
* each upstream load torque is its follower's divided by efficiency and ratio
  (`LoadOK`; `load_mul` gives the division-free form under `η, r ≠ 0` — the code raises
  `ZeroDivisionError` at `η = 0`, Lean's `x / 0 = 0` is never relied upon);
* net torque = driving − load, element by element.
-/

namespace Gearpy.C02
open Gearpy

/-- C02 on every record of every history -/
theorem C02 (c : Cfg) (ops : List Op) (p v : Q) (s' : St)
    (he : exec c ops (St.init p v) = .ok s') :
    ∀ r ∈ s'.recs,
      r.dtorque.head? = some (c.motorTorque (r.speed.headD 0) r.pwm) ∧
      DriveOK c.links r.dtorque ∧
      r.ltorque.getLast? = some (c.load (lastD r.pos) (lastD r.speed) r.time) ∧
      LoadOK c.links r.ltorque ∧
      r.torque = List.zipWith (· - ·) r.dtorque r.ltorque := by
  intro r hr
  have h := all_records_ok c ops _ s' (init_inv c p v) he r hr
  exact ⟨h.drive0, h.drive, h.loadLast, h.load, h.net⟩

/-- the recorded current is the motor's current law at the recorded duty cycle and driving torque -/
theorem C02_current (c : Cfg) (ops : List Op) (p v : Q) (s' : St)
    (he : exec c ops (St.init p v) = .ok s') :
    ∀ r ∈ s'.recs, r.current = c.motorCurrent r.pwm (r.dtorque.headD 0) := by
  intro r hr
  exact (all_records_ok c ops _ s' (init_inv c p v) he r hr).cur

/-- index form of the driving-torque law -/
theorem drive_get {ls : List Link} {ds : List Q} (h : DriveOK ls ds) :
    ds.length = ls.length + 1 ∧ ∀ i (hi : i < ls.length) (hj : i + 1 < ds.length),
      ds[i+1] = ds[i]'(by omega) * ls[i].eff * ls[i].ratio := by
  induction ls generalizing ds with
  | nil => match ds, h with | [_], _ => simp
  | cons l ls ih =>
    match ds, h with
    | a :: b :: ds', h =>
      obtain ⟨h1, h2⟩ := h
      obtain ⟨hl, hg⟩ := ih h2
      refine ⟨by simp at hl ⊢; omega, ?_⟩
      intro i hi hj
      cases i with
      | zero => simpa using h1
      | succ k =>
        have := hg k (by simpa using hi) (by simpa using hj)
        simp only [List.getElem_cons_succ]
        exact this

/-- index form of the load-torque law, division-free under non-zero efficiency and ratio -/
theorem load_mul {ls : List Link} {xs : List Q} (h : LoadOK ls xs)
    (hnz : ∀ l ∈ ls, l.eff ≠ 0 ∧ l.ratio ≠ 0) :
    xs.length = ls.length + 1 ∧ ∀ i (hi : i < ls.length) (hj : i + 1 < xs.length),
      xs[i]'(by omega) * ls[i].eff * ls[i].ratio = xs[i+1] := by
  induction ls generalizing xs with
  | nil => match xs, h with | [_], _ => simp
  | cons l ls ih =>
    match xs, h with
    | a :: b :: xs', h =>
      obtain ⟨h1, h2⟩ := h
      obtain ⟨hl, hg⟩ := ih h2 (fun l' hl' => hnz l' (List.mem_cons_of_mem _ hl'))
      refine ⟨by simp at hl ⊢; omega, ?_⟩
      intro i hi hj
      cases i with
      | zero =>
        obtain ⟨he, hr⟩ := hnz l (by simp)
        simp only [List.getElem_cons_zero, List.getElem_cons_succ]
        rw [h1]; field_simp
      | succ k =>
        have := hg k (by simpa using hi) (by simpa using hj)
        simp only [List.getElem_cons_succ]
        exact this

/-- net torque element by element -/
theorem net_get (r : Rec) (h : r.torque = List.zipWith (· - ·) r.dtorque r.ltorque) (i : Nat)
    (h1 : i < r.dtorque.length) (h2 : i < r.ltorque.length) :
    r.torque[i]? = some (r.dtorque[i] - r.ltorque[i]) := by
  rw [h]; simp [List.getElem?_zipWith, List.getElem?_eq_getElem h1, List.getElem?_eq_getElem h2]

/-- C02 along schedules whose configuration changes between runs (`execSeg`): every surviving record
    obeys the torque laws of the configuration of one of the segments — the one in force when it was
    recorded (its motor law, its links, its load function) -/
theorem C02_segments (sl : Bool) (all : List Cfg) (segs : List (Cfg × List Op)) (p v : Q) (s' : St)
    (hall : ∀ seg ∈ segs, seg.1 ∈ all ∧ seg.1.sl = sl) (he : execSeg segs (St.init p v) = .ok s') :
    ∀ r ∈ s'.recs, ∃ c ∈ all,
      r.dtorque.head? = some (c.motorTorque (r.speed.headD 0) r.pwm) ∧ DriveOK c.links r.dtorque ∧
      r.ltorque.getLast? = some (c.load (lastD r.pos) (lastD r.speed) r.time) ∧ LoadOK c.links r.ltorque ∧
      r.torque = List.zipWith (· - ·) r.dtorque r.ltorque := by
  intro r hr
  have hinv := execSeg_records sl all segs (St.init p v) s' hall
    ⟨by intro r hr; simp [St.init] at hr, by intro h; simp [St.init] at h⟩ he
  obtain ⟨c, hc, hok⟩ := hinv.1 r hr
  exact ⟨c, hc, hok.drive0, hok.drive, hok.loadLast, hok.load, hok.net⟩

/-! ### non-vacuity -/
def exCfg : Cfg :=
  { J0 := 1, links := [⟨2, 9/10, 1/2, true⟩, ⟨3, 4/5, 1/4, true⟩], sl := false, tolW := 0, tolT := 0,
    motorTorque := fun w D => (1 - w / 100) * 2 * D, motorCurrent := fun _ _ => none,
    load := fun p v t => 1/10 + p / 100 + v / 50 + t / 7, control := none }
example : (match exec exCfg [.run (1/4) 3 none] (St.init 0 1) with
    | .ok s => s.recs.map (·.ltorque.length) | .error _ => []) = [3, 3, 3, 3] := by decide +kernel

end Gearpy.C02
