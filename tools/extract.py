#!/venv/bin/python
"""Tie (a): regenerate every piece of *data* the Lean model depends on from /repo's working tree.

Imports gearpy from /repo (sys.path[0]) and writes

  lean/Gearpy/Generated/Tables.lean   definitions used by the model and the table theorems
  build/tables.json                   the same data for the Python harness

Extraction is behavioural wherever the public API allows it: a unit's SI value is obtained as
`K(1, u).to(si).value` (and checked against the private table, which is only read to learn
which unit names exist).  The Lean file is rewritten only when its content changes, so that
an unchanged tree costs a no-op `lake build`.
"""
import json
import os
import sys
import warnings
from fractions import Fraction

warnings.filterwarnings('ignore')
REPO = os.environ.get('GEARPY_REPO', '/repo')
sys.path.insert(0, REPO)
HERE = os.path.dirname(os.path.abspath(__file__))
VERIF = os.path.dirname(HERE)

KINDS = [  # (Lean constructor, Python class name)
    ('angPos', 'AngularPosition'), ('angle', 'Angle'), ('angSpeed', 'AngularSpeed'),
    ('angAcc', 'AngularAcceleration'), ('inertia', 'InertiaMoment'), ('torque', 'Torque'),
    ('time', 'Time'), ('timeInt', 'TimeInterval'), ('length', 'Length'), ('surface', 'Surface'),
    ('force', 'Force'), ('stress', 'Stress'), ('current', 'Current'),
]


def rat(x):
    """exact rational of a Python number as a Lean term"""
    fr = Fraction(x)
    if fr.denominator == 1:
        return f'({fr.numerator} : Q)'
    return f'(({fr.numerator} : Q) / {fr.denominator})'


def lean_str(s):
    return '"' + s.replace('\\', '\\\\').replace('"', '\\"') + '"'


def units_table(cls):
    """the private unit table of a quantity class (first class in the MRO that defines one)"""
    for c in cls.__mro__:
        name = f'_{c.__name__}__UNITS'
        if name in c.__dict__ and c.__dict__[name]:
            return c.__dict__[name]
    # fallback when the private table was renamed: the constructor's KeyError message lists the units
    import ast
    import re
    try:
        cls(1, '\x00no-such-unit')
    except KeyError as ex:
        m = re.search(r'Available units are: (\[.*\])', str(ex))
        if m:
            names = ast.literal_eval(m.group(1))
            return {u: None for u in names}
    raise RuntimeError(f'no unit table found for {cls.__name__}')


def extract():
    import gearpy
    assert os.path.realpath(gearpy.__file__).startswith(os.path.realpath(REPO)), gearpy.__file__
    import gearpy.units as U
    from gearpy.units import unit_base
    import gearpy.mechanical_objects.mechanical_object_base as mob
    import gearpy.powertrain as pt
    import math

    data = {'kinds': {}, 'repo': REPO}
    for lean, py in KINDS:
        cls = getattr(U, py)
        table = units_table(cls)
        names = list(table.keys())
        # a positive probe value is valid for every kind
        # behavioural SI value of each unit: convert 1 <unit> into the first unit whose private
        # factor is exactly 1, and back
        if any(table[u] is None for u in names):
            # behavioural table: factor of u relative to the first unit, then the unit with factor 1 is SI
            rel = {u: float(cls(1, u).to(names[0]).value) for u in names}
            base = [u for u in names if rel[u] == 1.0][0]
            table = {u: rel[u] for u in names}
            data.setdefault('notes', []).append(f'{py}: private unit table not found, units taken from the KeyError message')
        si_candidates = [u for u in names if float(table[u]) == 1.0]
        if not si_candidates:
            raise RuntimeError(f'{py}: no unit with factor 1')
        si = si_candidates[0]
        facs = []
        for u in names:
            v = cls(1, u).to(si).value
            if float(v) != float(table[u]) and u != si:
                # `to` and the private table disagree: keep the behavioural value, record it
                data.setdefault('notes', []).append(f'{py}.{u}: to()={v!r} table={table[u]!r}')
            facs.append(float(v) if u != si else 1.0)
        data['kinds'][py] = {'lean': lean, 'units': names, 'factors': [Fraction(f).as_integer_ratio() for f in facs],
                             'si': names.index(si)}
    # units the code names explicitly when it goes through SI for cross-kind results (behavioural)
    K = U
    probes = {
        'AngularPosition': (K.AngularSpeed(1, 'rad/s') * K.Time(1, 'sec')).unit,
        'AngularSpeed': (K.AngularAcceleration(1, 'rad/s^2') * K.Time(1, 'sec')).unit,
        'AngularAcceleration': (K.Torque(1, 'Nm') / K.InertiaMoment(1, 'kgm^2')).unit,
        'Force': (K.Torque(1, 'Nm') / K.Length(1, 'm')).unit,
        'Stress': (K.Force(1, 'N') / K.Surface(1, 'm^2')).unit,
        'Surface': (K.Length(1, 'm') * K.Length(1, 'm')).unit,
    }
    for py, unit in probes.items():
        d = data['kinds'][py]
        d['si'] = d['units'].index(unit)
    data['kinds']['Angle']['si'] = data['kinds']['AngularPosition']['si']
    data['tol'] = Fraction(unit_base.COMPARISON_TOLERANCE).as_integer_ratio()
    data['pi'] = Fraction(math.pi).as_integer_ratio()
    lew = mob.LEWIS_FACTOR_DATA
    data['lewis'] = [(Fraction(float(z)).as_integer_ratio(), Fraction(float(y)).as_integer_ratio())
                     for z, y in zip(lew['Number of teeth'], lew['Lewis Factor'])]
    worm = mob.WORM_GEAR_AND_WHEEL_DATA
    data['worm'] = [tuple(Fraction(float(x)).as_integer_ratio() for x in row)
                    for row in zip(worm['Pressure Angle'], worm['Maximum Helix Angle'], worm['Lewis Factor'])]
    data['min_teeth'] = int(mob.MINIMUM_TEETH_NUMBER)
    order = pt.VARIABLES_SORT_ORDER
    data['sort_order'] = [k for k, _ in sorted(order.items(), key=lambda kv: kv[1])]
    return data


def q(pair):
    n, d = pair
    return f'({n} : Q)' if d == 1 else f'(({n} : Q) / {d})'


def render(data):
    out = []
    w = out.append
    w('import Gearpy.Model.Units')
    w('/-! GENERATED by tools/extract.py from the working tree of the repository — do not edit.')
    w('    Every number is the exact rational value of the double the Python code holds. -/')
    w('')
    w('namespace Gearpy.Gen')
    w('open Gearpy Gearpy.Kind')
    w('')
    w('/-- unit names of each kind, in the order of the code\'s table -/')
    w('def unitNames : Kind → List String')
    for py, d in data['kinds'].items():
        w(f'  | {d["lean"]} => [' + ', '.join(lean_str(u) for u in d['units']) + ']')
    w('')
    w('/-- SI value of each unit, obtained through `K(1, u).to(si).value` -/')
    w('def factors : Kind → List Q')
    for py, d in data['kinds'].items():
        w(f'  | {d["lean"]} => [' + ', '.join(q(f) for f in d['factors']) + ']')
    w('')
    w('/-- index of the unit the code names when it goes through SI -/')
    w('def siIndex : Kind → Nat')
    for py, d in data['kinds'].items():
        w(f'  | {d["lean"]} => {d["si"]}')
    w('')
    w(f'/-- `COMPARISON_TOLERANCE` -/\ndef tol : Q := {q(data["tol"])}')
    w(f'/-- `math.pi` -/\ndef pi : Q := {q(data["pi"])}')
    w('')
    w('/-- `lewis_factor_table.csv` as parsed by the package: (number of teeth, Lewis factor) -/')
    w('def lewisTable : List (Q × Q) := [')
    w(',\n'.join(f'  ({q(z)}, {q(y)})' for z, y in data['lewis']))
    w(']')
    w('')
    w('/-- `worm_gear_and_wheel_data.csv`: (pressure angle [deg], maximum helix angle [deg], Lewis factor) -/')
    w('def wormTable : List (Q × Q × Q) := [')
    w(',\n'.join(f'  ({q(a)}, {q(b)}, {q(c)})' for a, b, c in data['worm']))
    w(']')
    w('')
    w(f'def minTeeth : Nat := {data["min_teeth"]}')
    w('')
    w('/-- `VARIABLES_SORT_ORDER`, sorted by rank -/')
    w('def sortOrder : List String := [' + ', '.join(lean_str(s) for s in data['sort_order']) + ']')
    w('')
    w('/-- the factor table the unit-carrying model runs with -/')
    w('def tbl : Tbl := { f := fun k u => (factors k).getD u 1, si := siIndex, tol := tol }')
    w('')
    w('end Gearpy.Gen')
    return '\n'.join(out) + '\n'


def main():
    data = extract()
    text = render(data)
    lean_path = os.path.join(VERIF, 'lean', 'Gearpy', 'Generated', 'Tables.lean')
    os.makedirs(os.path.dirname(lean_path), exist_ok=True)
    old = open(lean_path).read() if os.path.exists(lean_path) else None
    if old != text:
        tmp = lean_path + '.tmp'
        with open(tmp, 'w') as f:
            f.write(text)
        os.replace(tmp, lean_path)
    os.makedirs(os.path.join(VERIF, 'build'), exist_ok=True)
    jpath = os.path.join(VERIF, 'build', 'tables.json')
    tmp = jpath + f'.tmp{os.getpid()}'
    with open(tmp, 'w') as f:
        json.dump(data, f)
    os.replace(tmp, jpath)
    print(f'extract: {"rewrote" if old != text else "unchanged"} {lean_path}')


if __name__ == '__main__':
    main()
