import Gearpy.Model.Relations
import Gearpy.Model.Solver
/-!
# Gearpy.Model.Pipeline — from declared relations to the solver's configuration

`Powertrain(motor)` + `Solver(powertrain)` read, for every element after the motor, its
`master_gear_ratio`, `master_gear_efficiency` and inertia, and the powertrain's self-locking flag.
`linksOf` / `cfgOfHeap` do the same on the model heap produced by the declaration functions, so that
the whole path *declarations → assembly → simulation* runs inside the model (driver command
`s pipe`) and the ratios the solver uses are the ones the declarations wrote.
-/

namespace Gearpy

/-- the solver's view of the chain elements after the motor -/
def linksOf (h : Heap) (inertia : Nat → Q) (els : List Nat) : List Link :=
  (els.drop 1).map fun i =>
    match h[i]? with
    | some e => { ratio := e.ratio.getD 0, eff := e.eff, inertia := inertia i, spur := isGearBase e.kind }
    | none => { ratio := 0, eff := 1, inertia := 0, spur := false }

/-- declarations, then assembly from element `m`: the chain links and the self-locking flag;
    `fuel` bounds the chain walk -/
def assembleLinks (T : Tbl) (h : Heap) (ds : List Decl) (m : Nat) (inertia : Nat → Q) :
    Except Err (List Nat × List Link × Bool) :=
  let h' := declareAll T h ds
  match assemble h' m (h'.length + 1) with
  | .error e => .error e
  | .ok pt => .ok (pt.elements, linksOf h' inertia pt.elements, pt.selfLocking)

end Gearpy
