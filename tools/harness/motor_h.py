"""C08: the DC motor characteristic on the real `DCMotor` against the documented formulas (oracle)
and the Lean model, with a boundary stream around the dead-zone edge (±1, ±2 ulp …)."""
import math
from fractions import Fraction as F

from common import R, parse_num
from harness import gen, sim
from harness.sim_props import motor_law, current_law, near
from harness.si_spec import SI

import gearpy.units as U
from gearpy.mechanical_objects import DCMotor


PARAM_ATTR = {'w0': ('no_load_speed', 'AngularSpeed'), 'tmax': ('maximum_torque', 'Torque'),
              'i0': ('no_load_electric_current', 'Current'), 'imax': ('maximum_electric_current', 'Current')}


def make_motor(c):
    own = {'w0': U.AngularSpeed(*c['w0']), 'tmax': U.Torque(*c['tmax'])}
    kw = {}
    if c['i0'] is not None:
        own['i0'], own['imax'] = U.Current(*c['i0']), U.Current(*c['imax'])
        kw = dict(no_load_electric_current=own['i0'], maximum_electric_current=own['imax'])
    elif c.get('lone') is not None:
        # only one of the two optional currents is given: the motor has no current data
        kw = {c['lone'][0]: U.Current(*c['lone'][1])}
    m = DCMotor(name='m', inertia_moment=U.InertiaMoment(1, 'kgm^2'), no_load_speed=own['w0'],
                maximum_torque=own['tmax'], **kw)
    if c.get('warm'):
        # the motor has already been used at this duty cycle (and another speed) before the parameters are re-expressed
        if c.get('warm') == 'same number':
            # the same number as the speed of interest, in another unit
            m.angular_speed = U.AngularSpeed(c['w'][0], c['warm_unit'])
        else:
            m.angular_speed = U.AngularSpeed(0.37 * c['w'][0] + 1.0, c['w'][1])
        m.pwm = c['D']
        m.compute_torque()
        if c['i0'] is not None:
            m.compute_electric_current()
    # the user re-expresses a parameter object in place after construction (through the motor's property or
    # through their own reference): its physical magnitude, hence the characteristic, is unchanged
    for pname, unit, via in c.get('inplace', []):
        if pname not in own:
            continue
        obj = own[pname] if via == 'own' else getattr(m, PARAM_ATTR[pname][0])
        obj.to(unit, inplace=True)
    return m


def sif(kind, vu):
    return float(F(vu[0]) * SI[kind][vu[1]])


def eval_motor(ctx, cases):
    lines, impl = [], []
    for c in cases:
        try:
            m = make_motor(c)
            m.angular_speed = U.AngularSpeed(*c['w'])
            if not c.get('warm'):
                m.pwm = c['D']          # (a warmed-up motor already has this duty cycle: it is not assigned again)
            m.compute_torque()
            if c.get('T_unit'):
                # the driving torque re-expressed (through the setter, or in place) before the current is computed from it
                if c.get('T_via') == 'setter':
                    m.driving_torque = m.driving_torque.to(c['T_unit'])
                else:
                    m.driving_torque.to(c['T_unit'], inplace=True)
            T = sim.qsi(m.driving_torque)
            cur = None
            if c['i0'] is not None:
                m.compute_electric_current()
                cur = sim.qsi(m.electric_current)
            out = ('ok', T, cur, c['tmax'][1] if c.get('T_unit') else m.driving_torque.unit)
        except Exception as ex:  # noqa: BLE001
            out = ('err', type(ex).__name__, str(ex)[:100])
        impl.append(out)
        mk = f"w0={sim.siR('AngularSpeed', c['w0'])} tmax={sim.siR('Torque', c['tmax'])}"
        if c['i0'] is not None:
            mk += f" i0={sim.siR('Current', c['i0'])} imax={sim.siR('Current', c['imax'])}"
        lines.append(f"m torque {mk} w={sim.siR('AngularSpeed', c['w'])} D={R(c['D'])}")
        lines.append(f"m current {mk} D={R(c['D'])} T={R(out[1]) if out[0] == 'ok' else '0'}")
    answers = ctx.driver.ask(lines) if ctx.driver.available else [None] * len(lines)
    for i, (c, out) in enumerate(zip(cases, impl)):
        mp = {'w0': sif('AngularSpeed', c['w0']), 'tmax': sif('Torque', c['tmax']),
              'i0': sif('Current', c['i0']) if c['i0'] is not None else None,
              'imax': sif('Current', c['imax']) if c['i0'] is not None else None}
        w, D = sif('AngularSpeed', c['w']), c['D']
        ctx.case_done(c, nontrivial=True)
        ctx.count('stream ' + c.get('stream', 'grid'))
        if out[0] != 'ok':
            ctx.violation(c, {'why': f'torque / current computation raised {out[1]}: {out[2]}'})
            continue
        T, cur = out[1], out[2]
        pmin = mp['i0'] / mp['imax'] if mp['i0'] is not None else None
        scaleT = mp['tmax'] * max(1.0, abs(w) / mp['w0'] / max(abs(D), 1e-3))
        if out[3] != c['tmax'][1]:
            ctx.note('driving torque unit differs from the maximum torque unit')
        # region of the characteristic, decided with exact rationals; within 4 ulp of the boundary both laws are accepted
        # (the code computes i0/imax through a unit conversion, so its boundary may sit a few ulp from ours)
        on_edge = pmin is not None and abs(abs(D) - pmin) <= 4 * math.ulp(pmin)
        wantT = motor_law(mp, w, D)
        if on_edge:
            ctx.count('within 4 ulp of the dead-zone boundary')
            okT = abs(T) <= 1e-9 * scaleT or near(T, wantT, scaleT)
        else:
            okT = near(T, wantT, max(scaleT, abs(wantT)))
        if not okT:
            ctx.violation(c, {'why': f'driving torque {T}, the documented characteristic gives {wantT}', 'w': w, 'D': D})
        if pmin is not None and abs(D) <= pmin and not on_edge and T != 0:
            ctx.violation(c, {'why': f'driving torque {T} inside the dead zone is not exactly zero', 'D': D, 'pmin': pmin})
        if cur is not None:
            wantc = current_law(mp, D, T)
            scalec = mp['imax'] * max(1.0, abs(w) / mp['w0'] / max(abs(D), 1e-3))
            if on_edge:
                okc = near(cur, D * mp['imax'], scalec, 1e-6) or near(cur, wantc, scalec)
            else:
                okc = near(cur, wantc, max(scalec, abs(wantc)))
            if not okc:
                ctx.violation(c, {'why': f'absorbed current {cur}, the documented law gives {wantc}', 'w': w, 'D': D, 'T': T})
        # model
        if answers[2 * i] is not None:
            mt = parse_num(answers[2 * i].split()[1])
            if not (near(T, mt, max(scaleT, abs(mt))) or (on_edge and abs(T - mt) <= 1e-6 * scaleT)):
                ctx.mismatch(c, {'torque': T}, answers[2 * i])
            a = answers[2 * i + 1].split()
            if cur is None:
                if a[0] != 'none':
                    ctx.mismatch(c, {'current': None}, answers[2 * i + 1])
            elif a[0] != 'ok':
                ctx.mismatch(c, {'current': cur}, answers[2 * i + 1])
            else:
                mc = parse_num(a[1])
                if not (near(cur, mc, max(mp['imax'], abs(mc)), 1e-8) or on_edge):
                    ctx.mismatch(c, {'current': cur}, answers[2 * i + 1])
    # odd symmetry: reversing duty cycle and speed reverses torque and current
    for c, out in zip(cases, impl):
        if out[0] != 'ok' or c.get('stream') == 'mirror' or c['i0'] is None:
            continue      # without current data the documented law T_max(1 - w/w0) does not depend on D: no symmetry is claimed
        if ctx.rng.random() < 0.3:
            c2 = dict(c, D=-c['D'], w=[-c['w'][0], c['w'][1]], stream='mirror')
            try:
                m = make_motor(c2)
                m.angular_speed = U.AngularSpeed(*c2['w'])
                m.pwm = c2['D']
                m.compute_torque()
                T2 = sim.qsi(m.driving_torque)
                cur2 = None
                if c['i0'] is not None:
                    m.compute_electric_current()
                    cur2 = sim.qsi(m.electric_current)
            except Exception as ex:  # noqa: BLE001
                ctx.violation(c2, {'why': f'mirrored point raised {type(ex).__name__}'})
                continue
            ctx.count('symmetry pairs')
            sc = max(abs(out[1]), 1e-300)
            if not near(T2, -out[1], sc, 1e-12):
                ctx.violation(c2, {'why': f'torque is not odd: T(-w,-D) = {T2}, -T(w,D) = {-out[1]}'})
            if cur2 is not None and not near(cur2, -out[2], max(abs(out[2]), 1e-300), 1e-12):
                ctx.violation(c2, {'why': f'current is not odd: i(-w,-D) = {cur2}, -i(w,D) = {-out[2]}'})


def gen_motor(rng, with_cur=None):
    ru = True
    w0 = rng.uniform(5, 500)
    tmax = rng.uniform(0.01, 20)
    c = {'t': 'motor', 'w0': gen.in_unit(rng, 'AngularSpeed', w0, ru), 'tmax': gen.in_unit(rng, 'Torque', tmax, ru), 'i0': None, 'imax': None}
    if with_cur if with_cur is not None else rng.random() < 0.8:
        imax = rng.uniform(0.2, 20)
        i0 = rng.choice([0.0, imax * rng.uniform(0.001, 0.6)]) if rng.random() < 0.15 else imax * rng.uniform(0.001, 0.6)
        c['i0'] = gen.in_unit(rng, 'Current', i0, ru)
        c['imax'] = gen.in_unit(rng, 'Current', imax, ru)
    return c, w0


def run_C08(ctx):
    rng = ctx.rng
    cases = []
    n = ctx.budget(300, 20000) * ctx.boost
    for _ in range(n):
        c, w0 = gen_motor(rng)
        w = rng.uniform(-3, 3) * w0 if rng.random() < 0.9 else rng.choice([0.0, w0, -w0])
        c['w'] = gen.in_unit(rng, 'AngularSpeed', w, True)
        r = rng.random()
        if r < 0.5:
            c['D'] = rng.uniform(-1, 1)
        elif r < 0.65:
            c['D'] = rng.choice([1, -1, 0, 0.5, -0.5, 1.0, -1.0])
        else:
            # boundary stream: the dead-zone edge and its floating-point neighbours
            if c['i0'] is None or c['i0'][0] == 0:
                # no current data / no-load current 0: there is no dead zone (and D -> 0+ is not a continuity point of the documented law)
                c['D'] = rng.uniform(-1, 1)
            else:
                pmin = (U.Current(*c['i0']) / U.Current(*c['imax']))
                d = pmin
                k = rng.choice([0, 1, -1, 2, -2, 3, -3, 10, -10])
                for _i in range(abs(k)):
                    d = math.nextafter(d, math.inf if k > 0 else -math.inf)
                c['D'] = d * rng.choice([1, -1])
                c['stream'] = 'boundary'
        if not (-1 <= c['D'] <= 1):
            c['D'] = max(-1.0, min(1.0, c['D']))
        if c.get('stream') != 'boundary' and rng.random() < 0.3:
            c['inplace'] = [(pn, rng.choice(list(SI[PARAM_ATTR[pn][1]].keys())), rng.choice(['prop', 'own']))
                            for pn in rng.sample(['w0', 'tmax', 'i0', 'imax'], rng.randint(1, 3))]
            c['stream'] = 'parameters converted in place after construction'
            if rng.random() < 0.5:
                c['warm'] = True
                c['stream'] += ' and first use'
        elif c.get('stream') != 'boundary' and rng.random() < 0.15:
            # the same motor object evaluated twice: first at the same *number* in another speed unit
            c['warm'] = 'same number'
            c['warm_unit'] = rng.choice([u for u in SI['AngularSpeed'] if u != c['w'][1]])
            c['stream'] = 're-used motor: same speed number in another unit first'
        if c.get('stream') is None and c['i0'] is not None and rng.random() < 0.2:
            c['T_unit'] = rng.choice([u for u in SI['Torque'] if u != c['tmax'][1]])
            c['T_via'] = rng.choice(['setter', 'inplace'])
            c['stream'] = 'driving torque re-expressed before the current is computed'
        cases.append(c)
    # a duty cycle of exactly zero (0, 0.0, -0.0): dead zone with current data, plain T_max(1 - w/w0) without
    for _ in range(ctx.budget(6, 60)):
        for z in (0, 0.0, -0.0):
            c, w0 = gen_motor(rng, with_cur=rng.random() < 0.5)
            c['w'] = gen.in_unit(rng, 'AngularSpeed', rng.uniform(-2, 2) * w0, True)
            c['D'] = z
            c['stream'] = 'duty cycle exactly zero'
            cases.append(c)
    # only one of the two optional currents given: the characteristic is the plain T_max(1 - w/w0)
    for _ in range(ctx.budget(8, 80)):
        c, w0 = gen_motor(rng, with_cur=False)
        c['w'] = gen.in_unit(rng, 'AngularSpeed', rng.uniform(-2, 2) * w0, True)
        c['D'] = rng.choice([1, -1, 0.5, rng.uniform(-1, 1)])
        c['lone'] = [rng.choice(['no_load_electric_current', 'maximum_electric_current']), gen.in_unit(rng, 'Current', rng.uniform(0.1, 5), True)]
        c['stream'] = 'only one of the two currents given'
        cases.append(c)
    # standstill / no-load at full duty
    for _ in range(ctx.budget(20, 300)):
        c, w0 = gen_motor(rng, with_cur=True)
        for w in (0.0, w0):
            cc = dict(c, w=[w / float(SI['AngularSpeed'][c['w0'][1]]), c['w0'][1]], D=1, stream='full duty')
            cases.append(cc)
    for i in range(0, len(cases), 2000):
        eval_motor(ctx, cases[i:i + 2000])
    ctx.rule = ('motor constants in random units, speeds of both signs up to 3x the no-load speed, duty cycles on a random grid, '
                'at 0 / +-1 / +-0.5, and on the dead-zone boundary and its floating-point neighbours (0, +-1, +-2, +-3, +-10 ulp), '
                'with and without current data; parameter objects re-expressed in place after construction; mirrored points for the odd symmetry; every case is non-trivial')


def replay_C08(ctx, case):
    eval_motor(ctx, [case])
