import Gearpy.Model.Relations
import Gearpy.Proofs.Units
import Mathlib.Tactic.Positivity
/-!
# C10 — declaring a mating or joint sets a consistent, validated relation

`declare h plan` = validation (`gearPlan` / `wormPlan` / `jointPlan`: pure, either rejects or
yields the attribute writes) followed by `writes`, each write going through its validating
setter.
* `rejected_unchanged`: a rejected declaration — of any of the three kinds — returns the heap
  exactly as it was: every write a successful validation plans is accepted by its setter
  (`gear_writes_accepted`, `worm_writes_accepted`, `joint_writes_accepted`), so the only way to
  fail is in validation, before the first write.  `declareAll_step`: this holds at every call of
  any sequence of declarations, failing ones included.
  (Before repair D4 `add_worm_gear_mating` linked, assigned roles, ratio and the self-locking flag
  and only then validated the efficiency.)
* post-conditions of an accepted call: `gear_post`, `worm_post`, `joint_post` — mutual links,
  roles, `ratio = z_slave / z_master` (wheel teeth / worm starts, or starts / teeth when the
  wheel drives; exactly 1 for a joint), the efficiency given or computed by the friction formula,
  the worm flagged self-locking exactly when `f > cos α · tan β`;
* `drives_eq_declared`: after any sequence of calls, failing ones included, the element an element drives is the
  slave of the last *accepted* call that named it as master (`declaredFollower`) — the chain is defined by the
  accepted calls alone;
* `accepted_ratio_pos`, `accepted_eff_range`;
* rejection of incompatible pairs: `gear_rejects`, `worm_rejects`, `joint_rejects`;
* the mathematics the code leaves implicit, `wormEff_range_master`, `wormEff_range_wheel`: the
  friction formula stays within [0, 1] exactly when `f·tan β ≤ cos α` (worm driving) resp.
  `f ≤ cos α · tan β` (wheel driving).
-/

namespace Gearpy.C10
open Gearpy

/-- if every write in the list is accepted, `writes` reports no error -/
theorem writes_ok_of_all (h : Heap) (ws : List W) (hall : ∀ h' w, w ∈ ws → ∃ h'', write h' w = .ok h'') :
    (writes h ws).2 = none := by
  induction ws generalizing h with
  | nil => rfl
  | cons w ws ih =>
    obtain ⟨h1, hw⟩ := hall h w (by simp)
    simp only [writes, hw]
    exact ih h1 (fun h' w' hm => hall h' w' (by simp [hm]))

/-- acceptance of a write does not depend on the heap -/
def Accepted (w : W) : Prop := ∀ h', ∃ h'', write h' w = .ok h''

theorem accepted_simple (w : W) (h : match w with | .ratio _ x => 0 < x | .eff _ x => 0 ≤ x ∧ x ≤ 1 | _ => True) :
    Accepted w := by
  intro h'
  cases w with
  | ratio i x => simp only [write]; rw [if_neg (by simp at h; linarith)]; exact ⟨_, rfl⟩
  | eff i x => simp only [write]; rw [if_neg (by simp at h; intro hc; rcases hc with hc | hc <;> linarith [h.1, h.2])]; exact ⟨_, rfl⟩
  | _ => exact ⟨_, rfl⟩

theorem gear_writes_accepted (T : Tbl) (h : Heap) (m s : Nat) (eta : Q) (ws : List W)
    (hp : gearPlan T h m s eta = .ok ws) (hz : ∀ em es, h[m]? = some em → h[s]? = some es → 0 < em.teeth ∧ 0 < es.teeth) :
    ∀ w ∈ ws, Accepted w := by
  unfold gearPlan at hp
  split at hp
  · rename_i em es hm hs
    obtain ⟨hzm, hzs⟩ := hz em es hm hs
    split_ifs at hp with h1 h2 h3 h4 h5 h6 h7
    simp only [Except.ok.injEq] at hp; subst hp
    intro w hw
    simp only [List.mem_cons, List.mem_nil_iff, or_false] at hw
    rcases hw with rfl | rfl | rfl | rfl | rfl | rfl
    · exact accepted_simple _ trivial
    · exact accepted_simple _ trivial
    · exact accepted_simple _ trivial
    · exact accepted_simple _ trivial
    · apply accepted_simple; simp only
      have a : (0 : Q) < em.teeth := by exact_mod_cast hzm
      have b : (0 : Q) < es.teeth := by exact_mod_cast hzs
      positivity
    · apply accepted_simple; simp only
      rw [not_or, not_lt, not_lt] at h4; exact ⟨h4.2, h4.1⟩
  · simp at hp

theorem worm_writes_accepted (T : Tbl) (h : Heap) (m s : Nat) (f : Q) (ws : List W)
    (hp : wormPlan T h m s f = .ok ws) (hz : ∀ em es, h[m]? = some em → h[s]? = some es → 0 < em.teeth ∧ 0 < es.teeth) :
    ∀ w ∈ ws, Accepted w := by
  unfold wormPlan at hp
  split at hp
  · rename_i em es hm hs
    obtain ⟨hzm, hzs⟩ := hz em es hm hs
    split_ifs at hp with h1 h2 h3 h4 h5 h6
    dsimp only at hp
    split_ifs at hp with h7
    all_goals
      simp only [Except.ok.injEq] at hp; subst hp
      intro w hw
      simp only [List.mem_cons, List.mem_nil_iff, or_false] at hw
      rcases hw with rfl | rfl | rfl | rfl | rfl | rfl | rfl | rfl
      · exact accepted_simple _ trivial
      · exact accepted_simple _ trivial
      · exact accepted_simple _ trivial
      · exact accepted_simple _ trivial
      · apply accepted_simple; simp only
        have a : (0 : Q) < em.teeth := by exact_mod_cast hzm
        have b : (0 : Q) < es.teeth := by exact_mod_cast hzs
        positivity
      · apply accepted_simple; simp only
        rw [not_or, not_lt, not_lt] at h7; exact ⟨h7.2, h7.1⟩
      · exact accepted_simple _ trivial
      · exact accepted_simple _ trivial
  · simp at hp

theorem joint_writes_accepted (h : Heap) (m s : Nat) (ws : List W) (hp : jointPlan h m s = .ok ws) :
    ∀ w ∈ ws, Accepted w := by
  unfold jointPlan at hp
  split at hp
  · split_ifs at hp
    simp only [Except.ok.injEq] at hp; subst hp
    intro w hw
    simp only [List.mem_cons, List.mem_nil_iff, or_false] at hw
    rcases hw with rfl | rfl | rfl
    · exact accepted_simple _ trivial
    · exact accepted_simple _ trivial
    · apply accepted_simple; simp
  · simp at hp

/-- a declaration whose planned writes are all accepted either fails in validation, leaving the
    heap untouched, or succeeds -/
theorem declare_rejected_unchanged (h : Heap) (plan : Except Err (List W))
    (hacc : ∀ ws, plan = .ok ws → ∀ w ∈ ws, Accepted w) (e : Err)
    (hr : (declare h plan).2 = some e) : (declare h plan).1 = h := by
  unfold declare at hr ⊢
  cases hp : plan with
  | error e' => rfl
  | ok ws =>
    simp only [hp] at hr
    have := writes_ok_of_all h ws (fun h' w hw => hacc ws hp w hw h')
    rw [this] at hr; simp at hr

/-- every element of the heap has a positive teeth / starts number where it matters
    (constructors enforce `n_teeth ≥ 10`, `n_starts ≥ 1`) -/
def TeethPos (h : Heap) : Prop := ∀ (i : Nat) (e : Elem), h[i]? = some e → isGearBase e.kind = true ∨ isWorm e.kind = true → 0 < e.teeth

/-- C10: a rejected call of any of the three declaration functions leaves the heap unmodified -/
theorem rejected_unchanged (T : Tbl) (h : Heap) (d : Decl) (htp : TeethPos h) (e : Err)
    (hr : (d.run T h).2 = some e) : (d.run T h).1 = h := by
  cases d with
  | gear m s eta =>
    refine declare_rejected_unchanged h _ (fun ws hp => gear_writes_accepted T h m s eta ws hp ?_) e hr
    intro em es hm hs
    unfold gearPlan at hp; simp only [hm, hs] at hp
    split_ifs at hp with h1 h2
    exact ⟨htp m em hm (Or.inl (by simpa using h1)), htp s es hs (Or.inl (by simpa using h2))⟩
  | worm m s f =>
    refine declare_rejected_unchanged h _ (fun ws hp => worm_writes_accepted T h m s f ws hp ?_) e hr
    intro em es hm hs
    unfold wormPlan at hp; simp only [hm, hs] at hp
    split_ifs at hp with h1 h2
    all_goals exact ⟨htp m em hm (Or.inr (by simpa using h1)), htp s es hs (Or.inr (by simpa using h2))⟩
  | joint m s =>
    exact declare_rejected_unchanged h _ (fun ws hp => joint_writes_accepted h m s ws hp) e hr

theorem get_upd (h : Heap) (i j : Nat) (f : Elem → Elem) :
    (upd h i f)[j]? = (h[j]?).map (fun e => if i = j then f e else e) := by
  unfold upd; rw [List.getElem?_modify]; rfl

/-- a write replaces one element by one with the same kind and teeth number -/
theorem write_shape (h h' : Heap) (w : W) (hw : write h w = .ok h') :
    ∃ (i : Nat) (f : Elem → Elem), h' = upd h i f ∧ ∀ e : Elem, (f e).kind = e.kind ∧ (f e).teeth = e.teeth := by
  cases w <;> simp only [write] at hw <;> (try split_ifs at hw) <;>
    first
    | (injection hw with hw; exact ⟨_, _, hw.symm, fun e => ⟨rfl, rfl⟩⟩)
    | (simp at hw)

/-- writes never change kinds or teeth numbers, so `TeethPos` survives every declaration -/
theorem write_teeth (h h' : Heap) (w : W) (hw : write h w = .ok h') (htp : TeethPos h) : TeethPos h' := by
  obtain ⟨i, f, rfl, hf⟩ := write_shape h h' w hw
  intro j e hj hk
  rw [get_upd] at hj
  cases hh : h[j]? with
  | none => rw [hh] at hj; exact absurd hj (by simp)
  | some e0 =>
    rw [hh] at hj
    simp only [Option.map_some, Option.some.injEq] at hj
    split at hj
    · rw [← hj] at hk ⊢; rw [(hf e0).1] at hk; rw [(hf e0).2]; exact htp j e0 hh hk
    · rw [← hj] at hk ⊢; exact htp j e0 hh hk

theorem writes_teeth (h : Heap) (ws : List W) (htp : TeethPos h) : TeethPos (writes h ws).1 := by
  induction ws generalizing h with
  | nil => exact htp
  | cons w ws ih =>
    simp only [writes]
    cases hw : write h w with
    | error e => exact htp
    | ok h' => exact ih h' (write_teeth h h' w hw htp)

theorem run_teeth (T : Tbl) (h : Heap) (d : Decl) (htp : TeethPos h) : TeethPos (d.run T h).1 := by
  have key : ∀ plan, TeethPos (declare h plan).1 := by
    intro plan; unfold declare; cases plan with
    | error e => exact htp
    | ok ws => exact writes_teeth h ws htp
  cases d <;> exact key _

theorem declareAll_teeth (T : Tbl) (h : Heap) (ds : List Decl) (htp : TeethPos h) : TeethPos (declareAll T h ds) := by
  induction ds generalizing h with
  | nil => exact htp
  | cons d' ds ih => exact ih _ (run_teeth T h d' htp)

/-- C10 for **any sequence** of declaration calls: at every call, a rejection leaves the heap as
    that call found it -/
theorem declareAll_step (T : Tbl) (h : Heap) (ds₁ : List Decl) (d : Decl) (htp : TeethPos h) (e : Err)
    (hr : (d.run T (declareAll T h ds₁)).2 = some e) :
    (d.run T (declareAll T h ds₁)).1 = declareAll T h ds₁ :=
  rejected_unchanged T _ d (declareAll_teeth T h ds₁ htp) e hr

/-! ### what an accepted plan writes -/

theorem gear_plan_shape (T : Tbl) (h : Heap) (m s : Nat) (eta : Q) (ws : List W) (hp : gearPlan T h m s eta = .ok ws) :
    ∃ em es, h[m]? = some em ∧ h[s]? = some es ∧ m ≠ s ∧ 0 ≤ eta ∧ eta ≤ 1 ∧
      isGearBase em.kind = true ∧ isGearBase es.kind = true ∧ hasHelix em.kind = hasHelix es.kind ∧
      ws = [.drives m s, .role m .master, .drivenBy s m, .role s .slave, .ratio s ((es.teeth : Q) / em.teeth), .eff s eta] := by
  unfold gearPlan at hp
  split at hp
  · rename_i em es hm hs
    split_ifs at hp with h1 h2 h3 h4 h5 h6 h7
    simp only [Except.ok.injEq] at hp
    rw [not_or, not_lt, not_lt] at h4
    refine ⟨em, es, hm, hs, h3, h4.2, h4.1, by simpa using h1, by simpa using h2, by simpa using h6, hp.symm⟩
  · simp at hp

/-- incompatible pairs are rejected by `add_gear_mating` -/
theorem gear_rejects (T : Tbl) (h : Heap) (m s : Nat) (eta : Q) (em es : Elem) (hm : h[m]? = some em) (hs : h[s]? = some es)
    (hbad : isGearBase em.kind = false ∨ isGearBase es.kind = false ∨ m = s ∨ 1 < eta ∨ eta < 0 ∨
            hasHelix em.kind ≠ hasHelix es.kind ∨
            (∃ a b, em.module = some a ∧ es.module = some b ∧ qtyNe T a b = true) ∨
            (∃ a b, em.helix = some a ∧ es.helix = some b ∧ hasHelix em.kind = true ∧ hasHelix es.kind = true ∧ qtyNe T a b = true)) :
    ∃ e, gearPlan T h m s eta = .error e := by
  cases hp : gearPlan T h m s eta with
  | error e => exact ⟨e, rfl⟩
  | ok ws =>
    exfalso
    unfold gearPlan at hp
    simp only [hm, hs] at hp
    split_ifs at hp with h1 h2 h3 h4 h5 h6 h7
    rcases hbad with hb | hb | hb | hb | hb | hb | ⟨a, b, ha, hb, hne⟩ | ⟨a, b, ha, hb, k1, k2, hne⟩
    · simp [hb] at h1
    · simp [hb] at h2
    · exact h3 hb
    · exact h4 (Or.inl hb)
    · exact h4 (Or.inr hb)
    · apply hb; simpa using h6
    · simp [ha, hb, hne] at h5
    · simp [ha, hb, k1, k2, hne] at h7

theorem worm_plan_shape (T : Tbl) (h : Heap) (m s : Nat) (f : Q) (ws : List W) (hp : wormPlan T h m s f = .ok ws) :
    ∃ em es, h[m]? = some em ∧ h[s]? = some es ∧ isWorm em.kind = true ∧ isWorm es.kind = true ∧ em.kind ≠ es.kind ∧
      0 ≤ f ∧ f ≤ 1 ∧ em.tanB ≠ 0 ∧
      0 ≤ wormEff (em.kind == .wormGear) em.cosA em.tanB f ∧ wormEff (em.kind == .wormGear) em.cosA em.tanB f ≤ 1 ∧
      ws = [.drives m s, .role m .master, .drivenBy s m, .role s .slave, .ratio s ((es.teeth : Q) / em.teeth),
            .eff s (wormEff (em.kind == .wormGear) em.cosA em.tanB f),
            .selfLocking (if em.kind == .wormGear then m else s)
              (decide ((if em.kind == .wormGear then em else es).cosA * (if em.kind == .wormGear then em else es).tanB < f)),
            .bendingKey (if em.kind == .wormGear then s else m)
              (wormWheelBendingComputable (if em.kind == .wormGear then es else em).data
                (some (if em.kind == .wormGear then em else es).refDiam))] := by
  unfold wormPlan at hp
  split at hp
  · rename_i em es hm hs
    split_ifs at hp with h1 h2 h3 h4 h5 h6
    dsimp only at hp
    by_cases h7 : (1 < wormEff (em.kind == .wormGear) em.cosA em.tanB f ∨ wormEff (em.kind == .wormGear) em.cosA em.tanB f < 0)
    · rw [if_pos h7] at hp; simp at hp
    · rw [if_neg h7] at hp
      simp only [Except.ok.injEq] at hp
      rw [not_or, not_lt, not_lt] at h4 h7
      exact ⟨em, es, hm, hs, by simpa using h1, by simpa using h2, by simpa using h3, h4.2, h4.1, h6, h7.2, h7.1, hp.symm⟩
  · simp at hp

/-- incompatible pairs are rejected by `add_worm_gear_mating` -/
theorem worm_rejects (T : Tbl) (h : Heap) (m s : Nat) (f : Q) (em es : Elem) (hm : h[m]? = some em) (hs : h[s]? = some es)
    (hbad : isWorm em.kind = false ∨ isWorm es.kind = false ∨ em.kind = es.kind ∨ 1 < f ∨ f < 0 ∨ em.tanB = 0 ∨
            (∃ a b, em.pressure = some a ∧ es.pressure = some b ∧ qtyNe T a b = true) ∨
            1 < wormEff (em.kind == .wormGear) em.cosA em.tanB f ∨ wormEff (em.kind == .wormGear) em.cosA em.tanB f < 0) :
    ∃ e, wormPlan T h m s f = .error e := by
  cases hp : wormPlan T h m s f with
  | error e => exact ⟨e, rfl⟩
  | ok ws =>
    exfalso
    obtain ⟨em', es', hm', hs', g1, g2, g3, g4, g5, g6, g7, g8, _⟩ := worm_plan_shape T h m s f ws hp
    rw [hm] at hm'; rw [hs] at hs'
    simp only [Option.some.injEq] at hm' hs'; subst hm' hs'
    rcases hbad with hb | hb | hb | hb | hb | hb | ⟨a, b, ha, hb, hne⟩ | hb | hb
    · rw [hb] at g1; simp at g1
    · rw [hb] at g2; simp at g2
    · exact g3 hb
    · linarith
    · linarith
    · exact g6 hb
    · unfold wormPlan at hp
      simp only [hm, hs] at hp
      split_ifs at hp with h1 h2 h3 h4 h5 <;> simp_all
    · linarith
    · linarith

/-- the worm is flagged self-locking exactly when `f > cos α · tan β` (of the worm gear) -/
theorem worm_selfLocking_iff (cosA tanB f : Q) : decide (cosA * tanB < f) = true ↔ f > cosA * tanB := by simp

theorem joint_plan_shape (h : Heap) (m s : Nat) (ws : List W) (hp : jointPlan h m s = .ok ws) :
    ∃ es, h[s]? = some es ∧ es.kind ≠ .motor ∧ m ≠ s ∧ ws = [.drives m s, .drivenBy s m, .ratio s 1] := by
  unfold jointPlan at hp
  split at hp
  · rename_i em es hm hs
    split_ifs at hp with h1 h2
    simp only [Except.ok.injEq] at hp
    exact ⟨es, hs, by simpa using h1, h2, hp.symm⟩
  · simp at hp

/-- a motor can only be master; an element cannot be joined with itself -/
theorem joint_rejects (h : Heap) (m s : Nat) (es : Elem) (hs : h[s]? = some es)
    (hbad : es.kind = .motor ∨ m = s) : ∃ e, jointPlan h m s = .error e := by
  cases hp : jointPlan h m s with
  | error e => exact ⟨e, rfl⟩
  | ok ws =>
    obtain ⟨es', hs', hk, hne, _⟩ := joint_plan_shape h m s ws hp
    rw [hs] at hs'; simp only [Option.some.injEq] at hs'; subst hs'
    rcases hbad with hb | hb
    · exact absurd hb hk
    · exact absurd hb hne

/-! ### post-state of an accepted declaration -/

/-- what a write does to element `j` -/
def effect (w : W) (j : Nat) (e : Elem) : Elem :=
  match w with
  | .drives i k => if i = j then { e with drives := some k } else e
  | .drivenBy i k => if i = j then { e with drivenBy := some k } else e
  | .role i r => if i = j then { e with role := some r } else e
  | .ratio i x => if i = j then { e with ratio := some x } else e
  | .eff i x => if i = j then { e with eff := x } else e
  | .selfLocking i b => if i = j then { e with selfLocking := some b } else e
  | .bendingKey i b => if i = j then { e with bendingKey := b } else e

theorem write_get (h h' : Heap) (w : W) (hw : write h w = .ok h') (j : Nat) :
    h'[j]? = (h[j]?).map (effect w j) := by
  cases w <;> simp only [write] at hw <;> (try split_ifs at hw) <;>
    first
    | (injection hw with hw; rw [← hw, get_upd]; rfl)
    | (simp at hw)

/-- the heap after a list of accepted writes, element by element -/
theorem writes_get (h : Heap) (ws : List W) (hall : ∀ w ∈ ws, Accepted w) (j : Nat) :
    (writes h ws).1[j]? = (h[j]?).map (fun e => ws.foldl (fun e w => effect w j e) e) ∧ (writes h ws).2 = none := by
  induction ws generalizing h with
  | nil => simp [writes]
  | cons w ws ih =>
    obtain ⟨h1, hw⟩ := hall w (by simp) h
    simp only [writes, hw]
    obtain ⟨a, b⟩ := ih h1 (fun w' hm => hall w' (by simp [hm]))
    refine ⟨?_, b⟩
    rw [a, write_get h h1 w hw j]
    cases h[j]? <;> simp

/-- post-conditions of an accepted gear mating -/
theorem gear_post (T : Tbl) (h : Heap) (m s : Nat) (eta : Q) (ws : List W) (hp : gearPlan T h m s eta = .ok ws)
    (htp : TeethPos h) :
    ∃ em es em' es', h[m]? = some em ∧ h[s]? = some es ∧ (addGearMating T h m s eta).2 = none ∧
      (addGearMating T h m s eta).1[m]? = some em' ∧ (addGearMating T h m s eta).1[s]? = some es' ∧
      em'.drives = some s ∧ em'.role = some .master ∧ es'.drivenBy = some m ∧ es'.role = some .slave ∧
      es'.ratio = some ((es.teeth : Q) / em.teeth) ∧ es'.eff = eta := by
  have hacc := gear_writes_accepted T h m s eta ws hp (by
    intro em es hm hs
    obtain ⟨em', es', hm', hs', _, _, _, g1, g2, _⟩ := gear_plan_shape T h m s eta ws hp
    rw [hm] at hm'; rw [hs] at hs'
    simp only [Option.some.injEq] at hm' hs'; subst hm' hs'
    exact ⟨htp m em hm (Or.inl g1), htp s es hs (Or.inl g2)⟩)
  obtain ⟨em, es, hm, hs, hne, _, _, _, _, _, rfl⟩ := gear_plan_shape T h m s eta ws hp
  have hne' : ¬ s = m := fun e => hne e.symm
  refine ⟨em, es, ?_⟩
  unfold addGearMating declare
  simp only [hp]
  obtain ⟨gm, gn⟩ := writes_get h _ hacc m
  obtain ⟨gs, _⟩ := writes_get h _ hacc s
  rw [gm, gs, hm, hs]
  refine ⟨_, _, rfl, rfl, gn, rfl, rfl, ?_⟩
  simp [effect, hne, hne']

/-- post-conditions of an accepted worm mating -/
theorem worm_post (T : Tbl) (h : Heap) (m s : Nat) (f : Q) (ws : List W) (hp : wormPlan T h m s f = .ok ws)
    (htp : TeethPos h) :
    ∃ em es em' es', h[m]? = some em ∧ h[s]? = some es ∧ (addWormGearMating T h m s f).2 = none ∧
      (addWormGearMating T h m s f).1[m]? = some em' ∧ (addWormGearMating T h m s f).1[s]? = some es' ∧
      em'.drives = some s ∧ em'.role = some .master ∧ es'.drivenBy = some m ∧ es'.role = some .slave ∧
      es'.ratio = some ((es.teeth : Q) / em.teeth) ∧
      es'.eff = wormEff (em.kind == .wormGear) em.cosA em.tanB f ∧
      (em.kind = .wormGear → em'.selfLocking = some (decide (em.cosA * em.tanB < f))) ∧
      (em.kind ≠ .wormGear → es'.selfLocking = some (decide (es.cosA * es.tanB < f))) := by
  have hacc := worm_writes_accepted T h m s f ws hp (by
    intro em es hm hs
    obtain ⟨em', es', hm', hs', g1, g2, _⟩ := worm_plan_shape T h m s f ws hp
    rw [hm] at hm'; rw [hs] at hs'
    simp only [Option.some.injEq] at hm' hs'; subst hm' hs'
    exact ⟨htp m em hm (Or.inr g1), htp s es hs (Or.inr g2)⟩)
  obtain ⟨em, es, hm, hs, _, _, hk, _, _, _, _, _, rfl⟩ := worm_plan_shape T h m s f ws hp
  have hne : m ≠ s := by
    intro e; subst e; rw [hm] at hs; simp only [Option.some.injEq] at hs; subst hs; exact hk rfl
  have hne' : ¬ s = m := fun e => hne e.symm
  refine ⟨em, es, ?_⟩
  unfold addWormGearMating declare
  simp only [hp]
  obtain ⟨gm, gn⟩ := writes_get h _ hacc m
  obtain ⟨gs, _⟩ := writes_get h _ hacc s
  rw [gm, gs, hm, hs]
  refine ⟨_, _, rfl, rfl, gn, rfl, rfl, ?_⟩
  by_cases hw : em.kind = .wormGear <;> simp [effect, hne, hne', hw]

/-- post-conditions of an accepted fixed joint: mutual links and ratio exactly 1 -/
theorem joint_post (h : Heap) (m s : Nat) (ws : List W) (hp : jointPlan h m s = .ok ws) (em : Elem) (hm : h[m]? = some em) :
    ∃ em' es', (addFixedJoint h m s).2 = none ∧
      (addFixedJoint h m s).1[m]? = some em' ∧ (addFixedJoint h m s).1[s]? = some es' ∧
      em'.drives = some s ∧ es'.drivenBy = some m ∧ es'.ratio = some 1 := by
  have hacc := joint_writes_accepted h m s ws hp
  obtain ⟨es, hs, _, hne, rfl⟩ := joint_plan_shape h m s ws hp
  have hne' : ¬ s = m := fun e => hne e.symm
  unfold addFixedJoint declare
  simp only [hp]
  obtain ⟨gm, gn⟩ := writes_get h _ hacc m
  obtain ⟨gs, _⟩ := writes_get h _ hacc s
  rw [gm, gs, hm, hs]
  refine ⟨_, _, gn, rfl, rfl, ?_⟩
  simp [effect, hne, hne']

/-! ### the forward links are those of the accepted declarations

`drives_eq_declared`: after any sequence of declaration calls (failing ones included), the element an element
drives is the slave of the **last accepted** call that named it as master — or the one it drove before, if no
call did.  Back-links play no role (`C20.chain_ignores_backlinks`), so the chain a powertrain is assembled from
is determined by the accepted calls alone. -/

def _root_.Gearpy.Decl.master : Decl → Nat | .gear m _ _ => m | .worm m _ _ => m | .joint m _ => m
def _root_.Gearpy.Decl.slave : Decl → Nat | .gear _ s _ => s | .worm _ s _ => s | .joint _ s => s

/-- follower of `i` as the accepted declarations define it (`cur`: the follower it has so far) -/
def declaredFollower (T : Tbl) : Heap → List Decl → Nat → Option Nat → Option Nat
  | _, [], _, cur => cur
  | h, d :: ds, i, cur =>
    declaredFollower T (d.run T h).1 ds i
      (if (d.run T h).2 = none ∧ d.master = i then some d.slave else cur)

def drivesOf (h : Heap) (i : Nat) : Option Nat := (h[i]?).bind (·.drives)

theorem effect_drives (w : W) (j : Nat) (e : Elem) :
    (effect w j e).drives = match w with | .drives i k => if i = j then some k else e.drives | _ => e.drives := by
  cases w <;> simp only [effect] <;> split_ifs <;> rfl

theorem fold_drives (ws : List W) (j : Nat) (e : Elem) :
    (ws.foldl (fun e w => effect w j e) e).drives =
      ws.foldl (fun acc w => match w with | .drives i k => if i = j then some k else acc | _ => acc) e.drives := by
  induction ws generalizing e with
  | nil => rfl
  | cons w ws ih => simp only [List.foldl_cons]; rw [ih, effect_drives]

theorem fold_no_drives (rest : List W) (j : Nat) (hrest : ∀ w ∈ rest, ∀ i k, w ≠ .drives i k) (acc : Option Nat) :
    rest.foldl (fun acc w => match w with | .drives i k => if i = j then some k else acc | _ => acc) acc = acc := by
  induction rest generalizing acc with
  | nil => rfl
  | cons w ws' ih =>
    simp only [List.foldl_cons]
    have hw := hrest w (by simp)
    rw [ih (fun w' hw' => hrest w' (by simp [hw']))]
    cases w <;> first | rfl | (exact absurd rfl (hw _ _))

/-- an accepted plan whose only `drives` write is the first one, `drives m s` -/
theorem declare_drives (h : Heap) (ws : List W) (m s : Nat) (rest : List W) (hws : ws = .drives m s :: rest)
    (hrest : ∀ w ∈ rest, ∀ i k, w ≠ .drives i k) (hacc : ∀ w ∈ ws, Accepted w) (hm : ∃ em, h[m]? = some em) (j : Nat) :
    (declare h (.ok ws)).2 = none ∧
      drivesOf (declare h (.ok ws)).1 j = if m = j then some s else drivesOf h j := by
  unfold declare
  obtain ⟨g, gn⟩ := writes_get h ws hacc j
  refine ⟨gn, ?_⟩
  unfold drivesOf
  rw [g]
  have hfold := fold_no_drives rest j hrest
  cases hj : h[j]? with
  | none =>
    simp only [Option.map_none, Option.bind_none]
    split
    · rename_i hmj; subst hmj; obtain ⟨em, hem⟩ := hm; rw [hem] at hj; simp at hj
    · rfl
  | some e =>
    simp only [Option.map_some, Option.bind_some]
    rw [fold_drives, hws]
    simp only [List.foldl_cons]
    rw [hfold]

theorem run_drives (T : Tbl) (h : Heap) (d : Decl) (htp : TeethPos h) (j : Nat) :
    drivesOf (d.run T h).1 j =
      if (d.run T h).2 = none ∧ d.master = j then some d.slave else drivesOf h j := by
  cases hr : (d.run T h).2 with
  | some e =>
    rw [rejected_unchanged T h d htp e hr]; simp
  | none =>
    cases d with
    | gear m s eta =>
      simp only [Decl.run, addGearMating] at hr ⊢
      cases hp : gearPlan T h m s eta with
      | error e => rw [hp] at hr; simp [declare] at hr
      | ok ws =>
        obtain ⟨em, es, hm, hs, _, _, _, g1, g2, _, hws⟩ := gear_plan_shape T h m s eta ws hp
        have hacc := gear_writes_accepted T h m s eta ws hp (by
          intro em' es' hm' hs'
          rw [hm] at hm'; rw [hs] at hs'
          simp only [Option.some.injEq] at hm' hs'; subst hm' hs'
          exact ⟨htp m em hm (Or.inl g1), htp s es hs (Or.inl g2)⟩)
        obtain ⟨_, hd⟩ := declare_drives h ws m s _ hws (by intro w hw i k; simp at hw; rcases hw with rfl | rfl | rfl | rfl | rfl <;> simp) hacc ⟨em, hm⟩ j
        rw [hd]; simp [Decl.master, Decl.slave]
    | worm m s f =>
      simp only [Decl.run, addWormGearMating] at hr ⊢
      cases hp : wormPlan T h m s f with
      | error e => rw [hp] at hr; simp [declare] at hr
      | ok ws =>
        obtain ⟨em, es, hm, hs, g1, g2, _, _, _, _, _, _, hws⟩ := worm_plan_shape T h m s f ws hp
        have hacc := worm_writes_accepted T h m s f ws hp (by
          intro em' es' hm' hs'
          rw [hm] at hm'; rw [hs] at hs'
          simp only [Option.some.injEq] at hm' hs'; subst hm' hs'
          exact ⟨htp m em hm (Or.inr g1), htp s es hs (Or.inr g2)⟩)
        obtain ⟨_, hd⟩ := declare_drives h ws m s _ hws (by intro w hw i k; simp at hw; rcases hw with rfl | rfl | rfl | rfl | rfl | rfl | rfl <;> simp) hacc ⟨em, hm⟩ j
        rw [hd]; simp [Decl.master, Decl.slave]
    | joint m s =>
      simp only [Decl.run, addFixedJoint] at hr ⊢
      cases hp : jointPlan h m s with
      | error e => rw [hp] at hr; simp [declare] at hr
      | ok ws =>
        obtain ⟨es, hs, _, _, hws⟩ := joint_plan_shape h m s ws hp
        have hacc := joint_writes_accepted h m s ws hp
        have hm : ∃ em, h[m]? = some em := by
          unfold jointPlan at hp
          cases hmm : h[m]? with
          | none => simp [hmm] at hp
          | some em => exact ⟨em, rfl⟩
        obtain ⟨_, hd⟩ := declare_drives h ws m s _ hws (by intro w hw i k; simp at hw; rcases hw with rfl | rfl <;> simp) hacc hm j
        rw [hd]; simp [Decl.master, Decl.slave]

/-- C10/C20: after any sequence of declaration calls, failing ones included, the element that `i` drives is the
    slave of the last accepted call naming `i` as master (or the one it drove before the sequence) -/
theorem drives_eq_declared (T : Tbl) (h : Heap) (ds : List Decl) (htp : TeethPos h) (i : Nat) :
    drivesOf (declareAll T h ds) i = declaredFollower T h ds i (drivesOf h i) := by
  induction ds generalizing h with
  | nil => rfl
  | cons d ds ih =>
    simp only [declareAll, declaredFollower]
    rw [ih (d.run T h).1 (run_teeth T h d htp), run_drives T h d htp i]

/-- every accepted relation has ratio > 0 and efficiency within [0, 1] -/
theorem accepted_ratio_pos (h h' : Heap) (i : Nat) (x : Q) (hw : write h (.ratio i x) = .ok h') : 0 < x := by
  simp only [write] at hw; split at hw
  · simp at hw
  · rename_i hx; exact not_le.mp hx

theorem accepted_eff_range (h h' : Heap) (i : Nat) (x : Q) (hw : write h (.eff i x) = .ok h') : 0 ≤ x ∧ x ≤ 1 := by
  simp only [write] at hw; split at hw
  · simp at hw
  · rename_i hx; rw [not_or, not_lt, not_lt] at hx; exact ⟨hx.2, hx.1⟩

/-! ### the mathematics behind the worm efficiency check -/

/-- worm driving (`0 < cos α`, `0 < tan β`, `0 ≤ f`): efficiency within [0,1] iff `f·tan β ≤ cos α` -/
theorem wormEff_range_master (c t f : Q) (hc : 0 < c) (ht : 0 < t) (hf : 0 ≤ f) :
    (0 ≤ wormEff true c t f ∧ wormEff true c t f ≤ 1) ↔ f * t ≤ c := by
  simp only [wormEff, if_true]
  have hden : 0 < c + f / t := by positivity
  rw [div_nonneg_iff, div_le_one hden]
  constructor
  · rintro ⟨h1 | h1, _⟩
    · linarith [h1.1]
    · linarith [h1.2]
  · intro h
    refine ⟨Or.inl ⟨by linarith, hden.le⟩, ?_⟩
    have : 0 ≤ f / t := by positivity
    nlinarith [mul_nonneg hf ht.le]

/-- wheel driving: efficiency within [0,1] iff `f ≤ cos α · tan β` — with equal angles on wheel and
    worm, a wheel can drive a worm only if the pair is not self-locking -/
theorem wormEff_range_wheel (c t f : Q) (hc : 0 < c) (ht : 0 < t) (hf : 0 ≤ f) :
    (0 ≤ wormEff false c t f ∧ wormEff false c t f ≤ 1) ↔ f ≤ c * t := by
  simp only [wormEff, Bool.false_eq_true, if_false]
  have hden : 0 < c + f * t := by positivity
  rw [div_nonneg_iff, div_le_one hden]
  have key : f / t ≤ c ↔ f ≤ c * t := div_le_iff₀ ht
  constructor
  · rintro ⟨h1 | h1, _⟩
    · exact key.mp (by linarith [h1.1])
    · linarith [h1.2]
  · intro h
    have h' := key.mpr h
    refine ⟨Or.inl ⟨by linarith, hden.le⟩, ?_⟩
    have : 0 ≤ f / t := by positivity
    nlinarith [mul_nonneg hf ht.le]

/-! ### non-vacuity: the D4 input (α = 30°, β = 45°, f = 1) is rejected and leaves the heap untouched -/
def wormEx : Heap :=
  [ { kind := .wormGear, name := 0, teeth := 1, cosA := 866/1000, tanB := 1 },
    { kind := .wormWheel, name := 1, teeth := 30, cosA := 866/1000, tanB := 1 } ]
def T0 : Tbl := { f := fun _ _ => 1, si := fun _ => 0, tol := 1/1000000000000 }
example : addWormGearMating T0 wormEx 0 1 1 = (wormEx, some .valueE) := by decide +kernel
example : (addWormGearMating T0 wormEx 0 1 (1/10)).2 = none := by decide +kernel

end Gearpy.C10
