import Gearpy.Model.Basic
/-!
# Gearpy.Model.Gears — tooth force and stresses (SI level)
mirrors `spur_gear.py`, `helical_gear.py`, `worm_wheel.py`, `worm_gear.py`,
`mechanical_object_base.py` (Lewis interpolation).

Trigonometric values are parameters (`sinA`, `cosA`, `cosB`, `tanB`, …): the harness computes them
with the library calls the code makes.  The contact stress is modelled by its *square*
(`0.262922² · E_eq · p`), the code takes `sqrt` of `E_eq · p`.
-/

namespace Gearpy

inductive Role | master | slave deriving DecidableEq, Repr, Inhabited

/-- `scipy.interpolate.interp1d(kind='linear', bounds_error=False, fill_value=(first, last))`
    on a table sorted by strictly increasing abscissa -/
def interpClamp : List (Q × Q) → Q → Q
  | [], _ => 0
  | [(_, y)], _ => y
  | (x0, y0) :: (x1, y1) :: rest, x =>
      if x ≤ x0 then y0
      else if x ≤ x1 then y0 + (y1 - y0) * (x - x0) / (x1 - x0)
      else interpClamp ((x1, y1) :: rest) x

/-- the reference torque of a mated gear: load torque for a master, driving torque for a slave;
    an unmated gear raises `ValueError` -/
def refTorque (role : Option Role) (dT lT : Q) : Except Err Q :=
  match role with
  | some .master => .ok lT
  | some .slave => .ok dT
  | none => .error .valueE

/-- `compute_tangential_force` of spur / helical gears and worm wheels -/
def tangentialForce (role : Option Role) (dT lT d : Q) : Except Err Q :=
  (refTorque role dT lT).map fun T => qabs T / (d / 2)

/-- `WormGear.compute_tangential_force` -/
def wormGearForce (role : Option Role) (dT lT d tanB : Q) : Except Err Q :=
  (refTorque role dT lT).map fun T => qabs T / (d / 2) * tanB

/-- `compute_bending_stress` of spur and helical gears: `F / (m·b) / Y` -/
def bendingStress (F m b Y : Q) : Q := F / (m * b) / Y

/-- `WormWheel.compute_bending_stress`: normal pitch and effective width from the mating worm -/
def wormWheelBending (F pi dWorm sinBWorm : Q) (z : Nat) (b Y : Q) : Q :=
  let pn := pi * dWorm * sinBWorm / (z : Q)
  let w := 67 / 100 * dWorm
  let beff := if b ≤ w then b else w
  F / (pn * beff) / Y

/-- equivalent elastic modulus and contact pressure, then `0.262922² · E_eq · p`
    (the square of the contact stress); spur gears are the case `cosB = 1` with the
    plain pressure angle -/
def contactStressSq (F E1 E2 d1 d2 b sinA cosA cosB : Q) : Q :=
  let eeq := 2 * E1 * (E2 / (E1 + E2))
  let curv := sinA / 2 * d1 * (d2 / (d1 + d2))
  let p := F / cosA / (b / cosB * curv)
  (262922 / 1000000) * (262922 / 1000000) * (eeq * p)

/-- which data a gear mate must have for the contact stress: `ValueError` otherwise -/
def contactMate (role : Option Role) (mateModule mateModulus : Bool) : Except Err Unit :=
  match role with
  | none => .error .valueE
  | some _ => if !mateModule then .error .valueE else if !mateModulus then .error .valueE else .ok ()

/-- optional data of a gear -/
structure GearData where
  module : Bool
  faceWidth : Bool
  modulus : Bool
  deriving DecidableEq, Repr, Inhabited

def forceComputable (g : GearData) : Bool := g.module
def bendingComputable (g : GearData) : Bool := g.module && g.faceWidth
def contactComputable (g : GearData) : Bool := g.module && g.faceWidth && g.modulus
/-- a worm wheel's bending stress also needs the mating worm's reference diameter (if mated) -/
def wormWheelBendingComputable (g : GearData) (mateRefDiam : Option Bool) : Bool :=
  match mateRefDiam with
  | some d => bendingComputable g && d
  | none => bendingComputable g

end Gearpy
