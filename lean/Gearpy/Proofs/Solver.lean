import Gearpy.Model.Solver
import Mathlib.Tactic.Ring
import Mathlib.Tactic.Linarith
import Mathlib.Algebra.Order.Field.Rat
/-!
# Lemmas about the solver model: the record law, its invariance along every history,
grid / loop composition, the stop prefix.  Used by C01, C02, C03, C12, C13, C16.
-/

namespace Gearpy

/-- adjacent elements are coupled through the ratio list: `v_{i} = r_{i+1} · v_{i+1}` -/
def Coupled : List Q → List Q → Prop
  | [], [_] => True
  | r :: rs, a :: b :: vs => a = r * b ∧ Coupled rs (b :: vs)
  | _, _ => False

theorem upstream_ne_nil (rs : List Q) (x : Q) : upstream rs x ≠ [] := by
  cases rs with
  | nil => simp [upstream]
  | cons r rs => simp only [upstream]; split <;> simp

theorem upstream_coupled (rs : List Q) (x : Q) : Coupled rs (upstream rs x) := by
  induction rs with
  | nil => simp [upstream, Coupled]
  | cons r rs ih =>
    simp only [upstream]
    split
    · rename_i h; exact absurd h (upstream_ne_nil rs x)
    · rename_i v vs h; rw [h] at ih; exact ⟨rfl, ih⟩

theorem zeros_coupled (rs : List Q) : Coupled rs (zeros (rs.length + 1)) := by
  induction rs with
  | nil => simp [zeros, Coupled]
  | cons r rs ih =>
    simp only [zeros, List.length_cons, List.replicate_succ] at *
    exact ⟨by ring, ih⟩

theorem upstream_length (rs : List Q) (x : Q) : (upstream rs x).length = rs.length + 1 := by
  induction rs with
  | nil => simp [upstream]
  | cons r rs ih =>
    simp only [upstream]
    split
    · rename_i h; exact absurd h (upstream_ne_nil rs x)
    · rename_i v vs h; rw [h] at ih; simp at ih ⊢; omega

/-- driving-torque law along the chain: `d_{i+1} = d_i · η_{i+1} · r_{i+1}` -/
def DriveOK : List Link → List Q → Prop
  | [], [_] => True
  | l :: ls, a :: b :: vs => b = a * l.eff * l.ratio ∧ DriveOK ls (b :: vs)
  | _, _ => False

theorem driveDown_ok (ls : List Link) (d : Q) : DriveOK ls (driveDown ls d) ∧ (driveDown ls d).head? = some d := by
  induction ls generalizing d with
  | nil => simp [driveDown, DriveOK]
  | cons l ls ih =>
    have h := ih (d * l.eff * l.ratio)
    simp only [driveDown]
    cases hd : driveDown ls (d * l.eff * l.ratio) with
    | nil => rw [hd] at h; simp at h
    | cons b vs =>
      rw [hd] at h
      simp only [List.head?_cons, Option.some.injEq] at h
      refine ⟨⟨h.2, h.1⟩, by simp⟩

/-- load-torque law along the chain: `l_i = l_{i+1} / η_{i+1} / r_{i+1}` -/
def LoadOK : List Link → List Q → Prop
  | [], [_] => True
  | l :: ls, a :: b :: vs => a = b / l.eff / l.ratio ∧ LoadOK ls (b :: vs)
  | _, _ => False

theorem loadUp_ne_nil (ls : List Link) (x : Q) : loadUp ls x ≠ [] := by
  cases ls with
  | nil => simp [loadUp]
  | cons r rs => simp only [loadUp]; split <;> simp

theorem loadUp_ok (ls : List Link) (x : Q) : LoadOK ls (loadUp ls x) ∧ (loadUp ls x).getLast? = some x := by
  induction ls with
  | nil => simp [loadUp, LoadOK]
  | cons l ls ih =>
    simp only [loadUp]
    split
    · rename_i h; exact absurd h (loadUp_ne_nil ls x)
    · rename_i v vs h
      rw [h] at ih
      refine ⟨⟨rfl, ih.1⟩, ?_⟩
      rw [List.getLast?_cons_cons]; exact ih.2

theorem upstream_getLast (rs : List Q) (x : Q) : (upstream rs x).getLast? = some x := by
  induction rs with
  | nil => simp [upstream]
  | cons l ls ih =>
    simp only [upstream]
    split
    · rename_i h; exact absurd h (upstream_ne_nil ls x)
    · rename_i v vs h
      rw [h] at ih; rw [List.getLast?_cons_cons]; exact ih

/-- what C01 + C02 + C03 (acceleration) say about one record -/
structure RecOK (c : Cfg) (r : Rec) : Prop where
  pos : Coupled (c.links.map (·.ratio)) r.pos
  speed : Coupled (c.links.map (·.ratio)) r.speed
  acc : Coupled (c.links.map (·.ratio)) r.acc
  drive : DriveOK c.links r.dtorque
  drive0 : r.dtorque.head? = some (c.motorTorque (r.speed.headD 0) r.pwm)
  load : LoadOK c.links r.ltorque
  loadLast : r.ltorque.getLast? = some (c.load (lastD r.pos) (lastD r.speed) r.time)
  net : r.torque = List.zipWith (· - ·) r.dtorque r.ltorque
  eom : r.locked = false → lastD r.acc = lastD r.torque / inertia c
  lockedSL : r.locked = true → c.sl = true
  lockedStill : r.locked = true → r.speed = zeros (c.links.length + 1) ∧ r.acc = zeros (c.links.length + 1)
  cur : r.current = c.motorCurrent r.pwm (r.dtorque.headD 0)
  forces : gearForces c.gears r.dtorque r.ltorque = .ok r.force
  stresses : gearStresses c.gears r.force = .ok (r.bending, r.contactSq)

theorem lastD_of_getLast? {l : List Q} {x : Q} (h : l.getLast? = some x) : lastD l = x := by
  unfold lastD; rw [List.getLastD_eq_getLast?, h]; rfl

theorem lastD_zeros (n : Nat) : lastD (zeros (n+1)) = 0 := by
  unfold lastD zeros; simp [List.getLastD_eq_getLast?, List.getLast?_replicate]

theorem checkLock_sl {sl locked pwm speed torque tolW tolT} (hinv : locked = true → sl = true)
    (h : checkLock sl locked pwm speed torque tolW tolT = true) : sl = true := by
  unfold checkLock at h
  split at h
  · rename_i hc; simp at hc; exact hc.1
  · split at h
    · split at h
      · simp at h
      · exact hinv h
    · exact hinv h

/-- the record appended by one `compute`, and how the live state relates to it -/
theorem compute_recOK (c : Cfg) (s s' : St) (t : Q) (hinv : s.locked = true → c.sl = true)
    (h : compute c s t = .ok s') :
    ∃ r, s'.recs = s.recs ++ [r] ∧ RecOK c r ∧ r.time = t ∧ s'.locked = r.locked
      ∧ s'.pos = lastD r.pos ∧ s'.speed = lastD r.speed ∧ s'.acc = lastD r.acc ∧ s'.pwm = r.pwm
      ∧ s'.pos = s.pos ∧ s'.mtorque = some (r.torque.headD 0) := by
  unfold compute at h
  simp only at h
  split at h
  · simp at h
  · rename_i pwm hp
    split at h
    · simp at h
    · rename_i force hforce
      split at h
      · simp at h
      · rename_i bending contactSq hstress
        simp only [Except.ok.injEq] at h
        subst h
        refine ⟨_, rfl, ?_, rfl, rfl, ?_, ?_, ?_, rfl, rfl, rfl⟩
        · constructor
          · exact upstream_coupled _ _
          · dsimp only; split
            · simpa using zeros_coupled (c.links.map (·.ratio))
            · exact upstream_coupled _ _
          · dsimp only; split
            · simpa using zeros_coupled (c.links.map (·.ratio))
            · exact upstream_coupled _ _
          · exact (driveDown_ok _ _).1
          · exact (driveDown_ok _ _).2
          · exact (loadUp_ok _ _).1
          · dsimp only
            rw [(loadUp_ok _ _).2, lastD_of_getLast? (upstream_getLast _ _)]
            congr 2
            split
            · rw [lastD_zeros]
            · rw [lastD_of_getLast? (upstream_getLast _ _)]
          · rfl
          · intro hl
            dsimp only at hl ⊢
            simp only [hl]
            simp [lastD_of_getLast? (upstream_getLast _ _)]
          · intro hl; exact checkLock_sl hinv hl
          · intro hl
            dsimp only at hl ⊢
            simp only [hl, if_true, and_self]
          · rfl
          · exact hforce
          · exact hstress
        · dsimp only; rw [lastD_of_getLast? (upstream_getLast _ _)]
        · dsimp only; split
          · rw [lastD_zeros]
          · rw [lastD_of_getLast? (upstream_getLast _ _)]
        · dsimp only; split
          · rw [lastD_zeros]
          · rw [lastD_of_getLast? (upstream_getLast _ _)]

/-- the invariant carried along every history -/
def StInv (c : Cfg) (s : St) : Prop := (∀ r ∈ s.recs, RecOK c r) ∧ (s.locked = true → c.sl = true)

theorem integrate_inv (c : Cfg) (s : St) (dt : Q) (h : StInv c s) : StInv c (integrate s dt) := by
  unfold integrate StInv at *; simpa using h

theorem compute_inv (c : Cfg) (s s' : St) (t : Q) (h : StInv c s) (hc : compute c s t = .ok s') : StInv c s' := by
  obtain ⟨r, hr, hok, _, hl, _⟩ := compute_recOK c s s' t h.2 hc
  constructor
  · intro r' hr'
    rw [hr] at hr'
    rcases List.mem_append.mp hr' with h1 | h1
    · exact h.1 r' h1
    · simp at h1; subst h1; exact hok
  · intro hl'; rw [hl] at hl'; exact hok.lockedSL hl'

theorem loop_inv (c : Cfg) (dt : Q) (stop) (ts : List Q) (s s' : St) (h : StInv c s)
    (hl : loop c dt stop ts s = .ok s') : StInv c s' := by
  induction ts generalizing s with
  | nil => simp [loop] at hl; subst hl; exact h
  | cons t ts ih =>
    simp only [loop] at hl
    split at hl
    · simp at hl
    · rename_i s1 h1
      have i1 : StInv c s1 := compute_inv c _ _ t (integrate_inv c s dt h) h1
      split at hl
      · simp only [Except.ok.injEq] at hl; subst hl; exact i1
      · exact ih s1 i1 hl

theorem run_inv (c : Cfg) (dt : Q) (n : Nat) (stop) (s s' : St) (h : StInv c s)
    (hr : run c dt n stop s = .ok s') : StInv c s' := by
  unfold run at hr
  split at hr
  · exact loop_inv c dt stop _ s s' h hr
  · split at hr
    · simp at hr
    · rename_i s0 h0
      exact loop_inv c dt stop _ s0 s' (compute_inv c { s with locked := false } s0 0 ⟨h.1, by intro hh; simp at hh⟩ h0) hr

theorem applyOp_inv (c : Cfg) (s s' : St) (o : Op) (h : StInv c s) (ha : applyOp c s o = .ok s') : StInv c s' := by
  cases o with
  | run dt n stop => exact run_inv c dt n stop s s' h ha
  | reset =>
    simp only [applyOp, reset] at ha
    split at ha
    · simp at ha
    · simp only [Except.ok.injEq] at ha; subst ha; exact ⟨by simp, h.2⟩
  | setInitial p v => simp [applyOp] at ha; subst ha; exact ⟨h.1, h.2⟩
  | setPwm p =>
    simp only [applyOp] at ha
    split at ha
    · simp only [Except.ok.injEq] at ha; subst ha; exact ⟨h.1, h.2⟩
    · simp at ha
  | newSolver => simp [applyOp] at ha; subst ha; exact ⟨h.1, by simp⟩

theorem exec_inv (c : Cfg) (ops : List Op) (s s' : St) (h : StInv c s) (he : exec c ops s = .ok s') : StInv c s' := by
  induction ops generalizing s with
  | nil => simp [exec] at he; subst he; exact h
  | cons o os ih =>
    simp only [exec] at he
    split at he
    · simp at he
    · rename_i s1 h1
      exact ih s1 (applyOp_inv c s s1 o h h1) he

theorem init_inv (c : Cfg) (p v : Q) : StInv c (St.init p v) := by
  unfold St.init StInv; simp

/-- every record of every history satisfies the record law -/
theorem all_records_ok (c : Cfg) (ops : List Op) (s s' : St) (h : StInv c s)
    (he : exec c ops s = .ok s') : ∀ r ∈ s'.recs, RecOK c r :=
  (exec_inv c ops s s' h he).1

/-! ### grid / loop composition (C11, C12) -/

theorem grid_append (t0 dt : Q) (m n : Nat) :
    grid t0 dt (m + n) = grid t0 dt m ++ grid (t0 + (m : Q) * dt) dt n := by
  unfold grid
  rw [List.range_add, List.map_append, List.map_map]
  congr 1
  apply List.map_congr_left
  intro i _
  simp only [Function.comp]
  push_cast
  ring

theorem grid_length (t0 dt : Q) (n : Nat) : (grid t0 dt n).length = n := by simp [grid]

theorem grid_getLast (t0 dt : Q) (n : Nat) : (grid t0 dt (n+1)).getLast? = some (t0 + ((n+1 : Nat) : Q) * dt) := by
  unfold grid; rw [List.range_succ]; simp

theorem loop_append (c : Cfg) (dt : Q) (ts us : List Q) (s : St) :
    loop c dt none (ts ++ us) s =
      match loop c dt none ts s with
      | .error e => .error e
      | .ok s' => loop c dt none us s' := by
  induction ts generalizing s with
  | nil => simp [loop]
  | cons t ts ih =>
    simp only [List.cons_append, loop]
    cases h : stepAt c dt s t with
    | error e => simp
    | ok s1 => simp only [stopNow]; simpa using ih s1

theorem compute_rec (c : Cfg) (s s' : St) (t : Q) (h : compute c s t = .ok s') :
    ∃ r, s'.recs = s.recs ++ [r] ∧ r.time = t := by
  unfold compute at h
  simp only at h
  split at h
  · simp at h
  · split at h
    · simp at h
    · split at h
      · simp at h
      · simp only [Except.ok.injEq] at h; subst h; exact ⟨_, rfl, rfl⟩

theorem stepAt_recs (c : Cfg) (dt : Q) (s s' : St) (t : Q) (h : stepAt c dt s t = .ok s') :
    ∃ r, s'.recs = s.recs ++ [r] ∧ r.time = t := by
  unfold stepAt at h
  obtain ⟨r, hr, ht⟩ := compute_rec c _ s' t h
  exact ⟨r, by simpa [integrate] using hr, ht⟩

/-- after a loop over a non-empty grid without stop, the last time is the last grid point -/
theorem loop_lastTime (c : Cfg) (dt : Q) (ts : List Q) (s s' : St) (hne : ts ≠ [])
    (h : loop c dt none ts s = .ok s') : lastTime s' = ts.getLast? := by
  induction ts generalizing s with
  | nil => exact absurd rfl hne
  | cons t ts ih =>
    simp only [loop] at h
    split at h
    · simp at h
    · rename_i s1 h1
      simp only [stopNow] at h
      cases ts with
      | nil =>
        simp [loop] at h; subst h
        obtain ⟨r, hr, ht⟩ := stepAt_recs c dt s s1 t h1
        simp [lastTime, hr, ht]
      | cons u us =>
        have := ih s1 (by simp) (by simpa using h)
        rw [this]; simp [List.getLast?_cons_cons]

/-- the time axis recorded by a loop without stop is the old axis followed by the grid -/
theorem loop_times (c : Cfg) (dt : Q) (ts : List Q) (s s' : St)
    (h : loop c dt none ts s = .ok s') : s'.recs.map (·.time) = s.recs.map (·.time) ++ ts := by
  induction ts generalizing s with
  | nil => simp [loop] at h; subst h; simp
  | cons t ts ih =>
    simp only [loop] at h
    split at h
    · simp at h
    · rename_i s1 h1
      simp only [stopNow] at h
      obtain ⟨r, hr, ht⟩ := stepAt_recs c dt s s1 t h1
      rw [ih s1 (by simpa using h), hr]; simp [ht]

/-! ### consecutive records of a run -/

/-- `R` holds between every two consecutive entries -/
def Pairs (R : Rec → Rec → Prop) : List Rec → Prop
  | a :: b :: rest => R a b ∧ Pairs R (b :: rest)
  | _ => True

/-- the live attributes are those of the last record (true after every `compute`; broken only by the
    user changing attributes between runs) -/
def Live (s : St) : Prop :=
  ∀ a, s.recs.getLast? = some a →
    s.pwm = a.pwm ∧ s.locked = a.locked ∧ s.pos = lastD a.pos ∧ s.speed = lastD a.speed ∧
    s.acc = lastD a.acc ∧ s.mtorque = some (a.torque.headD 0)

def Inv2 (c : Cfg) (s : St) : Prop := StInv c s ∧ Live s

theorem live_of_nil (s : St) (h : s.recs = []) : Live s := by
  intro a ha; rw [h] at ha; simp at ha

theorem compute_live (c : Cfg) (s s' : St) (t : Q) (hinv : s.locked = true → c.sl = true)
    (h : compute c s t = .ok s') : Live s' := by
  obtain ⟨r, hr, _, _, hl, hp, hv, ha, hpwm, _, hm⟩ := compute_recOK c s s' t hinv h
  intro a hla
  rw [hr] at hla; simp at hla; subst hla
  exact ⟨hpwm, hl, hp, hv, ha, hm⟩

theorem compute_inv2 (c : Cfg) (s s' : St) (t : Q) (h : StInv c s) (hc : compute c s t = .ok s') : Inv2 c s' :=
  ⟨compute_inv c s s' t h hc, compute_live c s s' t h.2 hc⟩

/-- a relation established by every step between the last record and the new one holds pairwise
    along the loop -/
theorem loop_pairs (c : Cfg) (dt : Q) (stop) (R : Rec → Rec → Prop)
    (hstep : ∀ (s s' : St) (t : Q) (a b : Rec), Inv2 c s → stepAt c dt s t = .ok s' →
      s'.recs = s.recs ++ [b] → s.recs.getLast? = some a → R a b)
    (ts : List Q) (s s' : St) (hinv : Inv2 c s) (h : loop c dt stop ts s = .ok s') :
    ∃ new, s'.recs = s.recs ++ new ∧ Pairs R (s.recs.getLast?.toList ++ new) ∧ Inv2 c s' := by
  induction ts generalizing s with
  | nil =>
    simp [loop] at h; subst h
    refine ⟨[], by simp, ?_, hinv⟩
    cases s.recs.getLast? <;> simp [Pairs]
  | cons t ts ih =>
    simp only [loop] at h
    cases h1 : stepAt c dt s t with
    | error e => simp [h1] at h
    | ok s1 =>
      simp only [h1] at h
      obtain ⟨b, hb, _⟩ := stepAt_recs c dt s s1 t h1
      have hinv1 : Inv2 c s1 := compute_inv2 c _ _ t (integrate_inv c s dt hinv.1) h1
      have hrel : ∀ a, s.recs.getLast? = some a → R a b := fun a ha => hstep s s1 t a b hinv h1 hb ha
      have hlast1 : s1.recs.getLast? = some b := by rw [hb]; simp
      split at h
      · simp only [Except.ok.injEq] at h; subst h
        refine ⟨[b], hb, ?_, hinv1⟩
        cases hl : s.recs.getLast? with
        | none => simp [Pairs]
        | some a => simp [Pairs]; exact hrel a hl
      · obtain ⟨new, hn, hs, hi'⟩ := ih s1 hinv1 h
        refine ⟨b :: new, by rw [hn, hb]; simp, ?_, hi'⟩
        rw [hlast1] at hs
        cases hl : s.recs.getLast? with
        | none => simpa using hs
        | some a =>
          simp only [Option.toList_some, List.singleton_append] at hs ⊢
          cases new with
          | nil => simp [Pairs]; exact hrel a hl
          | cons n ns => exact ⟨hrel a hl, hs⟩

/-- the same for a run: continued (pairs include the last old record) or fresh (the first record
    comes from the initial `compute`) -/
theorem run_pairs (c : Cfg) (dt : Q) (n : Nat) (stop) (R : Rec → Rec → Prop)
    (hstep : ∀ (s s' : St) (t : Q) (a b : Rec), Inv2 c s → stepAt c dt s t = .ok s' →
      s'.recs = s.recs ++ [b] → s.recs.getLast? = some a → R a b)
    (s s' : St) (hinv : Inv2 c s) (h : run c dt n stop s = .ok s') :
    ∃ new, s'.recs = s.recs ++ new ∧ Pairs R (s.recs.getLast?.toList ++ new) ∧ Inv2 c s' := by
  unfold run at h
  cases hl : lastTime s with
  | some t0 =>
    simp only [hl] at h
    exact loop_pairs c dt stop R hstep _ s s' hinv h
  | none =>
    simp only [hl] at h
    have hnil : s.recs = [] := by
      unfold lastTime at hl
      cases hr : s.recs.getLast? with
      | none => simpa using hr
      | some a => rw [hr] at hl; simp at hl
    cases h0 : compute c { s with locked := false } 0 with
    | error e => simp [h0] at h
    | ok s0 =>
      simp only [h0] at h
      have hinv0 : Inv2 c s0 := compute_inv2 c { s with locked := false } s0 0 ⟨hinv.1.1, by intro hh; simp at hh⟩ h0
      obtain ⟨r, hr, _⟩ := compute_rec c { s with locked := false } s0 0 h0
      obtain ⟨new, hn, hs, hi'⟩ := loop_pairs c dt stop R hstep _ s0 s' hinv0 h
      refine ⟨r :: new, by rw [hn, hr]; simp, ?_, hi'⟩
      rw [hr] at hs
      simp only [hnil, List.nil_append, List.getLast?_singleton, Option.toList_some, List.singleton_append,
        List.getLast?_nil, Option.toList_none] at hs ⊢
      simpa using hs

theorem reset_inv2 (c : Cfg) (s s' : St) (h : StInv c s) (hr : reset s = .ok s') : Inv2 c s' := by
  refine ⟨applyOp_inv c s s' .reset h (by simpa [applyOp] using hr), live_of_nil s' ?_⟩
  unfold reset at hr
  split at hr
  · simp at hr
  · simp only [Except.ok.injEq] at hr; subst hr; rfl

theorem init_inv2 (c : Cfg) (p v : Q) : Inv2 c (St.init p v) := ⟨init_inv c p v, live_of_nil _ rfl⟩



theorem pairs_append (R : Rec → Rec → Prop) : ∀ (l new : List Rec),
    Pairs R l → Pairs R (l.getLast?.toList ++ new) → Pairs R (l ++ new)
  | [], new, _, h => by simpa using h
  | [a], new, _, h => by simpa using h
  | a :: b :: rest, new, h1, h2 => by
    have : (a :: b :: rest).getLast? = (b :: rest).getLast? := by simp [List.getLast?_cons_cons]
    rw [this] at h2
    exact ⟨h1.1, pairs_append R (b :: rest) new h1.2 h2⟩

/-- a schedule made of runs (fresh or continued, with any stop condition) and resets -/
def RunsAndResets : List Op → Prop
  | [] => True
  | .run _ _ _ :: os => RunsAndResets os
  | .reset :: os => RunsAndResets os
  | _ :: _ => False

/-- along a schedule of runs with one time step and resets, a relation established by every step
    holds between all consecutive records of the final history -/
theorem exec_pairs (c : Cfg) (R : Rec → Rec → Prop)
    (hstep : ∀ (dt : Q) (s s' : St) (t : Q) (a b : Rec), Inv2 c s → stepAt c dt s t = .ok s' →
      s'.recs = s.recs ++ [b] → s.recs.getLast? = some a → R a b)
    (ops : List Op) (hops : RunsAndResets ops) (s s' : St) (hinv : Inv2 c s) (hp : Pairs R s.recs)
    (h : exec c ops s = .ok s') : Pairs R s'.recs ∧ Inv2 c s' := by
  induction ops generalizing s with
  | nil => simp [exec] at h; subst h; exact ⟨hp, hinv⟩
  | cons o os ih =>
    simp only [exec] at h
    cases h1 : applyOp c s o with
    | error e => simp [h1] at h
    | ok s1 =>
      simp only [h1] at h
      cases o with
      | run dt n stop =>
        obtain ⟨new, hn, hps, hi⟩ := run_pairs c dt n stop R (hstep dt) s s1 hinv (by simpa [applyOp] using h1)
        exact ih hops s1 hi (by rw [hn]; exact pairs_append R _ _ hp hps) h
      | reset =>
        have hi := reset_inv2 c s s1 hinv.1 (by simpa [applyOp] using h1)
        have hnil : s1.recs = [] := by
          simp only [applyOp, reset] at h1
          split at h1
          · simp at h1
          · simp only [Except.ok.injEq] at h1; subst h1; rfl
        exact ih hops s1 hi (by rw [hnil]; trivial) h
      | setInitial p v => exact absurd hops (by simp [RunsAndResets])
      | setPwm p => exact absurd hops (by simp [RunsAndResets])
      | newSolver => exact absurd hops (by simp [RunsAndResets])


/-! ### schedules whose configuration changes between segments

The controller is a parameter of every `Solver.run`, the user may replace the load function or
re-declare a relation between two runs; the element tuple and the self-locking flag are fixed
when the powertrain is assembled.  `execSeg` runs a list of (configuration, operations) segments on
one powertrain; every surviving record obeys the record law of the configuration of one of the
segments (the one in force when it was recorded). -/

def FrameInv (P : Rec → Prop) (sl : Bool) (s : St) : Prop :=
  (∀ r ∈ s.recs, P r) ∧ (s.locked = true → sl = true)

theorem compute_frame (P : Rec → Prop) (c : Cfg) (hP : ∀ r, RecOK c r → P r) (s s' : St) (t : Q)
    (h : FrameInv P c.sl s) (hc : compute c s t = .ok s') : FrameInv P c.sl s' := by
  obtain ⟨r, hr, hok, _, hl, _⟩ := compute_recOK c s s' t h.2 hc
  constructor
  · intro r' hr'
    rw [hr] at hr'
    rcases List.mem_append.mp hr' with h1 | h1
    · exact h.1 r' h1
    · simp at h1; subst h1; exact hP _ hok
  · intro hl'; rw [hl] at hl'; exact hok.lockedSL hl'

theorem loop_frame (P : Rec → Prop) (c : Cfg) (hP : ∀ r, RecOK c r → P r) (dt : Q) (stop) (ts : List Q) (s s' : St)
    (h : FrameInv P c.sl s) (hl : loop c dt stop ts s = .ok s') : FrameInv P c.sl s' := by
  induction ts generalizing s with
  | nil => simp [loop] at hl; subst hl; exact h
  | cons t ts ih =>
    simp only [loop] at hl
    split at hl
    · simp at hl
    · rename_i s1 h1
      have i1 : FrameInv P c.sl s1 := compute_frame P c hP _ _ t (by simpa [FrameInv, integrate] using h) h1
      split at hl
      · simp only [Except.ok.injEq] at hl; subst hl; exact i1
      · exact ih s1 i1 hl

theorem applyOp_frame (P : Rec → Prop) (c : Cfg) (hP : ∀ r, RecOK c r → P r) (s s' : St) (o : Op)
    (h : FrameInv P c.sl s) (ha : applyOp c s o = .ok s') : FrameInv P c.sl s' := by
  cases o with
  | run dt n stop =>
    simp only [applyOp] at ha
    unfold run at ha
    split at ha
    · exact loop_frame P c hP dt stop _ s s' h ha
    · split at ha
      · simp at ha
      · rename_i s0 h0
        exact loop_frame P c hP dt stop _ s0 s'
          (compute_frame P c hP { s with locked := false } s0 0 ⟨h.1, by intro hh; simp at hh⟩ h0) ha
  | reset =>
    simp only [applyOp, reset] at ha
    split at ha
    · simp at ha
    · simp only [Except.ok.injEq] at ha; subst ha; exact ⟨by simp, h.2⟩
  | setInitial p v => simp [applyOp] at ha; subst ha; exact ⟨h.1, h.2⟩
  | setPwm p =>
    simp only [applyOp] at ha
    split at ha
    · simp only [Except.ok.injEq] at ha; subst ha; exact ⟨h.1, h.2⟩
    · simp at ha
  | newSolver => simp [applyOp] at ha; subst ha; exact ⟨h.1, by simp⟩

theorem exec_frame (P : Rec → Prop) (c : Cfg) (hP : ∀ r, RecOK c r → P r) (ops : List Op) (s s' : St)
    (h : FrameInv P c.sl s) (he : exec c ops s = .ok s') : FrameInv P c.sl s' := by
  induction ops generalizing s with
  | nil => simp [exec] at he; subst he; exact h
  | cons o os ih =>
    simp only [exec] at he
    split at he
    · simp at he
    · rename_i s1 h1
      exact ih s1 (applyOp_frame P c hP s s1 o h h1) he

/-- segments of operations, each under its own configuration -/
def execSeg : List (Cfg × List Op) → St → Except Err St
  | [], s => .ok s
  | (c, ops) :: rest, s =>
    match exec c ops s with
    | .error e => .error e
    | .ok s' => execSeg rest s'

/-- every record that survives a segmented schedule obeys the record law of one of the segments'
    configurations, provided all of them carry the powertrain's (fixed) self-locking flag -/
theorem execSeg_records (sl : Bool) (all : List Cfg) :
    ∀ (segs : List (Cfg × List Op)) (s s' : St),
      (∀ seg ∈ segs, seg.1 ∈ all ∧ seg.1.sl = sl) →
      FrameInv (fun r => ∃ c ∈ all, RecOK c r) sl s →
      execSeg segs s = .ok s' →
      FrameInv (fun r => ∃ c ∈ all, RecOK c r) sl s'
  | [], s, s', _, h, he => by simp [execSeg] at he; subst he; exact h
  | (c, ops) :: rest, s, s', hall, h, he => by
    simp only [execSeg] at he
    split at he
    · simp at he
    · rename_i s1 h1
      obtain ⟨hmem, hsl⟩ := hall (c, ops) (by simp)
      have h' : FrameInv (fun r => ∃ c ∈ all, RecOK c r) c.sl s := by rw [hsl]; exact h
      have := exec_frame (fun r => ∃ c ∈ all, RecOK c r) c (fun r hr => ⟨c, hmem, hr⟩) ops s s1 h' h1
      rw [hsl] at this
      exact execSeg_records sl all rest s1 s' (fun seg hs => hall seg (by simp [hs])) this he

/-- the kinematic part of the record law does not depend on controller, load function or motor law:
    configurations that share the ratio list give the same coupling statement -/
theorem recOK_coupled_of_links (c c' : Cfg) (h : c.links.map (·.ratio) = c'.links.map (·.ratio)) (r : Rec)
    (hr : RecOK c r) : Coupled (c'.links.map (·.ratio)) r.pos ∧ Coupled (c'.links.map (·.ratio)) r.speed ∧
      Coupled (c'.links.map (·.ratio)) r.acc := by
  rw [← h]; exact ⟨hr.pos, hr.speed, hr.acc⟩

end Gearpy
