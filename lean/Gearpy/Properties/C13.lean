import Gearpy.Proofs.Solver
/-!
# C13 — a self-locking powertrain is never driven by its load

"Duty cycle in force" at an instant is the motor's duty-cycle attribute when that instant's lock
check runs, i.e. the value recorded at the previous instant (or set before the run): the lock
check precedes the instant's control.

* `never_clamped`: without a self-locking mating no record of any history is held;
* `sign_safe`: with one, whatever the load, the recorded motor speed is `0` if the duty in force
  is `0`, `≥ −tolW` if it is positive, `≤ tolW` if it is negative (`tolW` is the tolerance of the
  code's `speed < 0 rad/s`, zero when speeds are carried in rad/s);
* `held_still`: two consecutive held instants have all speeds and accelerations zero and equal
  positions;
* `release_only_if`: a held powertrain is released only when the motor's (previously recorded)
  net torque points in the direction commanded by the duty in force.
The criterion `f > cos α · tan β` for the flag itself is C10's theorem.
-/

namespace Gearpy.C13
open Gearpy

/-- C13: a powertrain without self-locking mating is never clamped -/
theorem never_clamped (c : Cfg) (hsl : c.sl = false) (ops : List Op) (p v : Q) (s' : St)
    (he : exec c ops (St.init p v) = .ok s') : ∀ r ∈ s'.recs, r.locked = false := by
  intro r hr
  have := (all_records_ok c ops _ s' (init_inv c p v) he r hr).lockedSL
  cases hlk : r.locked with
  | false => rfl
  | true => rw [this hlk] at hsl; simp at hsl

/-- C13: sign safety of the recorded motor speed w.r.t. the duty cycle in force -/
theorem sign_safe (c : Cfg) (s s' : St) (t : Q) (hsl : c.sl = true) (htol : 0 ≤ c.tolW)
    (h : compute c s t = .ok s') :
    ∃ r, s'.recs = s.recs ++ [r] ∧
      (s.pwm = 0 → r.speed.headD 0 = 0) ∧
      (0 < s.pwm → -c.tolW ≤ r.speed.headD 0) ∧
      (s.pwm < 0 → r.speed.headD 0 ≤ c.tolW) := by
  unfold compute at h; simp only at h
  split at h
  · simp at h
  · skip
    split at h
    · simp at h
    · split at h
      · simp at h
      · simp only [Except.ok.injEq] at h; subst h
        refine ⟨_, rfl, ?_, ?_, ?_⟩
        all_goals
          intro hp
          dsimp only
          split
          · simp [zeros, List.replicate_succ]; try linarith
          · rename_i hnl
            simp only [checkLock, hsl, Bool.true_and] at hnl
            split at hnl
            · simp at hnl
            · rename_i hcond
              simp only [Bool.or_eq_true, Bool.and_eq_true, decide_eq_true_eq, beq_iff_eq, not_or, not_and, not_lt] at hcond
              first
                | (exact absurd hp hcond.1.1)
                | (exact hcond.1.2 hp)
                | (exact hcond.2 hp)

/-- the duty in force at a step of a run is the duty recorded at the previous instant -/
theorem duty_in_force (c : Cfg) (s s' : St) (t : Q) (hinv : s.locked = true → c.sl = true)
    (h : compute c s t = .ok s') : ∃ r, s'.recs = s.recs ++ [r] ∧ s'.pwm = r.pwm := by
  obtain ⟨r, hr, _, _, _, _, _, _, hpwm, _⟩ := compute_recOK c s s' t hinv h
  exact ⟨r, hr, hpwm⟩

/-- C13: while held, everything stands still: speeds and accelerations are zero and the position
    does not move between two consecutive held instants -/
theorem held_still (c : Cfg) (dt : Q) (s s' : St) (t : Q) (hinv : s.locked = true → c.sl = true)
    (hs0 : s.speed = 0) (ha0 : s.acc = 0) (h : stepAt c dt s t = .ok s') :
    ∃ b, s'.recs = s.recs ++ [b] ∧ lastD b.pos = s.pos ∧
      (b.locked = true → b.speed = zeros (c.links.length + 1) ∧ b.acc = zeros (c.links.length + 1)) := by
  unfold stepAt at h
  obtain ⟨r, hr, hok, _, _, hp, _, _, _, hpp, _⟩ :=
    compute_recOK c (integrate s dt) s' t (by simpa [integrate] using hinv) h
  refine ⟨r, by simpa [integrate] using hr, ?_, hok.lockedStill⟩
  rw [← hp, hpp]; simp [integrate, hs0, ha0]

/-- after a held instant the live speed and acceleration are zero (so `held_still` applies to the next step) -/
theorem held_state (c : Cfg) (s s' : St) (t : Q) (hinv : s.locked = true → c.sl = true)
    (h : compute c s t = .ok s') (hl : s'.locked = true) : s'.speed = 0 ∧ s'.acc = 0 := by
  obtain ⟨r, _, hok, _, hlk, _, hv, ha, _⟩ := compute_recOK c s s' t hinv h
  rw [hlk] at hl
  obtain ⟨h1, h2⟩ := hok.lockedStill hl
  rw [hv, ha, h1, h2]; exact ⟨lastD_zeros _, lastD_zeros _⟩

/-- C13: motion resumes only when the motor's net torque points in the commanded direction -/
theorem release_only_if (c : Cfg) (s s' : St) (t : Q) (hlocked : s.locked = true)
    (h : compute c s t = .ok s') (hrel : s'.locked = false) :
    ∃ T, s.mtorque = some T ∧ ((c.tolT < T ∧ 0 < s.pwm) ∨ (T < -c.tolT ∧ s.pwm < 0)) := by
  unfold compute at h; simp only at h
  split at h
  · simp at h
  · skip
    split at h
    · simp at h
    · split at h
      · simp at h
      · simp only [Except.ok.injEq] at h; subst h
        dsimp only at hrel
        unfold checkLock at hrel
        split at hrel
        · simp at hrel
        · split at hrel
          · rename_i T hT
            split at hrel
            · rename_i hc
              refine ⟨T, hT, ?_⟩
              simp only [Bool.or_eq_true, Bool.and_eq_true, decide_eq_true_eq] at hc
              exact hc
            · rw [hlocked] at hrel; simp at hrel
          · rw [hlocked] at hrel; simp at hrel

/-! ### non-vacuity: a self-locking chain overloaded backwards is held from the second instant on -/
def exCfg : Cfg :=
  { J0 := 1, links := [⟨30, 2/5, 1/2, true⟩], sl := true, tolW := 0, tolT := 0,
    motorTorque := fun w D => (1 - w / 100) * 2 * D, motorCurrent := fun _ _ => none,
    load := fun _ _ _ => 500, control := none }
example : (match exec exCfg [.run (1/4) 3 none] (St.init 0 0) with
    | .ok s => s.recs.map (·.locked) | .error _ => []) = [false, true, true, true] := by decide +kernel

end Gearpy.C13
