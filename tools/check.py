#!/venv/bin/python
"""Single entry point of every check:  check.py Cxx [--tier quick|thorough] [--replay FILE]

Pipeline (DESIGN.md 4.2): extract tables from the working tree -> lake build of the property's
theorems and of the driver -> axiom / source audit -> correspondence campaign + property oracle
-> evidence/Cxx.json -> exit code.

exit 0  property held on everything explored (KNOWN-FINDING lines may be printed)
exit 1  `VIOLATION property=<id> replay=<path>` printed
exit 2  the machinery itself failed (time-out, internal error)
"""
import argparse
import importlib
import json
import os
import subprocess
import sys
import time
import traceback
import warnings

warnings.filterwarnings('ignore')
HERE = os.path.dirname(os.path.abspath(__file__))
sys.path.insert(0, HERE)
import common  # noqa: E402
from common import Ctx, Lock, VERIF, LEAN  # noqa: E402

sys.path.insert(0, common.REPO)

# property -> (harness module, run function, replay function)
HARNESS = {
    'C05': ('harness.units_h', 'run_C05', 'replay_C05'),
    'C06': ('harness.units_h', 'run_C06', 'replay_C06'),
    'C19': ('harness.units_h', 'run_C19', 'replay_C19'),
    'C01': ('harness.sim_props', 'run_C01', 'replay_C01'),
    'C02': ('harness.sim_props', 'run_C02', 'replay_C02'),
    'C03': ('harness.sim_props', 'run_C03', 'replay_C03'),
    'C13': ('harness.sim_props', 'run_C13', 'replay_C13'),
    'C11': ('harness.sim_props', 'run_C11', 'replay_C11'),
    'C12': ('harness.sim_props', 'run_C12', 'replay_C12'),
    'C16': ('harness.sim_props', 'run_C16', 'replay_C16'),
    'C17': ('harness.sim_props', 'run_C17', 'replay_C17'),
    'C14': ('harness.ctl_h', 'run_C14', 'replay_C14'),
    'C08': ('harness.motor_h', 'run_C08', 'replay_C08'),
    'C09': ('harness.gears_h', 'run_C09', 'replay_C09'),
    'C10': ('harness.rel_h', 'run_C10', 'replay_C10'),
    'C20': ('harness.rel_h', 'run_C20', 'replay_C20'),
    'C18': ('harness.snap_h', 'run_C18', 'replay_C18'),
    'C07': ('harness.meta_h', 'run_C07', 'replay_C07'),
    'C04': ('harness.meta_h', 'run_C04', 'replay_C04'),
    'C15': ('harness.ctl_h', 'run_C15', 'replay_C15'),
}

TRUSTED_BASE = [
    'Lean 4.33 kernel; axioms propext, Classical.choice, Quot.sound only (checked per theorem on every run)',
    'Mathlib v4.33 as a library of kernel-checked lemmas',
    'tools/extract.py (what it reads from /repo, float -> exact rational)',
    'the correspondence harness (generators, canonicalisation, tolerance 1e-9) ties the hand-written model to the code',
    'IEEE rounding, math/numpy elementary functions, numpy/scipy/pandas internals are modelled by contract, not verified',
]


def emit_violation(pid, payload, suffix=''):
    path = common.write_replay(pid, payload)
    print(f'VIOLATION property={pid} replay={path}' + (f' {suffix}' if suffix else ''), flush=True)


def main():
    ap = argparse.ArgumentParser()
    ap.add_argument('pid')
    ap.add_argument('--tier', default=os.environ.get('VERIF_TIER', 'quick'), choices=['quick', 'thorough'])
    ap.add_argument('--replay')
    ap.add_argument('--no-build', action='store_true', help='skip extract/build (development only)')
    args = ap.parse_args()
    pid = args.pid
    seed = int(os.environ.get('VERIF_SEED', '0') or 0)
    t0 = time.time()
    if pid not in HARNESS:
        print(f'no check registered for {pid}')
        return 2
    modname, runname, replayname = HARNESS[pid]

    # ---- ties: regenerate tables, rebuild proofs and driver -------------------------------
    build_log = ''
    proofs_ok, driver_ok, extract_ok = True, True, True
    if not args.no_build:
        with Lock('lake'):
            extract_ok, elog = common.run_extract()
            build_log += elog
            driver_ok, dlog = common.lake_build(['driver'])
            build_log += dlog[-3000:] if not driver_ok else ''
            proofs_ok, plog = common.lake_build([f'Gearpy.Properties.{pid}'])
            build_log += plog[-6000:] if not proofs_ok else ''
    if not extract_ok:
        print('extraction from the repository failed:\n' + build_log[-2000:])
    scan = common.source_scan()
    aud = {'theorems': [], 'axioms': {}, 'ok': False, 'log': ''}
    if proofs_ok:
        aud = common.audit(pid)
    bad_axioms = {n: a for n, a in aud['axioms'].items() if a is None or not set(a) <= common.ALLOWED_AXIOMS}
    obligations = len(aud['theorems']) if aud['theorems'] else len(common.property_theorems(pid)[1])
    discharged = 0 if (not proofs_ok or scan) else sum(1 for n in aud['theorems'] if n not in bad_axioms)
    proof_side_ok = proofs_ok and not scan and not bad_axioms and obligations > 0

    leanchecker = None
    if args.tier == 'thorough' and proof_side_ok:
        p = subprocess.run(['lake', 'env', 'leanchecker', f'Gearpy.Properties.{pid}'], cwd=LEAN, capture_output=True, text=True)
        leanchecker = (p.returncode == 0)
        if not leanchecker:
            proof_side_ok = False
            build_log += '\nleanchecker: ' + (p.stdout + p.stderr)[-2000:]

    # ---- harness ----------------------------------------------------------------------------
    mod = importlib.import_module(modname)
    ctx = Ctx(pid, args.tier, seed)
    ctx.boost = 1
    ctx.rule = ''
    if not driver_ok:
        ctx.driver.available = False
    if args.replay:
        payload = json.load(open(args.replay))
        # a replay file either carries the failing input, or (no-failing-input-found) the first input on which model and
        # implementation disagree
        case = payload.get('case') or (payload.get('first_disagreement') or {}).get('case') or payload
        getattr(mod, replayname)(ctx, case)
    else:
        # corpus first: minimised past failures and one representative input per known finding
        cdir = os.path.join(VERIF, 'corpus', pid)
        if os.path.isdir(cdir):
            for fn in sorted(os.listdir(cdir)):
                if fn.endswith('.json'):
                    payload = json.load(open(os.path.join(cdir, fn)))
                    getattr(mod, replayname)(ctx, payload.get('case', payload))
                    ctx.count('corpus cases replayed')
        getattr(mod, runname)(ctx)

    broken = []
    if not proof_side_ok:
        if not proofs_ok:
            broken.append(f'lake build Gearpy.Properties.{pid} failed')
        if scan:
            broken.append('forbidden construct in Lean sources: ' + '; '.join(scan[:3]))
        if bad_axioms:
            broken.append('axioms outside the allowed set: ' + json.dumps(bad_axioms))
    if not driver_ok:
        broken.append('lake build driver failed (model does not compile)')
    if ctx.mismatches:
        broken.append(f'{len(ctx.mismatches)} model/implementation disagreements')

    # a broken proof or correspondence is not by itself a violation: search for a failing input
    if broken and not ctx.violations and not args.replay:
        ctx.boost = 6
        ctx.rng.seed(f'{pid}-{seed}-search')
        getattr(mod, runname)(ctx)

    # ---- evidence ---------------------------------------------------------------------------
    wall = time.time() - t0
    ev = {
        'property_id': pid, 'tier': args.tier, 'seed': seed, 'level': 'proof',
        'coverage': {
            'obligations': max(obligations, 1), 'discharged': max(discharged, 1) if proof_side_ok else discharged,
            'checker_cmd': f'cd lean && lake build Gearpy.Properties.{pid} && lake env lean <#print axioms of every theorem>'
                           + (' && lake env leanchecker' if args.tier == 'thorough' else ''),
            'trusted_base': TRUSTED_BASE,
            'theorems': aud['theorems'], 'axioms': aud['axioms'], 'leanchecker': leanchecker,
            'evaluations': ctx.evaluations, 'distinct_nontrivial': len(ctx.nontrivial),
            'rule': ctx.rule, 'samples': ctx.samples[:12],
            'traces_validated_against_impl': ctx.evaluations,
            'model_lines_compared': ctx.driver.lines,
            'distribution': ctx.dist,
            'model_impl_disagreements': len(ctx.mismatches),
            'known_findings_hit': {k: len(v) for k, v in ctx.known_hits.items()},
            'notes': ctx.notes,
        },
        'assumptions': TRUSTED_BASE,
        'wall_s': round(wall, 2),
        'violations': len(ctx.violations) + (1 if broken and not ctx.violations else 0),
    }
    if not proof_side_ok:
        ev['coverage']['discharged'] = discharged
    common.write_evidence(pid, ev)

    # ---- verdict ----------------------------------------------------------------------------
    known = {f['id']: f for f in ctx.known}
    for fid, cases in sorted(ctx.known_hits.items()):
        what = known.get(fid, {}).get('what', '')
        if fid in known:
            print(f'KNOWN-FINDING: property={pid} {fid} {what} ({len(cases)} cases this run, e.g. {json.dumps(cases[0], default=str)[:200]})')
        else:
            # a finding the committed file does not list is a violation
            ctx.violations.append((cases[0], {'why': f'matches pattern {fid} which known_findings.json does not list'}))
    if ctx.violations:
        case, detail = ctx.violations[0]
        emit_violation(pid, {'property': pid, 'kind': 'failing-input', 'case': case, 'detail': detail,
                             'n_violations': len(ctx.violations), 'broken': broken,
                             'replay_cmd': f'/venv/bin/python tools/check.py {pid} --replay <this file>'})
        print(f'  {len(ctx.violations)} violating cases; first: {json.dumps(case, default=str)[:300]}')
        print(f'  why: {json.dumps(detail, default=str)[:400]}')
        return 1
    if broken:
        first = None
        if ctx.mismatches:
            c, impl, model = ctx.mismatches[0]
            first = {'case': c, 'implementation': impl, 'model': model}
        emit_violation(pid, {'property': pid, 'kind': 'no-failing-input-found', 'broken': broken,
                             'first_disagreement': first, 'build_log_tail': build_log[-3000:],
                             'theorems': aud['theorems']}, suffix='no-failing-input-found')
        for b in broken:
            print('  ' + b)
        return 1
    print(f'{pid} {args.tier}: ok — {discharged}/{obligations} theorems, {ctx.evaluations} cases '
          f'({len(ctx.nontrivial)} distinct non-trivial), {ctx.driver.lines} model lines compared, {wall:.1f}s')
    return 0


if __name__ == '__main__':
    try:
        sys.exit(main())
    except subprocess.TimeoutExpired as ex:
        print(f'time-out: {ex}')
        sys.exit(2)
    except Exception:  # noqa: BLE001
        traceback.print_exc()
        sys.exit(2)
