#!/bin/bash
# usage: evalmut.sh <patch> <demo.py> [suite]   — confirm a seeded change independently:
#   demo passes on the clean tree, fails with the patch; with "suite" also runs the full pinned suite on the patched tree
patch=$1; demo=$2; suite=$3
wt=/tmp/ev/wt$$
mkdir -p /tmp/ev
git -C /repo worktree add -q $wt HEAD || exit 2
cd $wt
PYTHONPATH=$wt timeout 600 /venv/bin/python $demo >/tmp/ev/clean.out 2>&1; c=$?
if ! git apply $patch 2>/tmp/ev/apply.err; then echo "PATCH DOES NOT APPLY: $(head -2 /tmp/ev/apply.err)"; cd /; git -C /repo worktree remove --force $wt; exit 2; fi
PYTHONPATH=$wt timeout 600 /venv/bin/python $demo >/tmp/ev/patched.out 2>&1; p=$?
echo "demo: clean exit=$c patched exit=$p  ($(tail -1 /tmp/ev/patched.out | cut -c1-160))"
if [ "$suite" = "suite" ]; then
  timeout 3000 /venv/bin/python -m pytest -q -x -p no:cacheprovider -n 8 > /tmp/ev/suite.out 2>&1; s=$?
  echo "suite exit=$s: $(tail -1 /tmp/ev/suite.out | cut -c1-120)"
fi
cd /; git -C /repo worktree remove --force $wt
