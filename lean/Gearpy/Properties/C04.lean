import Gearpy.Proofs.Solver
import Gearpy.Model.Motor
import Gearpy.Properties.C03
import Gearpy.Properties.C12
import Mathlib.Analysis.SpecialFunctions.ExpDeriv
import Mathlib.Analysis.Complex.Exponential
import Mathlib.Algebra.Order.Ring.Abs
import Mathlib.Tactic.FieldSimp
import Mathlib.Tactic.Positivity
/-!
# C04 — trajectories converge to the closed-form solution as dt shrinks

Reduction (ℚ, on the model).  For a chain that is not held, a load `L` and a motor
characteristic that is affine in the motor speed, `T_m(ω_m) = a − b·ω_m` (every DC-motor law of
C08 at constant duty cycle is: `a = T_max(D)`, `b = T_max(D)/(D ω₀)`; in the dead zone `a = b = 0`):
* `coupled_head`, `drive_last`: the motor speed is `P·ω` and the last element's driving torque
  `G·T_m`, with `P = Π rᵢ`, `G = Π ηᵢ rᵢ`;
* `record_acc_affine`: the acceleration recorded at an instant is `(A − B ω)/J` with
  `A = a G − L`, `B = b P G`, `J` the equivalent inertia — the right-hand side of the linear ODE
  `J ω' = A − B ω`; it holds on every record of every history (`all_records_ok`);
* `affine_iter`: iterating the speed update `ω ↦ ω + dt (A − B ω)/J` gives
  `ω_m − ω_∞ = (1 − κ dt)^m (ω₀ − ω_∞)`, `κ = B/J`, `ω_∞ = A/B`.
Analysis (ℝ).  With `h = κ dt ∈ [0, 1]`:
* `euler_exp_err`: `|(1 − h)^m − e^{−m h}| ≤ m h²`;
* `speed_error_bound`: `|ω_m − ω(t_m)| ≤ |ω₀ − ω_∞| · (κ t_m) · (κ dt)` where
  `ω(t) = ω_∞ + (ω₀ − ω_∞) e^{−κ t}` is the closed-form solution and `t_m = m dt`:
  at every instant of a fixed horizon the error is bounded by a constant times `dt`.
* `pos_iter_closed`, `position_error_bound`: the position recursion of `_time_integration`
  (`θ_{k+1} = θ_k + ω_{k+1} dt`) in closed form, and `|θ_m − θ(t_m)| ≤ |ω₀ − ω_∞| · (κ t_m + 1) · dt`
  where `θ(t) = θ₀ + ω_∞ t + (ω₀ − ω_∞)(1 − e^{−κ t})/κ`;
* `exact_solves_ode`, `exactPos_deriv`, `exact_zero`, `exactPos_zero`: `ω(t)` is the solution of
  `ω' = κ(ω_∞ − ω)`, `ω(0) = ω₀`, and `θ(t)` is its antiderivative with `θ(0) = θ₀` — the closed forms
  the bounds refer to are the solution of the equation of motion, not just some curve.
End to end (model).  `run_follows_iter`: a fresh run of a chain that cannot self-lock, without
controller, affine motor law at the duty cycle in force, constant load, records on its last element
exactly `iter` / `posIter` at every instant (from `all_records_ok`, the step relation of C03 and the
constancy of the duty cycle); `C04_run` puts the three together.
Not proved: "the error roughly halves when dt is halved" is a statement about the leading error
term; it is **measured** by the harness (observed order within 0.8–1.2) and labelled as a test.
-/

namespace Gearpy.C04
open Gearpy

def prodR : List Q → Q := fun rs => rs.foldr (fun r p => r * p) 1
def gain : List Link → Q := fun ls => ls.foldr (fun l p => l.eff * l.ratio * p) 1

theorem lastD_cons_cons (a b : Q) (vs : List Q) : lastD (a :: b :: vs) = lastD (b :: vs) := by
  simp [lastD, List.getLastD_cons]

theorem coupled_head : ∀ (rs vs : List Q), Coupled rs vs → vs.headD 0 = prodR rs * lastD vs
  | [], [v], _ => by simp [prodR, lastD]
  | r :: rs, a :: b :: vs, h => by
    obtain ⟨h1, h2⟩ := h
    have := coupled_head rs (b :: vs) h2
    simp only [List.headD_cons] at this ⊢
    have e : prodR (r :: rs) = r * prodR rs := rfl
    rw [lastD_cons_cons, h1, e, mul_assoc, ← this]
  | [], [], h => by simp [Coupled] at h
  | [], _ :: _ :: _, h => by simp [Coupled] at h
  | _ :: _, [], h => by simp [Coupled] at h
  | _ :: _, [_], h => by simp [Coupled] at h

theorem drive_last : ∀ (ls : List Link) (ds : List Q), DriveOK ls ds → lastD ds = ds.headD 0 * gain ls
  | [], [d], _ => by simp [gain, lastD]
  | l :: ls, a :: b :: vs, h => by
    obtain ⟨h1, h2⟩ := h
    have := drive_last ls (b :: vs) h2
    simp only [List.headD_cons] at this ⊢
    have e : gain (l :: ls) = l.eff * l.ratio * gain ls := rfl
    rw [lastD_cons_cons, this, h1, e]; ring
  | [], [], h => by simp [DriveOK] at h
  | [], _ :: _ :: _, h => by simp [DriveOK] at h
  | _ :: _, [], h => by simp [DriveOK] at h
  | _ :: _, [_], h => by simp [DriveOK] at h

theorem drive_length : ∀ (ls : List Link) (ds : List Q), DriveOK ls ds → ds.length = ls.length + 1
  | [], [d], _ => rfl
  | l :: ls, a :: b :: vs, h => by have := drive_length ls (b :: vs) h.2; simp at this ⊢; omega
  | [], [], h => by simp [DriveOK] at h
  | [], _ :: _ :: _, h => by simp [DriveOK] at h
  | _ :: _, [], h => by simp [DriveOK] at h
  | _ :: _, [_], h => by simp [DriveOK] at h

theorem load_length : ∀ (ls : List Link) (xs : List Q), LoadOK ls xs → xs.length = ls.length + 1
  | [], [d], _ => rfl
  | l :: ls, a :: b :: vs, h => by have := load_length ls (b :: vs) h.2; simp at this ⊢; omega
  | [], [], h => by simp [LoadOK] at h
  | [], _ :: _ :: _, h => by simp [LoadOK] at h
  | _ :: _, [], h => by simp [LoadOK] at h
  | _ :: _, [_], h => by simp [LoadOK] at h

theorem lastD_zipWith_sub : ∀ (ds xs : List Q), ds.length = xs.length → ds ≠ [] →
    lastD (List.zipWith (· - ·) ds xs) = lastD ds - lastD xs
  | [d], [x], _, _ => by simp [lastD]
  | a :: b :: ds, x :: y :: xs, hl, _ => by
    have := lastD_zipWith_sub (b :: ds) (y :: xs) (by simpa using hl) (by simp)
    simp only [List.zipWith_cons_cons] at this ⊢
    rw [lastD_cons_cons, lastD_cons_cons, lastD_cons_cons, this]
  | [], _, _, h => absurd rfl h
  | [_], [], hl, _ => by simp at hl
  | [_], _ :: _ :: _, hl, _ => by simp at hl
  | _ :: _ :: _, [], hl, _ => by simp at hl
  | _ :: _ :: _, [_], hl, _ => by simp at hl

/-- the acceleration recorded at an instant, for a motor law affine in the motor speed -/
theorem record_acc_affine (c : Cfg) (r : Rec) (hok : RecOK c r) (hnl : r.locked = false) (a b L : Q)
    (hm : ∀ w, c.motorTorque w r.pwm = a - b * w)
    (hL : c.load (lastD r.pos) (lastD r.speed) r.time = L) :
    lastD r.acc = ((a * gain c.links - L) - (b * prodR (c.links.map (·.ratio)) * gain c.links) * lastD r.speed) / inertia c := by
  rw [hok.eom hnl, hok.net]
  have hdl := drive_length c.links r.dtorque hok.drive
  have hll := load_length c.links r.ltorque hok.load
  rw [lastD_zipWith_sub r.dtorque r.ltorque (by omega) (by intro h; rw [h] at hdl; simp at hdl)]
  rw [drive_last c.links r.dtorque hok.drive]
  have hd0 : r.dtorque.headD 0 = a - b * (r.speed.headD 0) := by
    have := hok.drive0
    cases hd : r.dtorque with
    | nil => rw [hd] at hdl; simp at hdl
    | cons d ds => rw [hd] at this; simp at this; simp [this, hm]
  rw [hd0, coupled_head _ _ hok.speed, lastD_of_getLast? hok.loadLast, hL]
  ring

/-- the discrete recursion `ω_{k+1} = ω_k + dt (A − B ω_k)/J` in closed form -/
def iter (A B J dt : Q) (w0 : Q) : Nat → Q
  | 0 => w0
  | k + 1 => iter A B J dt w0 k + dt * (A - B * iter A B J dt w0 k) / J

theorem affine_iter (A B J dt w0 : Q) (hB : B ≠ 0) (hJ : J ≠ 0) (m : Nat) :
    iter A B J dt w0 m - A / B = (1 - B / J * dt) ^ m * (w0 - A / B) := by
  induction m with
  | zero => simp [iter]
  | succ k ih =>
    simp only [iter, pow_succ]
    have : iter A B J dt w0 k = (1 - B / J * dt) ^ k * (w0 - A / B) + A / B := by linarith
    rw [this]; field_simp; ring

/-- dead zone / no speed dependence (`B = 0`): constant acceleration, the discrete speed is exact -/
theorem const_acc_iter (A J dt w0 : Q) (m : Nat) : iter A 0 J dt w0 m = w0 + (m : Q) * (dt * A / J) := by
  induction m with
  | zero => simp [iter]
  | succ k ih => simp only [iter]; rw [ih]; push_cast; ring

open Real in
theorem euler_exp_err (h : ℝ) (n : ℕ) (h0 : 0 ≤ h) (h1 : h ≤ 1) :
    |(1 - h)^n - Real.exp (-(n*h))| ≤ n * h^2 := by
  have e1 : Real.exp (-(n*h)) = (Real.exp (-h))^n := by
    rw [← Real.exp_nat_mul]; ring_nf
  rw [e1]
  have hb := abs_pow_sub_pow_le (a := 1 - h) (b := Real.exp (-h)) (n := n)
  have habs : |(-h)| ≤ 1 := by rw [abs_neg, abs_of_nonneg h0]; exact h1
  have hd := Real.abs_exp_sub_one_sub_id_le habs
  have hd' : |1 - h - Real.exp (-h)| ≤ h^2 := by
    have : 1 - h - Real.exp (-h) = -(Real.exp (-h) - 1 - (-h)) := by ring
    rw [this, abs_neg]; simpa using hd
  have hm : max |1 - h| |Real.exp (-h)| ≤ 1 := by
    apply max_le
    · rw [abs_le]; constructor <;> linarith
    · rw [abs_of_pos (Real.exp_pos _)]; exact Real.exp_le_one_iff.mpr (by linarith)
  have hp : max |1 - h| |Real.exp (-h)| ^ (n - 1) ≤ 1 :=
    pow_le_one₀ (le_max_of_le_left (abs_nonneg _)) hm
  calc |(1 - h)^n - (Real.exp (-h))^n|
      ≤ |1 - h - Real.exp (-h)| * n * max |1 - h| |Real.exp (-h)| ^ (n - 1) := hb
    _ ≤ h^2 * n * 1 := by gcongr
    _ = n * h^2 := by ring

/-- the closed-form solution of `J ω' = A − B ω`, `ω(0) = ω₀` -/
noncomputable def exact (winf w0 κ t : ℝ) : ℝ := winf + (w0 - winf) * Real.exp (-(κ * t))

/-- C04: the simulated speed stays within a bound proportional to `dt` of the closed-form solution
    at every instant: `|ω_m − ω(m dt)| ≤ |ω₀ − ω_∞| · (κ · m dt) · (κ dt)` -/
theorem speed_error_bound (A B J dt w0 : Q) (hB : B ≠ 0) (hJ : J ≠ 0) (m : ℕ)
    (h0 : 0 ≤ B / J * dt) (h1 : B / J * dt ≤ 1) :
    |((iter A B J dt w0 m : Q) : ℝ) - exact ((A / B : Q) : ℝ) (w0 : ℝ) ((B / J : Q) : ℝ) ((m : ℝ) * (dt : ℝ))|
      ≤ |((w0 - A / B : Q) : ℝ)| * ((((B / J : Q) : ℝ) * ((m : ℝ) * (dt : ℝ))) * (((B / J : Q) : ℝ) * (dt : ℝ))) := by
  have hit := affine_iter A B J dt w0 hB hJ m
  have hit' : ((iter A B J dt w0 m : Q) : ℝ) = ((A / B : Q) : ℝ) + (1 - ((B / J * dt : Q) : ℝ)) ^ m * ((w0 - A / B : Q) : ℝ) := by
    have : iter A B J dt w0 m = A / B + (1 - B / J * dt) ^ m * (w0 - A / B) := by linarith
    rw [this]; push_cast; ring
  set h : ℝ := ((B / J * dt : Q) : ℝ) with hh
  have hh0 : 0 ≤ h := by rw [hh]; exact_mod_cast h0
  have hh1 : h ≤ 1 := by rw [hh]; exact_mod_cast h1
  have hk : ((B / J : Q) : ℝ) * (dt : ℝ) = h := by rw [hh]; push_cast; ring
  have hexp : ((B / J : Q) : ℝ) * ((m : ℝ) * (dt : ℝ)) = (m : ℝ) * h := by rw [← hk]; ring
  unfold exact
  rw [hit', hexp, hk]
  have hd : ((w0 : Q) : ℝ) - ((A / B : Q) : ℝ) = ((w0 - A / B : Q) : ℝ) := by push_cast; ring
  have : ((A / B : Q) : ℝ) + (1 - h) ^ m * ((w0 - A / B : Q) : ℝ) - (((A / B : Q) : ℝ) + ((w0 : ℝ) - ((A / B : Q) : ℝ)) * Real.exp (-((m : ℝ) * h)))
      = ((w0 - A / B : Q) : ℝ) * ((1 - h) ^ m - Real.exp (-((m : ℝ) * h))) := by rw [hd]; ring
  rw [this, abs_mul]
  have he := euler_exp_err h m hh0 hh1
  calc |((w0 - A / B : Q) : ℝ)| * |(1 - h) ^ m - Real.exp (-((m : ℝ) * h))|
      ≤ |((w0 - A / B : Q) : ℝ)| * ((m : ℝ) * h ^ 2) := by gcongr
    _ = |((w0 - A / B : Q) : ℝ)| * ((m : ℝ) * h * h) := by ring


/-- the position recursion of `_time_integration`: `θ_{k+1} = θ_k + ω_{k+1}·dt` (the *new* speed) -/
def posIter (A B J dt w0 p0 : Q) : Nat → Q
  | 0 => p0
  | k + 1 => posIter A B J dt w0 p0 k + iter A B J dt w0 (k + 1) * dt

theorem iter_shift (A B J dt w0 : Q) (k : Nat) :
    iter A B J dt w0 (k + 1) = iter A B J dt (iter A B J dt w0 1) k := by
  induction k with
  | zero => rfl
  | succ k ih => rw [iter, ih]; rfl

theorem posIter_shift (A B J dt w0 p0 : Q) (k : Nat) :
    posIter A B J dt w0 p0 (k + 1) =
      posIter A B J dt (iter A B J dt w0 1) (p0 + iter A B J dt w0 1 * dt) k := by
  induction k with
  | zero => simp [posIter]
  | succ k ih =>
    rw [posIter, ih, iter_shift A B J dt w0 (k + 1)]
    rfl

theorem pos_step (p0 winf D κ dt P kq : Q) (hκ : κ ≠ 0) :
    p0 + winf * (kq * dt) + D * (1 - κ * dt) * (1 - P) / κ + (P * (1 - κ * dt) * D + winf) * dt =
      p0 + winf * ((kq + 1) * dt) + D * (1 - κ * dt) * (1 - P * (1 - κ * dt)) / κ := by
  field_simp
  ring

/-- discrete position in closed form: with `κ = B/J`, `ρ = 1 − κ dt`, `ω_∞ = A/B`,
    `θ_m = θ₀ + ω_∞ (m dt) + (ω₀ − ω_∞) ρ (1 − ρ^m)/κ` -/
theorem pos_iter_closed (A B J dt w0 p0 : Q) (hB : B ≠ 0) (hJ : J ≠ 0) (m : Nat) :
    posIter A B J dt w0 p0 m =
      p0 + A / B * ((m : Q) * dt) + (w0 - A / B) * (1 - B / J * dt) * (1 - (1 - B / J * dt) ^ m) / (B / J) := by
  induction m with
  | zero => simp [posIter]
  | succ k ih =>
    have hw : iter A B J dt w0 (k + 1) = (1 - B / J * dt) ^ (k + 1) * (w0 - A / B) + A / B := by
      have := affine_iter A B J dt w0 hB hJ (k + 1); linarith
    have hstep := pos_step p0 (A / B) (w0 - A / B) (B / J) dt ((1 - B / J * dt) ^ k) (k : Q) (div_ne_zero hB hJ)
    rw [posIter, ih, hw, pow_succ]
    push_cast
    linear_combination hstep

/-- dead zone / no speed dependence (`B = 0`): the discrete position exceeds the parabola
    `θ₀ + ω₀ t + (A/J) t²/2` by exactly `(A/J) · t · dt / 2` -/
theorem const_acc_pos (A J dt w0 p0 : Q) (m : Nat) :
    posIter A 0 J dt w0 p0 m =
      p0 + w0 * ((m : Q) * dt) + A / J * ((m : Q) * dt) ^ 2 / 2 + A / J * ((m : Q) * dt) * dt / 2 := by
  induction m with
  | zero => simp [posIter]
  | succ k ih =>
    rw [posIter, ih, const_acc_iter]
    push_cast
    ring

/-- closed-form position: the antiderivative of `exact` with value `p0` at `t = 0` -/
noncomputable def exactPos (winf w0 κ p0 t : ℝ) : ℝ :=
  p0 + winf * t + (w0 - winf) * (1 - Real.exp (-(κ * t))) / κ

theorem exactPos_zero (winf w0 κ p0 : ℝ) : exactPos winf w0 κ p0 0 = p0 := by simp [exactPos]

theorem exact_zero (winf w0 κ : ℝ) : exact winf w0 κ 0 = w0 := by simp [exact]

/-- `exact` solves the linear equation of motion `ω' = κ (ω_∞ − ω)`, i.e. `J ω' = A − B ω` -/
theorem exact_solves_ode (winf w0 κ t : ℝ) :
    HasDerivAt (exact winf w0 κ) (κ * (winf - exact winf w0 κ t)) t := by
  have h1 : HasDerivAt (fun t : ℝ => -(κ * t)) (-κ) t := by
    have := hasDerivAt_const_mul (x := t) (-κ)
    simpa only [neg_mul] using this
  have h2 := (h1.exp).const_mul (w0 - winf)
  have h3 := h2.const_add winf
  rw [show κ * (winf - exact winf w0 κ t) = (w0 - winf) * (Real.exp (-(κ * t)) * -κ) by unfold exact; ring]
  exact h3

/-- `exactPos` is the position whose derivative is the closed-form speed -/
theorem exactPos_deriv (winf w0 κ p0 t : ℝ) (hκ : κ ≠ 0) :
    HasDerivAt (exactPos winf w0 κ p0) (exact winf w0 κ t) t := by
  have h1 : HasDerivAt (fun t : ℝ => -(κ * t)) (-κ) t := by
    have := hasDerivAt_const_mul (x := t) (-κ)
    simpa only [neg_mul] using this
  have h2 : HasDerivAt (fun t : ℝ => (w0 - winf) * (1 - Real.exp (-(κ * t))) / κ)
      ((w0 - winf) * (0 - Real.exp (-(κ * t)) * -κ) / κ) t :=
    ((((hasDerivAt_const t (1:ℝ)).sub h1.exp).const_mul (w0 - winf)).div_const κ)
  have h3 : HasDerivAt (fun t : ℝ => p0 + winf * t) winf t := by
    simpa using ((hasDerivAt_id t).const_mul winf).const_add p0
  have h4 := h3.add h2
  rw [show exact winf w0 κ t = winf + (w0 - winf) * (0 - Real.exp (-(κ * t)) * -κ) / κ by
    unfold exact; field_simp; ring]
  exact h4

/-- C04 (position): `|θ_m − θ(m dt)| ≤ |ω₀ − ω_∞| · (κ · m dt + 1) · dt` — within a bound
    proportional to `dt` of the closed-form position at every instant of a fixed horizon -/
theorem position_error_bound (A B J dt w0 p0 : Q) (hB : B ≠ 0) (hJ : J ≠ 0) (m : ℕ)
    (hκ : 0 < B / J) (h0 : 0 ≤ B / J * dt) (h1 : B / J * dt ≤ 1) :
    |((posIter A B J dt w0 p0 m : Q) : ℝ)
        - exactPos ((A / B : Q) : ℝ) (w0 : ℝ) ((B / J : Q) : ℝ) (p0 : ℝ) ((m : ℝ) * (dt : ℝ))|
      ≤ |((w0 - A / B : Q) : ℝ)| * ((((B / J : Q) : ℝ) * ((m : ℝ) * (dt : ℝ))) + 1) * (dt : ℝ) := by
  rw [pos_iter_closed A B J dt w0 p0 hB hJ m]
  set κ : ℝ := ((B / J : Q) : ℝ) with hκd
  have hκ' : 0 < κ := by rw [hκd]; exact_mod_cast hκ
  set h : ℝ := κ * (dt : ℝ) with hh
  have hh0 : 0 ≤ h := by
    have : (0 : ℝ) ≤ ((B / J * dt : Q) : ℝ) := by exact_mod_cast h0
    rw [hh, hκd]; push_cast at this ⊢; exact this
  have hh1 : h ≤ 1 := by
    have : ((B / J * dt : Q) : ℝ) ≤ 1 := by exact_mod_cast h1
    rw [hh, hκd]; push_cast at this ⊢; exact this
  have hdt : (dt : ℝ) = h / κ := by rw [hh]; field_simp
  set D : ℝ := ((w0 - A / B : Q) : ℝ) with hD
  have hD' : (w0 : ℝ) - ((A / B : Q) : ℝ) = D := by rw [hD]; push_cast; ring
  have hexp : κ * ((m : ℝ) * (dt : ℝ)) = (m : ℝ) * h := by rw [hh]; ring
  have key : (((p0 + A / B * ((m : Q) * dt) + (w0 - A / B) * (1 - B / J * dt) * (1 - (1 - B / J * dt) ^ m) / (B / J) : Q)) : ℝ)
      - exactPos ((A / B : Q) : ℝ) (w0 : ℝ) κ (p0 : ℝ) ((m : ℝ) * (dt : ℝ))
      = D / κ * ((Real.exp (-((m : ℝ) * h)) - (1 - h) ^ m) - h * (1 - (1 - h) ^ m)) := by
    unfold exactPos
    rw [hexp, hD']
    have e1 : ((w0 - A / B : Q) : ℝ) = D := rfl
    push_cast
    have e2 : ((B : ℝ) / (J : ℝ)) = κ := by rw [hκd]; push_cast; ring
    have e3 : (w0 : ℝ) - (A : ℝ) / (B : ℝ) = D := by rw [hD]; push_cast; ring
    rw [e2, e3]
    have e4 : κ * (dt : ℝ) = h := rfl
    rw [e4]
    field_simp
    ring
  rw [key]
  have he := euler_exp_err h m hh0 hh1
  have he' : |Real.exp (-((m : ℝ) * h)) - (1 - h) ^ m| ≤ (m : ℝ) * h ^ 2 := by
    rw [abs_sub_comm]; exact he
  have hρ0 : 0 ≤ (1 - h) ^ m := pow_nonneg (by linarith) m
  have hρ1 : (1 - h) ^ m ≤ 1 := pow_le_one₀ (by linarith) (by linarith)
  have hb2 : |h * (1 - (1 - h) ^ m)| ≤ h := by
    rw [abs_of_nonneg (mul_nonneg hh0 (by linarith))]
    nlinarith
  have hsum : |(Real.exp (-((m : ℝ) * h)) - (1 - h) ^ m) - h * (1 - (1 - h) ^ m)| ≤ (m : ℝ) * h ^ 2 + h := by
    calc _ ≤ |Real.exp (-((m : ℝ) * h)) - (1 - h) ^ m| + |h * (1 - (1 - h) ^ m)| := abs_sub _ _
      _ ≤ _ := add_le_add he' hb2
  rw [abs_mul, abs_div, abs_of_pos hκ']
  calc |D| / κ * |(Real.exp (-((m : ℝ) * h)) - (1 - h) ^ m) - h * (1 - (1 - h) ^ m)|
      ≤ |D| / κ * ((m : ℝ) * h ^ 2 + h) := by gcongr
    _ = |D| * (κ * ((m : ℝ) * (dt : ℝ)) + 1) * (dt : ℝ) := by
        rw [hdt]; field_simp

/-! ### from the model's histories to the recursion -/

/-- on a chain of records related by the step relation, none held, with an affine motor law and a
    constant load, the last element's speed and position follow `iter` / `posIter` -/
theorem steps_follow_iter (c : Cfg) (dt a b L : Q) :
    ∀ (r0 : Rec) (rest : List Rec),
      (∀ r ∈ r0 :: rest, RecOK c r ∧ r.locked = false ∧ (∀ w, c.motorTorque w r.pwm = a - b * w)
        ∧ c.load (lastD r.pos) (lastD r.speed) r.time = L) →
      C03.StepsOK dt (r0 :: rest) →
      ∀ k (hk : k < (r0 :: rest).length),
        lastD ((r0 :: rest)[k]).speed =
          iter (a * gain c.links - L) (b * prodR (c.links.map (·.ratio)) * gain c.links) (inertia c) dt (lastD r0.speed) k ∧
        lastD ((r0 :: rest)[k]).pos =
          posIter (a * gain c.links - L) (b * prodR (c.links.map (·.ratio)) * gain c.links) (inertia c) dt
            (lastD r0.speed) (lastD r0.pos) k := by
  intro r0 rest
  induction rest generalizing r0 with
  | nil =>
    intro _ _ k hk
    have : k = 0 := by simpa using hk
    subst this; simp [iter, posIter]
  | cons r1 rest ih =>
    intro hall hs k hk
    cases k with
    | zero => simp [iter, posIter]
    | succ j =>
      obtain ⟨hrel, hs'⟩ := hs
      obtain ⟨hok0, hnl0, hm0, hL0⟩ := hall r0 (by simp)
      obtain ⟨_, hnl1, _, _⟩ := hall r1 (by simp)
      have hacc := record_acc_affine c r0 hok0 hnl0 a b L hm0 hL0
      obtain ⟨hp, hv⟩ := hrel
      rw [hnl1] at hv
      simp only [Bool.false_eq_true, if_false] at hv
      have hv1 : lastD r1.speed = iter (a * gain c.links - L) (b * prodR (c.links.map (·.ratio)) * gain c.links) (inertia c) dt (lastD r0.speed) 1 := by
        rw [hv, hacc]; simp only [iter]; ring
      have hp1 : lastD r1.pos = lastD r0.pos + lastD r1.speed * dt := by rw [hp, hv]
      have := ih r1 (fun r hr => hall r (by simp [List.mem_cons] at hr ⊢; tauto)) hs' j (by simpa using hk)
      simp only [List.getElem_cons_succ]
      rw [iter_shift, posIter_shift, ← hv1, ← hp1]
      exact this



/-- with no controller the duty cycle of the motor and of every record is the initial one -/
def PwmConst (p0 : Q) (s : St) : Prop := s.pwm = p0 ∧ ∀ r ∈ s.recs, r.pwm = p0

theorem compute_pwmConst (c : Cfg) (hc : c.control = none) (s s' : St) (t p0 : Q)
    (h : PwmConst p0 s) (hs : compute c s t = .ok s') : PwmConst p0 s' := by
  obtain ⟨h1, h2⟩ := C12.compute_pwm_nocontrol c hc s s' t hs
  obtain ⟨r, hr, _⟩ := compute_rec c s s' t hs
  refine ⟨by rw [h1]; exact h.1, ?_⟩
  intro x hx
  rw [hr] at hx
  rcases List.mem_append.mp hx with hx | hx
  · exact h.2 x hx
  · simp at hx; rw [hx, h2 r hr]; exact h.1

theorem loop_pwmConst (c : Cfg) (hc : c.control = none) (dt : Q) (stop) (ts : List Q) (s s' : St) (p0 : Q)
    (h : PwmConst p0 s) (hs : loop c dt stop ts s = .ok s') : PwmConst p0 s' := by
  induction ts generalizing s with
  | nil => simp [loop] at hs; subst hs; exact h
  | cons t ts ih =>
    simp only [loop] at hs
    split at hs
    · simp at hs
    · rename_i s1 h1
      have hp1 : PwmConst p0 s1 := compute_pwmConst c hc (integrate s dt) s1 t p0 (by simpa [PwmConst, integrate] using h) h1
      split at hs
      · simp only [Except.ok.injEq] at hs; subst hs; exact hp1
      · exact ih s1 hp1 hs

/-- C04 (reduction, end to end on the model): a fresh run of a chain that cannot self-lock, without
    controller, with a motor law affine in the speed at the duty cycle in force and a constant load,
    records on its last element exactly the recursion `iter` / `posIter` — whose distance to the
    closed-form solution `speed_error_bound` / `position_error_bound` bound by a multiple of `dt` -/
theorem run_follows_iter (c : Cfg) (dt a b L p v p0 : Q) (n : Nat) (stop) (s' : St)
    (hsl : c.sl = false) (hc : c.control = none)
    (hm : ∀ w, c.motorTorque w p0 = a - b * w) (hL : ∀ x y t, c.load x y t = L)
    (h : run c dt n stop { St.init p v with pwm := p0 } = .ok s') :
    ∀ k (hk : k < s'.recs.length),
      lastD (s'.recs[k]).speed =
        iter (a * gain c.links - L) (b * prodR (c.links.map (·.ratio)) * gain c.links) (inertia c) dt v k ∧
      lastD (s'.recs[k]).pos =
        posIter (a * gain c.links - L) (b * prodR (c.links.map (·.ratio)) * gain c.links) (inertia c) dt v p k := by
  set s : St := { St.init p v with pwm := p0 } with hsdef
  have hinv : StInv c s := ⟨by intro r hr; simp [hsdef, St.init] at hr, by intro hl; simp [hsdef, St.init] at hl⟩
  have hco : C03.Coherent s := by intro a ha; simp [hsdef, St.init] at ha
  obtain ⟨new, hnew, hsteps, _⟩ := C03.run_steps c dt n stop s s' hinv hco h
  have hrecs0 : s.recs = [] := by simp [hsdef, St.init]
  rw [hrecs0] at hnew hsteps
  simp only [List.nil_append, List.getLast?_nil, Option.toList_none] at hnew hsteps
  have hinv' := run_inv c dt n stop s s' hinv h
  -- the first record
  have hfirst : ∃ r0 rest, s'.recs = r0 :: rest ∧ lastD r0.speed = v ∧ lastD r0.pos = p ∧ PwmConst p0 s' := by
    unfold run at h
    have hl : lastTime s = none := by simp [lastTime, hrecs0]
    simp only [hl] at h
    cases h0 : compute c { s with locked := false } 0 with
    | error e => simp [h0] at h
    | ok s0 =>
      simp only [h0] at h
      obtain ⟨r, hr, hrok, _, _, hp, hv, ha, _, hpp, _⟩ :=
        compute_recOK c { s with locked := false } s0 0 (by intro hh; simp at hh) h0
      obtain ⟨r2, hr2, hsp⟩ := C03.compute_speed c { s with locked := false } s0 0 h0
      have hrr : r2 = r := by rw [hr] at hr2; simpa using (List.append_cancel_left hr2).symm
      subst hrr
      have hunl : r2.locked = false := by
        cases hlk : r2.locked with
        | false => rfl
        | true => have := hrok.lockedSL hlk; rw [hsl] at this; simp at this
      rw [hunl] at hsp
      simp only [Bool.false_eq_true, if_false] at hsp
      have hpc0 : PwmConst p0 s0 :=
        compute_pwmConst c hc { s with locked := false } s0 0 p0 ⟨by simp [hsdef], by simp [hrecs0]⟩ h0
      obtain ⟨new', hn', _, _⟩ := C03.loop_steps c dt stop _ s0 s'
        (compute_inv c { s with locked := false } s0 0 ⟨hinv.1, by intro hh; simp at hh⟩ h0)
        (by intro a hla; rw [hr] at hla; simp at hla; subst hla; exact ⟨hp, hv, ha⟩) h
      refine ⟨r2, new', by rw [hn', hr, hrecs0]; simp, ?_, ?_, loop_pwmConst c hc dt stop _ s0 s' p0 hpc0 h⟩
      · rw [← hv, hsp]; simp [hsdef, St.init]
      · rw [← hp, hpp]; simp [hsdef, St.init]
  obtain ⟨r0, rest, hrr, hv0, hp0, hpc⟩ := hfirst
  intro k hk
  have hall : ∀ r ∈ r0 :: rest, RecOK c r ∧ r.locked = false ∧ (∀ w, c.motorTorque w r.pwm = a - b * w)
      ∧ c.load (lastD r.pos) (lastD r.speed) r.time = L := by
    intro r hr
    rw [← hrr] at hr
    have hok := hinv'.1 r hr
    refine ⟨hok, ?_, ?_, hL _ _ _⟩
    · cases hlk : r.locked with
      | false => rfl
      | true => have := hok.lockedSL hlk; rw [hsl] at this; simp at this
    · rw [hpc.2 r hr]; exact hm
  have hst : C03.StepsOK dt (r0 :: rest) := by rw [← hrr, hnew]; exact hsteps
  have := steps_follow_iter c dt a b L r0 rest hall hst k (by rw [← hrr]; exact hk)
  simp only [hrr]
  rw [hv0, hp0] at this
  exact this


/-- C04: on a fresh run (hypotheses of `run_follows_iter`, `κ = B/J > 0`, `0 ≤ κ dt ≤ 1`) the recorded
    speed and position of the output element stay within a bound proportional to `dt` of the
    closed-form solution at every recorded instant `k` (time `k·dt`) -/
theorem C04_run (c : Cfg) (dt a b L p v p0 : Q) (n : Nat) (stop) (s' : St)
    (hsl : c.sl = false) (hc : c.control = none)
    (hm : ∀ w, c.motorTorque w p0 = a - b * w) (hL : ∀ x y t, c.load x y t = L)
    (h : run c dt n stop { St.init p v with pwm := p0 } = .ok s')
    (A B : Q) (hA : A = a * gain c.links - L) (hBd : B = b * prodR (c.links.map (·.ratio)) * gain c.links)
    (hB : B ≠ 0) (hJ : inertia c ≠ 0) (hκ : 0 < B / inertia c)
    (h0 : 0 ≤ B / inertia c * dt) (h1 : B / inertia c * dt ≤ 1) :
    ∀ k (hk : k < s'.recs.length),
      |((lastD (s'.recs[k]).speed : Q) : ℝ)
          - exact ((A / B : Q) : ℝ) (v : ℝ) ((B / inertia c : Q) : ℝ) ((k : ℝ) * (dt : ℝ))|
        ≤ |((v - A / B : Q) : ℝ)| * ((((B / inertia c : Q) : ℝ) * ((k : ℝ) * (dt : ℝ))) * (((B / inertia c : Q) : ℝ) * (dt : ℝ))) ∧
      |((lastD (s'.recs[k]).pos : Q) : ℝ)
          - exactPos ((A / B : Q) : ℝ) (v : ℝ) ((B / inertia c : Q) : ℝ) (p : ℝ) ((k : ℝ) * (dt : ℝ))|
        ≤ |((v - A / B : Q) : ℝ)| * ((((B / inertia c : Q) : ℝ) * ((k : ℝ) * (dt : ℝ))) + 1) * (dt : ℝ) := by
  intro k hk
  obtain ⟨e1, e2⟩ := run_follows_iter c dt a b L p v p0 n stop s' hsl hc hm hL h k hk
  rw [e1, e2, ← hA, ← hBd]
  exact ⟨speed_error_bound A B (inertia c) dt v hB hJ k h0 h1,
         position_error_bound A B (inertia c) dt v p hB hJ k hκ h0 h1⟩

/-! ### non-vacuity: A = 2, B = 1, J = 4, dt = 1/2 (κ dt = 1/8), three steps -/
example : iter 2 1 4 (1/2) 0 3 - 2 / 1 = (1 - 1 / 4 * (1/2)) ^ 3 * (0 - 2 / 1) := affine_iter 2 1 4 (1/2) 0 (by norm_num) (by norm_num) 3

example : posIter 2 1 4 (1/2) 0 0 2 = 0 + 2 / 1 * ((2 : Q) * (1/2)) + (0 - 2 / 1) * (1 - 1 / 4 * (1/2)) * (1 - (1 - 1 / 4 * (1/2)) ^ 2) / (1 / 4) := by
  simpa using pos_iter_closed 2 1 4 (1/2) 0 0 (by norm_num) (by norm_num) 2

end Gearpy.C04
