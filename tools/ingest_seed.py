#!/usr/bin/env python3
"""ingest_seed.py <Cxx> <N> <detected_by comma list> [extra note]  — copies a confirmed sub-agent seed into /verif/seeded/"""
import json, os, shutil, sys
pid, n, det = sys.argv[1], sys.argv[2], sys.argv[3].split(',')
note = sys.argv[4] if len(sys.argv) > 4 else ''
src = f'/tmp/wtout/{pid}'
dst = f'/verif/seeded/{pid}-m{n}'
os.makedirs(dst, exist_ok=True)
shutil.copy(f'{src}/mut{n}.diff', f'{dst}/patch.diff')
shutil.copy(f'{src}/mut{n}_demo.py', f'{dst}/demo.py')
notes = open(f'{src}/mut{n}_notes.txt').read()
suite = ''
for line in open('/tmp/suite_all.log'):
    if line.startswith(f'{pid} mut{n} '):
        suite = line.strip()
meta = {'breaks': pid, 'origin': 'written by a sub-agent from the property text alone (no access to /verif)',
        'author_notes': notes, 'detected_by': det,
        'what_was_run': f'tools/evalmut.sh (demo exits 0 on the clean tree, non-zero with the patch); full pinned suite on the patched tree: {suite}; '
                        f'tools/seedtest.sh seeded/{pid}-m{n}/patch.diff {" ".join(det)} -> each exits 1 with a VIOLATION line', 'note': note}
json.dump(meta, open(f'{dst}/meta.json', 'w'), indent=1)
print('ingested', dst)
